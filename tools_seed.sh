#!/bin/bash
# tools_seed.sh <seed_dir> <agent_worktree_path> <check ids...>
# Confirms a seeded change (demo passes on the clean tree, fails with the patch, baseline still passes) and runs
# the given checks against it in a scratch worktree (VERIF_REPO), never touching /repo.
SEED=$1; AGENTWT=$2; shift 2
TAG=$(echo "$SEED" | tr '/' '_')
WT=/tmp/wt_eval_$TAG
git -C /repo worktree remove --force $WT 2>/dev/null; rm -rf $WT
git -C /repo worktree add -q --detach $WT HEAD || exit 2
sed "s#$AGENTWT#$WT#g" $SEED/demo.py > /tmp/demo_$TAG.py
( cd $WT && timeout 900 /venv/bin/python /tmp/demo_$TAG.py > /tmp/demo_$TAG.clean.log 2>&1 ); CLEAN=$?
git -C $WT apply $SEED/patch.diff || { echo "PATCH DOES NOT APPLY"; git -C /repo worktree remove --force $WT; exit 2; }
( cd $WT && timeout 900 /venv/bin/python /tmp/demo_$TAG.py > /tmp/demo_$TAG.mut.log 2>&1 ); MUT=$?
echo "seed $SEED: demo clean=$CLEAN mutated=$MUT"
if [ "$RUN_BASELINE" = "1" ]; then
  ( cd $WT && /venv/bin/python -m pytest -q -p no:cacheprovider --timeout=900 --continue-on-collection-errors 2>&1 | tail -1 )
fi
for c in "$@"; do
  ( cd /verif && VERIF_REPO=$WT VERIF_NO_EVIDENCE=1 timeout 3000 ./check $c > /tmp/seedrun_${TAG}_$c.log 2>&1 ); RC=$?
  echo "  check $c: exit $RC; $(grep -c '^VIOLATION' /tmp/seedrun_${TAG}_$c.log) VIOLATION lines; $(grep 'signature' /tmp/seedrun_${TAG}_$c.log | head -2 | cut -c1-200)"
done
git -C /repo worktree remove --force $WT
rm -rf $WT
