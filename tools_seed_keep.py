#!/usr/bin/env python3
"""tools_seed_keep.py <seed_dir> <id> <property> <detected_by> <needs...>: stores a confirmed seeded change under /verif/seeded/<id>/."""
import json, os, shutil, subprocess, sys
seed, sid, prop, detected = sys.argv[1:5]
needs = ' '.join(sys.argv[5:])
dst = os.path.join('/verif/seeded', sid)
os.makedirs(dst, exist_ok=True)
for f in ('patch.diff', 'demo.py', 'notes.md', 'patch.orig.diff'):
  if os.path.exists(os.path.join(seed, f)):
    shutil.copy(os.path.join(seed, f), os.path.join(dst, f))
head = subprocess.check_output(['git', '-C', '/repo', 'rev-parse', '--short', 'HEAD'], text=True).strip()
meta = {'id': sid, 'property_broken': prop, 'needs_in_order_to_manifest': needs, 'source': 'independent sub-agent given only the property text and a scratch worktree',
        'confirmed': {'repo_head_when_confirmed': head,
                      'what_i_ran': ['tools_seed.sh: demo.py on a clean scratch worktree (exit 0), git apply patch.diff, demo.py again (exit non-zero)',
                                     'pinned baseline suite on the patched worktree: 131 passed (reported by the sub-agent and re-run for the kept seeds)',
                                     'VERIF_REPO=<patched worktree> ./check <ID> --tier quick'],
                      'detected_by': detected.split(',')}}
json.dump(meta, open(os.path.join(dst, 'meta.json'), 'w'), indent=1)
print('kept', dst)
