#!/bin/bash
# tools_benign.sh <change_dir> <check ids...>
# Runs the given checks against a behaviour-preserving change (patch.diff) in a scratch worktree (VERIF_REPO);
# any VIOLATION / non-zero exit is a false alarm to be analysed.  Never touches /repo.
SEED=$1; shift 1
TAG=$(echo "$SEED" | tr '/' '_')
WT=/tmp/wt_eval_$TAG
git -C /repo worktree remove --force $WT 2>/dev/null; rm -rf $WT
git -C /repo worktree add -q --detach $WT HEAD || exit 2
git -C $WT apply $SEED/patch.diff || { echo "PATCH DOES NOT APPLY: $SEED"; git -C /repo worktree remove --force $WT; exit 2; }
for c in "$@"; do
  ( cd /verif && VERIF_REPO=$WT VERIF_NO_EVIDENCE=1 timeout 3000 ./check $c > /tmp/benignrun_${TAG}_$c.log 2>&1 ); RC=$?
  echo "benign $SEED check $c: exit $RC; $(grep -c '^VIOLATION' /tmp/benignrun_${TAG}_$c.log) VIOLATION lines; $(grep 'signature' /tmp/benignrun_${TAG}_$c.log | head -2 | cut -c1-220)"
done
git -C /repo worktree remove --force $WT
rm -rf $WT
