#!/usr/bin/env python3
"""Generates MANIFEST.json from the table below (one source of truth; run after adding a check)."""
import json
import os

HERE = os.path.dirname(os.path.abspath(__file__))
BASELINE = "cd /repo && /venv/bin/python -m pytest -ra -q -p no:cacheprovider --timeout=900 --continue-on-collection-errors"

MC = 'model_checking'
EX = 'exploration'
CHECKS = {
    'C01': (MC, '5 C01', 'TLA+ Spec A (VizierService.tla over VizierAtomic.Apply) model-checked exhaustively with TLC; every transition '
            'replayed on the real servicer (RAM + SQLite) with response and full projected state compared; recorded random walks of the '
            'servicer validated by the trace spec VizierTrace.tla',
            'TLC checks the lifecycle action properties (legal transitions, params frozen, completed frozen, errors pure, immutable study) on '
            'the reference model for every history within the stated constants/depth; the code is bound to the model in both directions, so a '
            'servicer change that alters any response, error class or stored field on any enumerated transition or recorded walk is rejected.',
            'Bounded: 1-2 studies, 2 clients, ids <= 3-4 (10 in walks), depth 3-5. Trusted: environment shims (in-memory proto compiler, '
            'equinox stand-in), the projection (drops timestamps, message text, list order), scripted policy via public PolicyFactory.'),
    'C02': (MC, '5 C02', 'TLA+ Spec A configs biased to suggestion traffic, exhaustive TLC + transition replay on the servicer + trace validation of '
            'random suggest-heavy walks; VizierClient.get_suggestions driven against the finished operations',
            'Exactly-N / sticky / one-owner / fresh-id / surplus-queued are action properties checked by TLC on the model for every history and '
            'every algorithm delivery 0..n+1; replay and trace validation make every enumerated suggest transition of the real servicer equal to the model\'s.',
            'Algorithm is environment (scripted policy delivering exactly what TLC chose). Bounds: <= 3 workers, ids <= 4-5 (14 in walks), '
            'suggestion_count <= 3-4, depth 4-5.'),
    'C06': (MC, '5 C06', 'TLA+ Spec A with algorithm failure / short / over-delivery as environment choices, exhaustive TLC + replay + trace validation; '
            'the same fault programs run in the local, gRPC and split-Pythia deployments with 8 exception classes, validated by VizierTrace.tla',
            'TLC checks NoUnfinishedOp / NoActiveEs / Reported / Reaches on the model for every fault sequence within depth; the servicer must '
            'reproduce every transition (finished operation carrying an error, FAILED early-stopping operation, later calls reach the algorithm again).',
            'Fault injection through the public PolicyFactory; deployments are in-process servers on localhost; client polling interval patched to 0.'),
    'C10': (MC, '5 C10', 'TLA+ Spec A metadata actions (study/trial deltas, algorithm-issued metadata) exhaustive TLC + replay + trace validation; '
            'Namespace.tla: contract and transcription of Namespace.encode/_parse model-checked over all small namespaces and judged on observations of the real code; '
            'MetadataStore.tla: the vz.Metadata object (shared table, namespace handles, attach) model-checked, every transition replayed and every observer compared',
            'Last-writer-wins, isolation and failed-update-is-no-op are action properties on the model; namespaces: every namespace with <= 2 (thorough 3) '
            'components of <= 2 characters over {a, :, \\\\, e-acute} is encoded/decoded by the real code and judged by TLC (round trip, injectivity, conformance).',
            'Cells are 4 fixed (namespace,key) pairs incl. escaped-colon and algorithm namespaces; values v1/v2/empty string. Known finding F4 (trailing backslash) is listed in known_findings.jsonl.'),
    'C11': (MC, '5 C11', 'TLA+ Spec A ListOptimalTrials (incl. partial-metric and NaN trials, three goal configs) exhaustive TLC + replay + traces; '
            'Pareto.tla: TLC enumerates every point multiset of a small grid and computes front/rank/against by definition; all library Pareto routines executed on every arrangement; '
            'Survival.tla: NSGA-II survival evaluated by TLC for every small population and replayed into NSGA2Survival.select',
            'The service half is model-checked and replayed like C01; the library half is exhaustive over all multisets of <= 3-5 points in {0,1,2(,3)}^d, d <= 3-4, '
            'with -inf/+inf palette, against Naive, Fast (thresholds 1,2,3,n; over Naive and Jax), xla is_frontier/pareto_rank, nsga2._pareto_rank, update_pareto_optimal, GetBestTrials.',
            'JAX variants on a seeded 2-5% sample (dispatch cost); orders above 6 per multiset sampled in quick.'),
    'C07': (MC, '5 C07', 'TLA+ Spec A transition histories replayed on three backends (RAM, in-memory SQLite, SQLite file) and compared through the model; '
            'same-seed recorded walks on every backend validated by VizierTrace.tla',
            'The model is deterministic given the environment choices carried in the call record, so acceptance of a history on every backend is step-by-step '
            'equality of their responses, error classes and stored state; configs are biased to delete/re-create, failed metadata updates, operation numbering.',
            'SQLite-file backend replayed on a seeded sample (engine creation cost); timestamps/list order outside the projection.'),
    'C08': (MC, '5 C08', 'ClientApi.tla (clients.Study/Trial methods as RPC sequences over Apply with the client-level exception contract) model-checked with TLC; '
            'every client-level transition replayed through vizier.service.clients against the in-process service, a gRPC server and a gRPC server with separate Pythia server',
            'TLC checks the promised exceptions (ResourceNotFound, [] for a finished study, pure exceptions) on the client model; every deployment must reproduce the '
            'model\'s outcome (value or exception class) and the stored state on every enumerated client program, hence agree with each other.',
            'Deployments are the repository\'s own server classes on localhost in one process; exception classes abstracted per DESIGN 3.1 (raw NotFoundError and RpcError NOT_FOUND are one class).'),
    'C12': (MC, '5 C12', 'Delivery.tla (Spec A + per-incarnation delivered ghost) model-checked over its complete reachable graph with TLC; every transition replayed on the '
            'real service hosting a recording designer through PolicyFactory (PartiallySerializableDesignerPolicy rebuilt per request, DesignerPolicy), incl. servicer restarts on an SQLite file; '
            'TrialView.tla (the filtered trial views the delivery rule reads through) model-checked and every (trial table, filter) query replayed into TrialFilter, both policy supporters and clients.Study.trials',
            'TLC checks ExactlyOnce / NothingMissedForever on the model and prints, for every transition, the exact arguments Designer.update must receive; the recording '
            'designer\'s log must equal them. The VIEW includes an ever-delivered ghost so that states the implementation distinguishes (its persisted id cache) are explored separately.',
            'Bounds: one study, ids <= 3 (4 thorough), 1-2 workers, batch <= 2; complete reachable graph for the stateful mode. The in-RAM kept policy (InRamDesignerPolicy) shares '
            '_SerializableDesignerPolicyBase with the rebuilt one and is not driven separately. Known finding F14 (id reuse) listed.'),
    'C16': (MC, '5 C16', 'SearchSpace.tla: TLC enumerates every ParameterConfig.factory argument combination, builder program, (flat space, typed assignment) pair and '
            'conditional-tree traversal over small universes and computes validity / normal form / membership / yielded parameters; each case executed on the real code',
            'Exhaustive within the universes: 3 880 definitions, 350 builder programs, 88 308 (space, assignment) pairs (35% sample of two-parameter spaces in quick), '
            'every choose/skip sequence of 5 conditional trees in dfs and bfs order; TLC also checks on the model that a traversal yields exactly the active parameters.',
            'Universes are small by construction (values in half units -1..3.5, inf, nan; strings a, b, True, z; Python bool marked Unspecified).'),
    'C17': (MC, '5 C17', 'SearchSpace.tla presentation mode: TLC enumerates (conditional tree, stored trial) pairs and computes the typed values a client must read or that the trial must be rejected; '
            'each trial is stored through a real servicer and read back with clients.Trial.parameters and StudyConfig.trial_parameters',
            'Exhaustive over 5 tree shapes x every well-typed subset of stored parameters (684 cases): Python type and value of every presented parameter, grouping of x[i] names, '
            'error for inactive/unknown parameters.',
            'INTEGER parameters declared with add_int_param are compared by value only (their Python type after the wire trip is not fixed by the property).'),
    'C04': (MC, '5 C04', 'Spec B (VizierConcurrent.tla, PlusCal: one step per DataStore call / lock acquisition of every RPC) model-checked with TLC for 500+ call pairs and triples on four prefixes (Serializable, NoStuckOp, Termination); deterministic cooperative scheduler runs the real RPC methods in real threads, yielding before every DataStore call and lock acquisition; schedules '
            'enumerated by stateless DFS; every execution judged by the linearizability trace spec VizierLin.tla (silent Linearize steps over VizierAtomic.Apply, id renaming) with TLC; '
            'datastore-internal races (SQL: yield at every release of the datastore lock; RAM: every deepcopy made without it); ResourceNames.tla: one accepted spelling per resource (= one lock), every name within 1-2 segment edits of a well-formed one parsed by all five from_name',
            '34 call pairs/triples on prefix states; all schedules for pairs without SuggestTrials, preemption bound 2 for pairs with it (quick), all schedules (thorough): '
            'a trace is accepted iff some serial order of Spec A explains every response, error class and the final stored state up to renaming of trial ids; deadlock = no runnable thread.',
            'Granularity as C04 states: each DataStore method is atomic (it holds the datastore lock). Instrumentation replaces plain attributes of the servicer (datastore, three lock tables); '
            'no repository hook. Responses are compared as C04 states (error class, trials handed out); the final stored state is compared in full.'),
    'C05': (MC, '5 C05', 'VizierCrash.tla (Spec C: per-RPC chain of committed datastore states over VizierAtomic.Apply, recovery probes) model-checked with TLC; '
            'crash injection into the real SQLite-backed servicer at every statement / commit / datastore-return point (SQLAlchemy events), the file image reopened by a fresh servicer and compared with the model',
            'TLC checks on the model that single-resource calls have at most one durable step, that the chain ends in the acknowledged state, that every post-crash state is well-formed and usable '
            '(suggest + complete by the same and by another worker). On the code every crash image must equal one state of the model\'s chain for that scenario (no torn state), all rows must '
            'decode, no orphan or duplicate rows, and the recovery probes must answer as the model says.',
            'Process death only (file + rollback journal copied at the point), SQLite DELETE journal mode, single server process. Scenarios crashed are a seeded sample of the model\'s transitions in quick.'),
    'C09': (EX, '5 C09', 'Wire.tla value model: TLC enumerates the universe of parameter configs (kinds x scalings x falsy/truthy defaults x external types x conditional depth 1-3), '
            'metric infos, measurements, trials and metadata deltas; each value converted to proto and back by the real converters (configs also through CreateStudy/GetStudy on SQLite); '
            'TLC judges round trip and idempotence on the recorded observations',
            'Exhaustive over the finite value model (7 774 values) with falsy values as first-class members; equality of the projected result with the enumerated value and byte-identity '
            'of the second serialisation are judged by TLC. This is encode/decode fidelity: the specification contributes the value space, the statement of what may be lossy, and the judgement - not a model of protobuf.',
            'Projection of pyvizier objects into the value model is done by the driver. Suggest/EarlyStop request/decision converters and fields outside the model are not covered.'),
    'C03': (EX, '5 C03', 'DesignerSession.tla: TLC enumerates the well-formed session schedules (suggest batches, feasible/infeasible completions, restart marks); '
            'real designers run on a catalog of 12 space shapes; every suggestion judged by TLC on exact float order keys (Num.tla): each parameter once, within bounds, integral, member of the feasible set',
            'Scenario enumeration + membership judgement in TLA+, behaviour observed (not modelled): 7 algorithms x 12 shapes x sampled schedules, plus get_default_parameters; '
            'a raised exception counts as a refusal (allowed), an incomplete or out-of-domain suggestion as a violation.',
            'Exploration: magnitudes come from the shape catalog; GP designers / BOCS / HARMONICA not run (minutes per suggestion under the equinox stand-in, BOCS broken by the image numpy).'),
    'C13': (MC, '5 C13', 'Grid.tla: exact model of grid search (mixed-radix index, current_index) model-checked for all batch sequences x restart positions, every session replayed on the real '
            'GridSearchDesigner and (sampled) hosted in the service across servicer restarts on an SQLite file; DesignerSession.tla restart placements for quasi-random, eagle, NSGA-II, CMA-ES, shuffled grid judged by TLC',
            'model_checking for grid (each-point-once / covers-grid / repeats-in-order invariants on the model, 19 316 complete sessions replayed); exploration for the other designers: the live instance '
            'fed the same trial history is the oracle, TLC enumerates restart placements and judges equality of suggestions (or of the public dump for the randomised evolutionary designers).',
            'Restart = dump -> fresh instance constructed with another seed -> load. Magnitudes from the shape catalog.'),
    'C14': (EX, '5 C14', 'DesignerSession.tla schedules: run A vs run C (same seed after perturbing numpy/python/jax global random state) vs run D (seed+1), judged by TLC on order keys; '
            'Runner.tla enumerates benchmark-runner programs, each executed three times on seeded benchmark state factories',
            'Two-run relation: the specification contributes the enumeration of schedules / runner programs and the equality judgement; A = C for every algorithm, A # D for randomised algorithms on spaces with more than 8 points.',
            'Fresh-subprocess and wall-clock perturbations are not run in quick; GP designers not run.'),
    'C15': (EX, '5 C15', 'Converter.tla: TLC enumerates 576 converter configurations (12 parameter shapes x scale x one-hot x OOV padding x continuify threshold x dtype) and computes the discrete '
            'structure (continuified?, column count, hot column); the real DefaultModelInputConverter / TrialToArrayConverter / DefaultModelOutputConverter are exercised and TLC judges the observations on order keys',
            'model_checking flavour for the discrete half (exhaustive over catalog x options x every feasible point), exploration for the continuous clauses (round trip within tolerance, unit interval, '
            'monotone orientation with end points 0 and 1, exactly-one-hot rows, decoding of 12 arbitrary arrays incl. +-1e9 into the space, label round trip under both sign conventions).',
            'Magnitudes from the catalog; jnp_converters padding and ProblemAndTrialsScaler are not covered.'),
    'C18': (EX, '5 C18', 'Warp.tla: TLC enumerates every weak order with missing entries of arrays of length <= 4 (thorough 5); the driver concretises each with 7 magnitude palettes and runs '
            'the real default / warp-outliers pipelines and every component; TLC judges the outputs on exact order keys',
            'The order structure (ties, duplicates, missing-entry patterns) is exhaustive, magnitudes are a palette: same shape, all finite, input untouched, infeasible <= worst feasible, '
            'same weak order (default pipeline and its components), no reversal (everything), unwarp(warp(x)) = x where an inverse exists (complete arrays with >= 2 distinct values).',
            'Components other than InfeasibleWarper get complete, non-degenerate arrays (the pipelines handle missing entries and single-value inputs by documented shortcuts); DetectOutliers may mark entries NaN by design.'),
    'C19': (EX, '5 C19', 'VecOpt.tla: the suggest-evaluate-update loop best := TopK(best + batch) model-checked with TLC for all batch sequences (result = top-count of everything evaluated); '
            'the real VectorizedOptimizer (eagle and random strategies, use_fori=False) run on piecewise-constant score functions that log every batch; TLC judges each run',
            'Per run TLC decides: returned count, continuous features in [0,1], categorical indices valid, padded dimensions zero, reward[i] = table score of the cell of feature[i] (lookup done by TLC), '
            'result = top-count of all evaluated rewards, not worse than the best prior (needle at the prior point), same seed => identical run.',
            'Sampled configurations (36 of 2 688 in quick); score functions piecewise constant so candidates are discrete; smooth functions and lbfgsb_optimizer out of scope. Known finding F15 listed.'),
    'C20': (EX, '5 C20', 'Experimenter.tla: TLC enumerates every valid wrapper stacking (shift, sign flip, noise, discretise, permute, normalise, hashing-infeasible) of depth <= 2 (thorough 3) over three synthetic bases '
            'with validity side conditions; each term evaluated on points of its own search space together with its inner experimenter at the mapped point; TLC judges protocol and laws on order keys',
            'Protocol for every term (COMPLETED with the metrics of the problem statement or INFEASIBLE; parameters untouched incl. Python type; problem_statement() by value) and the law of the outermost wrapper '
            '(pointwise equality within 1e-9 for shift / sign flip / discretise / infeasible, order preservation for normalise, involution and flipped goals for sign flip, reproducible seeded noise, bijection for permute).',
            'The mapped point is computed by the driver from the wrapper arguments; noisy inner experimenters are judged on the protocol only. BBOB functions broken by the image numpy (Rastrigin, ...) replaced by working ones.'),
}

PENDING = {
    'C03': 'check not built yet in this round (planned: DesignerSession.tla scenario enumeration + SearchSpace.tla Contains judged by TLC)',
    'C04': 'check not built yet in this round (planned: PlusCal Spec B + cooperative scheduler + VizierLin.tla)',
    'C05': 'check not built yet in this round (planned: Spec C crash model + SQLAlchemy-event crash injection)',
    'C07': 'check not built yet in this round (planned: three-backend replay under one environment)',
    'C08': 'check not built yet in this round (planned: ClientApi.tla over three deployments)',
    'C09': 'check not built yet in this round (planned: Wire.tla value enumeration + round-trip judged by TLC)',
    'C12': 'check not built yet in this round (planned: Delivery spec + recording designer)',
    'C13': 'check not built yet in this round (planned: Grid.tla + DesignerSession restart placements)',
    'C14': 'check not built yet in this round (planned: DesignerSession runs A/C/D)',
    'C15': 'check not built yet in this round (planned: Converter.tla)',
    'C16': 'check not built yet in this round (planned: SearchSpace.tla definitions/membership/traversal)',
    'C17': 'check not built yet in this round (planned: SearchSpace.tla Present)',
    'C18': 'check not built yet in this round (planned: Warp.tla weak orders)',
    'C19': 'check not built yet in this round (planned: VecOpt.tla)',
    'C20': 'check not built yet in this round (planned: Experimenter.tla)',
}


def main():
  checks = []
  for pid, (level, ref, technique, text, note) in sorted(CHECKS.items()):
    checks.append({
        'property_id': pid,
        'quick_cmd': './check %s --tier quick' % pid,
        'thorough_cmd': './check %s --tier thorough' % pid,
        'evidence_file': 'evidence/%s.json' % pid,
        'replay_cmd_template': './check %s --replay {path}' % pid,
        'engine': 'tlc',
        'level_claimed': {'category': level, 'text': text, 'design_ref': 'DESIGN.md section ' + ref},
        'level_note': note,
        'technique': technique,
    })
  m = {
      'version': 1,
      'setup_cmd': './setup',
      'hooks': {
          'guard': 'GOOGLE_VIZIER_VERIF',
          'enable': 'no hooks: every observation/injection point is public surface (PolicyFactory, servicer.datastore, lock tables, SQLAlchemy events)',
          'baseline_off_cmd': BASELINE,
          'source_commits': [],
          'add_only': True,
      },
      'engines': [{'name': 'tlc', 'path': '/opt/veriftools/tla/tla2tools.jar', 'serves_properties': sorted(CHECKS),
                   'kind_free_text': 'TLC 1.8 explicit-state model checker on the TLA+ specifications in spec/, bound to the code by replay (lib/replay.py) and trace validation (lib/record.py)'}],
      'checks': checks,
      'not_applicable': [{'property_id': p, 'reason': r} for p, r in sorted(PENDING.items()) if p not in CHECKS],
      'notes': 'All checks: ./check <ID> [--tier quick|thorough] [--replay path]; exit 0 held / 1 VIOLATION / 2 machinery failure. '
               'Genuine defects repaired in /repo are "fix:" commits listed in known_findings.jsonl (status fixed); recorded ones have status known.',
  }
  with open(os.path.join(HERE, 'MANIFEST.json'), 'w') as f:
    json.dump(m, f, indent=1)
  print('MANIFEST.json: %d checks, %d not_applicable' % (len(checks), len(m['not_applicable'])))


if __name__ == '__main__':
  main()
