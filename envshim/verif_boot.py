"""Imported first by every driver: makes google/vizier importable in this sandbox.

* puts the equinox stand-in (envshim/shims) and the repository on sys.path,
* compiles /repo's .proto files in memory (pbboot) so vizier._src.service.*_pb2 exist.
Nothing is written under /repo.  The repository root is $VERIF_REPO (default /repo).
"""
import os
import sys

HERE = os.path.dirname(os.path.abspath(__file__))
VERIF = os.path.dirname(HERE)
REPO = os.environ.get('VERIF_REPO', '/repo')

for p in (os.path.join(VERIF, 'lib'), VERIF, HERE, REPO, os.path.join(HERE, 'shims')):
  if p in sys.path:
    sys.path.remove(p)
  sys.path.insert(0, p)

os.environ.setdefault('JAX_PLATFORMS', 'cpu')
os.environ.setdefault('TF_CPP_MIN_LOG_LEVEL', '3')
sys.dont_write_bytecode = True  # never leave __pycache__ under /repo

import pbboot  # noqa: E402

pbboot.install(REPO)

try:
  from absl import logging as _alog
  _alog.set_verbosity(_alog.FATAL)
  import logging as _logging
  _logging.disable(_logging.WARNING)
except Exception:  # pragma: no cover
  pass
