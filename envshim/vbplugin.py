"""pytest plugin (-p vbplugin): install the environment shims before collection."""
import verif_boot  # noqa: F401
