"""Prototype: pure-python proto3 -> FileDescriptorProto compiler + in-memory *_pb2 / *_pb2_grpc modules.

No protoc / grpc_tools in the sandbox, and the repo ships only .proto sources.
"""
import importlib
import os
import re
import sys
import types

from google.protobuf import descriptor_pb2
from google.protobuf import descriptor_pool
from google.protobuf.internal import builder as _builder

FDP = descriptor_pb2.FieldDescriptorProto

SCALARS = {
    'double': FDP.TYPE_DOUBLE, 'float': FDP.TYPE_FLOAT, 'int64': FDP.TYPE_INT64,
    'uint64': FDP.TYPE_UINT64, 'int32': FDP.TYPE_INT32, 'fixed64': FDP.TYPE_FIXED64,
    'fixed32': FDP.TYPE_FIXED32, 'bool': FDP.TYPE_BOOL, 'string': FDP.TYPE_STRING,
    'bytes': FDP.TYPE_BYTES, 'uint32': FDP.TYPE_UINT32, 'sfixed32': FDP.TYPE_SFIXED32,
    'sfixed64': FDP.TYPE_SFIXED64, 'sint32': FDP.TYPE_SINT32, 'sint64': FDP.TYPE_SINT64,
}

TOKEN_RE = re.compile(r'''
    (?P<ws>\s+) | (?P<lc>//[^\n]*) | (?P<bc>/\*.*?\*/) |
    (?P<str>"(?:\\.|[^"\\])*"|'(?:\\.|[^'\\])*') |
    (?P<num>-?\d+(?:\.\d+)?(?:[eE][-+]?\d+)?) |
    (?P<id>[A-Za-z_][A-Za-z0-9_]*(?:\.[A-Za-z_][A-Za-z0-9_]*)*) |
    (?P<sym>[{}()\[\]<>=;,:.])
''', re.S | re.X)


def tokenize(text):
  pos, out = 0, []
  while pos < len(text):
    m = TOKEN_RE.match(text, pos)
    if not m:
      raise SyntaxError('bad proto char at %d: %r' % (pos, text[pos:pos + 20]))
    pos = m.end()
    k = m.lastgroup
    if k in ('ws', 'lc', 'bc'):
      continue
    out.append((k, m.group(k)))
  return out


def json_name(name):
  out, up = [], False
  for ch in name:
    if ch == '_':
      up = True
    elif up:
      out.append(ch.upper()); up = False
    else:
      out.append(ch)
  return ''.join(out)


class Parser:

  def __init__(self, text, fname):
    self.t = tokenize(text)
    self.i = 0
    self.fd = descriptor_pb2.FileDescriptorProto(name=fname)
    self.unresolved = []  # (field_or_method, attr, scope, typename)

  def peek(self):
    return self.t[self.i][1] if self.i < len(self.t) else None

  def next(self):
    v = self.t[self.i][1]; self.i += 1; return v

  def expect(self, s):
    v = self.next()
    if v != s:
      raise SyntaxError('expected %r got %r near token %d' % (s, v, self.i))

  def skip_balanced(self, open_, close):
    depth = 1
    while depth:
      v = self.next()
      if v == open_: depth += 1
      elif v == close: depth -= 1

  def skip_option_stmt(self):
    # after 'option'
    while True:
      v = self.next()
      if v == '{':
        self.skip_balanced('{', '}')
      elif v == ';':
        return

  def skip_field_options(self):
    if self.peek() == '[':
      self.next(); self.skip_balanced('[', ']')

  def parse_file(self):
    while self.peek() is not None:
      v = self.next()
      if v == 'syntax':
        self.expect('='); s = self.next().strip('"\''); self.expect(';')
        self.fd.syntax = s
      elif v == 'package':
        self.fd.package = self.next(); self.expect(';')
      elif v == 'import':
        if self.peek() in ('public', 'weak'): self.next()
        self.fd.dependency.append(self.next().strip('"\'')); self.expect(';')
      elif v == 'option':
        self.skip_option_stmt()
      elif v == 'message':
        self.parse_message(self.fd.message_type.add(), '.' + self.fd.package)
      elif v == 'enum':
        self.parse_enum(self.fd.enum_type.add())
      elif v == 'service':
        self.parse_service(self.fd.service.add())
      elif v == ';':
        pass
      else:
        raise SyntaxError('unexpected top-level token %r' % v)
    return self.fd

  def parse_enum(self, ed):
    ed.name = self.next(); self.expect('{')
    while self.peek() != '}':
      v = self.next()
      if v == 'option':
        self.skip_option_stmt(); continue
      if v == 'reserved':
        while self.next() != ';': pass
        continue
      if v == ';': continue
      self.expect('=')
      num = int(self.next())
      self.skip_field_options(); self.expect(';')
      ed.value.add(name=v, number=num)
    self.expect('}')

  def parse_field(self, md, scope, first, oneof_index=None):
    label = FDP.LABEL_OPTIONAL
    proto3_optional = False
    if first == 'repeated':
      label = FDP.LABEL_REPEATED; typ = self.next()
    elif first == 'optional':
      proto3_optional = True; typ = self.next()
    else:
      typ = first
    if typ == 'map':
      raise NotImplementedError('map fields')
    name = self.next(); self.expect('='); num = int(self.next())
    self.skip_field_options(); self.expect(';')
    f = md.field.add(name=name, number=num, label=label, json_name=json_name(name))
    if typ in SCALARS:
      f.type = SCALARS[typ]
    else:
      self.unresolved.append((f, scope, typ))
    if oneof_index is not None:
      f.oneof_index = oneof_index
    if proto3_optional:
      f.proto3_optional = True
    return f

  def parse_message(self, md, parent_scope):
    md.name = self.next(); self.expect('{')
    scope = parent_scope + '.' + md.name
    optional_fields = []
    while self.peek() != '}':
      v = self.next()
      if v == 'option':
        self.skip_option_stmt()
      elif v == 'message':
        self.parse_message(md.nested_type.add(), scope)
      elif v == 'enum':
        self.parse_enum(md.enum_type.add())
      elif v == 'reserved':
        rr = []
        while True:
          x = self.next()
          if x == ';': break
          if x == ',': continue
          if x == 'to':
            hi = self.next(); rr[-1][1] = 536870911 if hi == 'max' else int(hi); continue
          if x.startswith('"') or x.startswith("'"):
            md.reserved_name.append(x.strip('"\'')); continue
          rr.append([int(x), int(x)])
        for lo, hi in rr:
          md.reserved_range.add(start=lo, end=hi + 1)
      elif v == 'oneof':
        od = md.oneof_decl.add(name=self.next()); idx = len(md.oneof_decl) - 1
        self.expect('{')
        while self.peek() != '}':
          w = self.next()
          if w == 'option': self.skip_option_stmt(); continue
          if w == ';': continue
          self.parse_field(md, scope, w, oneof_index=idx)
        self.expect('}')
      elif v == ';':
        pass
      else:
        f = self.parse_field(md, scope, v)
        if f.proto3_optional:
          optional_fields.append(f)
    self.expect('}')
    # synthetic oneofs for proto3 optional come after all real oneofs.
    for f in optional_fields:
      md.oneof_decl.add(name='_' + f.name)
      f.oneof_index = len(md.oneof_decl) - 1

  def parse_service(self, sd):
    sd.name = self.next(); self.expect('{')
    scope = '.' + self.fd.package
    while self.peek() != '}':
      v = self.next()
      if v == 'option': self.skip_option_stmt(); continue
      if v == ';': continue
      assert v == 'rpc', v
      m = sd.method.add(name=self.next())
      self.expect('(')
      if self.peek() == 'stream': self.next(); m.client_streaming = True
      self.unresolved.append(((m, 'input_type'), scope, self.next())); self.expect(')')
      self.expect('returns'); self.expect('(')
      if self.peek() == 'stream': self.next(); m.server_streaming = True
      self.unresolved.append(((m, 'output_type'), scope, self.next())); self.expect(')')
      if self.peek() == '{':
        self.next(); self.skip_balanced('{', '}')
      else:
        self.expect(';')
    self.expect('}')


def _local_symbols(fd):
  syms = {}
  pkg = '.' + fd.package if fd.package else ''
  def walk(md, prefix):
    full = prefix + '.' + md.name
    syms[full] = 'message'
    for e in md.enum_type: syms[full + '.' + e.name] = 'enum'
    for n in md.nested_type: walk(n, full)
  for md in fd.message_type: walk(md, pkg)
  for e in fd.enum_type: syms[pkg + '.' + e.name] = 'enum'
  return syms


def compile_proto(text, fname, pool):
  p = Parser(text, fname)
  fd = p.parse_file()
  syms = _local_symbols(fd)

  def lookup(full):
    if full in syms: return syms[full]
    try:
      pool.FindMessageTypeByName(full[1:]); return 'message'
    except KeyError:
      pass
    try:
      pool.FindEnumTypeByName(full[1:]); return 'enum'
    except KeyError:
      return None

  for target, scope, typ in p.unresolved:
    kind = full = None
    if typ.startswith('.'):
      full = typ; kind = lookup(full)
    else:
      parts = scope.split('.')
      first = typ.split('.')[0]
      while True:
        cand_first = '.'.join(parts + [first])
        if not cand_first.startswith('.'): cand_first = '.' + cand_first
        # C++-style: innermost scope where first component resolves.
        cand = '.'.join(parts + [typ])
        if not cand.startswith('.'): cand = '.' + cand
        k = lookup(cand)
        if k:
          full, kind = cand, k; break
        if not parts or parts == ['']:
          break
        parts = parts[:-1]
    if not kind:
      raise NameError('%s: cannot resolve type %r in scope %r' % (fname, typ, scope))
    if isinstance(target, tuple):
      setattr(target[0], target[1], full)
    else:
      target.type = FDP.TYPE_MESSAGE if kind == 'message' else FDP.TYPE_ENUM
      target.type_name = full
  return fd


_DEP_MODULES = {
    'google/protobuf/any.proto': 'google.protobuf.any_pb2',
    'google/protobuf/empty.proto': 'google.protobuf.empty_pb2',
    'google/protobuf/duration.proto': 'google.protobuf.duration_pb2',
    'google/protobuf/struct.proto': 'google.protobuf.struct_pb2',
    'google/protobuf/timestamp.proto': 'google.protobuf.timestamp_pb2',
    'google/protobuf/wrappers.proto': 'google.protobuf.wrappers_pb2',
    'google/api/field_behavior.proto': 'google.api.field_behavior_pb2',
    'google/api/resource.proto': 'google.api.resource_pb2',
    'google/api/annotations.proto': 'google.api.annotations_pb2',
    'google/api/client.proto': 'google.api.client_pb2',
    'google/longrunning/operations.proto': 'google.longrunning.operations_pb2',
}

ORDER = ['key_value', 'vizier_oss', 'study', 'vizier_service', 'pythia_service']
PKG = 'vizier._src.service'


def _make_grpc_module(modname, pb2mod, fd):
  import grpc
  mod = types.ModuleType(modname)
  pool = descriptor_pool.Default()
  from google.protobuf import message_factory

  def cls_for(full):
    return message_factory.GetMessageClass(pool.FindMessageTypeByName(full[1:]))

  for sd in fd.service:
    full_service = (fd.package + '.' if fd.package else '') + sd.name
    methods = [(m.name, cls_for(m.input_type), cls_for(m.output_type)) for m in sd.method]

    def make_stub(methods=methods, full_service=full_service):
      class Stub(object):
        def __init__(self, channel):
          for name, req, resp in methods:
            setattr(self, name, channel.unary_unary(
                '/%s/%s' % (full_service, name),
                request_serializer=req.SerializeToString,
                response_deserializer=resp.FromString))
      return Stub

    def make_servicer(methods=methods):
      ns = {}
      for name, _, _ in methods:
        def f(self, request, context, _n=name):
          context.set_code(grpc.StatusCode.UNIMPLEMENTED)
          context.set_details('Method not implemented!')
          raise NotImplementedError('Method not implemented!')
        f.__name__ = name
        ns[name] = f
      return type(sd.name + 'Servicer', (object,), ns)

    def make_adder(methods=methods, full_service=full_service):
      def add(servicer, server):
        handlers = {
            name: grpc.unary_unary_rpc_method_handler(
                getattr(servicer, name),
                request_deserializer=req.FromString,
                response_serializer=resp.SerializeToString)
            for name, req, resp in methods}
        server.add_generic_rpc_handlers(
            (grpc.method_handlers_generic_handler(full_service, handlers),))
      return add

    stub = make_stub(); stub.__name__ = sd.name + 'Stub'
    setattr(mod, sd.name + 'Stub', stub)
    setattr(mod, sd.name + 'Servicer', make_servicer())
    setattr(mod, 'add_%sServicer_to_server' % sd.name, make_adder())
  return mod


def install(repo='/repo'):
  if PKG + '.study_pb2' in sys.modules:
    return
  pool = descriptor_pool.Default()
  pkg = importlib.import_module(PKG)
  d = os.path.join(repo, 'vizier', '_src', 'service')
  for base in ORDER:
    with open(os.path.join(d, base + '.proto')) as f:
      text = f.read()
    # import deps first so the default pool knows them.
    for dep in re.findall(r'^import\s+"([^"]+)";', text, re.M):
      if dep in _DEP_MODULES:
        importlib.import_module(_DEP_MODULES[dep])
    fd = compile_proto(text, base + '.proto', pool)
    file_desc = pool.AddSerializedFile(fd.SerializeToString())
    modname = '%s.%s_pb2' % (PKG, base)
    mod = types.ModuleType(modname)
    mod.DESCRIPTOR = file_desc
    _builder.BuildMessageAndEnumDescriptors(file_desc, mod.__dict__)
    _builder.BuildTopDescriptorsAndMessages(file_desc, modname, mod.__dict__)
    sys.modules[modname] = mod
    setattr(pkg, base + '_pb2', mod)
    if fd.service:
      gname = '%s.%s_pb2_grpc' % (PKG, base)
      gmod = _make_grpc_module(gname, mod, fd)
      sys.modules[gname] = gmod
      setattr(pkg, base + '_pb2_grpc', gmod)
