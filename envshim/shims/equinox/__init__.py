"""Minimal stand-in for equinox (the installed 0.11.7 cannot import against jax 0.11).

Implements only what google/vizier uses: Module, field, filter_jit, filter_vmap,
filter_value_and_grad, Partial, tree_pformat.
"""
import abc
import dataclasses
import functools

import jax
import numpy as np

__version__ = '0.0-verif-shim'


def field(*, converter=None, static=False, **kwargs):
  md = dict(kwargs.pop('metadata', None) or {})
  if converter is not None:
    md['converter'] = converter
  if static:
    md['static'] = True
  return dataclasses.field(metadata=md, **kwargs)


def static_field(**kwargs):
  return field(static=True, **kwargs)


class _ModuleMeta(abc.ABCMeta):

  def __new__(mcs, name, bases, ns, **kw):
    cls = super().__new__(mcs, name, bases, ns, **kw)
    has_own_init = '__init__' in ns
    cls = dataclasses.dataclass(eq=False, repr=True, init=not has_own_init)(cls)
    flds = dataclasses.fields(cls)
    dyn = tuple(f.name for f in flds if not f.metadata.get('static'))
    sta = tuple(f.name for f in flds if f.metadata.get('static'))

    def flatten_with_keys(obj):
      return (
          tuple((jax.tree_util.GetAttrKey(n), getattr(obj, n, None)) for n in dyn),
          tuple(getattr(obj, n, None) for n in sta),
      )

    def flatten(obj):
      return tuple(getattr(obj, n, None) for n in dyn), tuple(
          getattr(obj, n, None) for n in sta
      )

    def unflatten(aux, children):
      obj = object.__new__(cls)
      for n, v in zip(dyn, children):
        object.__setattr__(obj, n, v)
      for n, v in zip(sta, aux):
        object.__setattr__(obj, n, v)
      return obj

    jax.tree_util.register_pytree_with_keys(
        cls, flatten_with_keys, unflatten, flatten
    )
    return cls

  def __call__(cls, *args, **kwargs):
    obj = cls.__new__(cls)
    object.__setattr__(obj, '_eqx_init', True)
    try:
      cls.__init__(obj, *args, **kwargs)
      for f in dataclasses.fields(cls):
        conv = f.metadata.get('converter')
        if conv is not None and hasattr(obj, f.name):
          object.__setattr__(obj, f.name, conv(getattr(obj, f.name)))
    finally:
      object.__delattr__(obj, '_eqx_init')
    for klass in cls.__mro__:
      chk = klass.__dict__.get('__check_init__')
      if chk is not None:
        chk(obj)
    return obj


class Module(metaclass=_ModuleMeta):

  def __setattr__(self, name, value):
    if self.__dict__.get('_eqx_init'):
      object.__setattr__(self, name, value)
    else:
      raise dataclasses.FrozenInstanceError(f"cannot assign to field '{name}'")

  def __hash__(self):
    return hash(tuple(jax.tree_util.tree_leaves(self)))

  def __eq__(self, other):
    return self is other


def _is_array(x):
  return isinstance(x, (jax.Array, np.ndarray, np.generic))


_JIT_CACHE = {}


class _Static:
  """Hashable wrapper for non-array leaves (compared by equality, else identity)."""
  __slots__ = ('v', 'h')

  def __init__(self, v):
    self.v = v
    try:
      self.h = hash(v)
    except TypeError:
      self.h = id(v)

  def __hash__(self):
    return self.h

  def __eq__(self, o):
    if not isinstance(o, _Static):
      return False
    try:
      return bool(self.v == o.v) and type(self.v) is type(o.v)
    except Exception:
      return self.v is o.v


def filter_jit(fun=None, **unused):
  if fun is None:
    return functools.partial(filter_jit, **unused)

  # Bound methods of Modules: treat `self` as a (traced) argument, like equinox.
  target, bound_self = fun, None
  if hasattr(fun, '__self__') and isinstance(getattr(fun, '__self__'), Module):
    target, bound_self = fun.__func__, fun.__self__

  def wrapper(*args, **kwargs):
    call_args = ((bound_self,) + args) if bound_self is not None else args
    leaves, treedef = jax.tree_util.tree_flatten((call_args, kwargs))
    is_arr = tuple(_is_array(l) for l in leaves)
    dyn = [l for l, a in zip(leaves, is_arr) if a]
    sta = tuple(_Static(l) for l, a in zip(leaves, is_arr) if not a)
    key = (_Static(target), treedef, is_arr, sta)
    jitted = _JIT_CACHE.get(key)
    if jitted is None:
      def inner(dyn_leaves):
        it_d, it_s = iter(dyn_leaves), iter(sta)
        full = [next(it_d) if a else next(it_s).v for a in is_arr]
        a, k = jax.tree_util.tree_unflatten(treedef, full)
        return target(*a, **k)
      jitted = jax.jit(inner)
      _JIT_CACHE[key] = jitted
    return jitted(dyn)

  functools.update_wrapper(wrapper, target)
  return wrapper


def filter_vmap(fun=None, *, in_axes=0, out_axes=0, **unused):
  if fun is None:
    return functools.partial(filter_vmap, in_axes=in_axes, out_axes=out_axes)
  return jax.vmap(fun, in_axes=in_axes, out_axes=out_axes)


def filter_value_and_grad(fun=None, *, has_aux=False):
  if fun is None:
    return functools.partial(filter_value_and_grad, has_aux=has_aux)
  return jax.value_and_grad(fun, has_aux=has_aux)


def filter_grad(fun=None, *, has_aux=False):
  if fun is None:
    return functools.partial(filter_grad, has_aux=has_aux)
  return jax.grad(fun, has_aux=has_aux)


class Partial(Module):
  func: object = field(static=True)
  args: tuple = ()
  keywords: dict = dataclasses.field(default_factory=dict)

  def __init__(self, func, /, *args, **kwargs):
    self.func = func
    self.args = args
    self.keywords = kwargs

  def __call__(self, *args, **kwargs):
    return self.func(*self.args, *args, **kwargs, **self.keywords)


def tree_pformat(tree, **unused):
  return repr(tree)
