"""Binding of Spec A's vocabulary to the real servicer.

World.execute(call) turns an abstract call record (as printed by TLC) into a
real RPC and abstracts what came back; World.project() reads the whole
abstract state back through the public read RPCs (and the DataStore interface
for operations, which no RPC lists).  Nothing here decides anything: expected
values always come from TLC.
"""
import datetime
import itertools
import os
import threading

import verif_boot  # noqa: F401  (first: shims + in-memory protos)
import grpc
from vizier import pythia
from vizier import pyvizier as vz
from vizier._src.service import constants
from vizier._src.service import custom_errors
from vizier._src.service import key_value_pb2
from vizier._src.service import pythia_service
from vizier._src.service import resources
from vizier._src.service import study_pb2
from vizier._src.service import vizier_service
from vizier._src.service import vizier_service_pb2 as vs
from vizier.service import pyvizier as svz
from google.longrunning import operations_pb2

PARAMS = {'p1': 0.25, 'p2': 0.75, 'p3': 0.5}
RP = {v: k for k, v in PARAMS.items()}
NAN = float('nan')
MEAS = {'m1': {'a': 1.0, 'b': 2.0}, 'm2': {'a': 2.0, 'b': 1.0}, 'm3': {'a': 1.0, 'b': 1.0}, 'mp': {'a': 2.0},
        'mn': {'a': NAN, 'b': 1.0}, 'mi': {'a': float('inf'), 'b': 2.0}, 'mj': {'a': float('inf'), 'b': 1.0}}
# metadata cells: (namespace, key).  c2 lives in an algorithm-style namespace, c3 has a colon inside a component.
CELLS = {'c1': ('', 'k1'), 'c2': (':algo', 'k1'), 'c3': (':a\\:b', 'k1'), 'c4': ('', 'k2')}
STATE = {0: 'UNSPEC', 1: 'ACTIVE', 2: 'INACTIVE', 3: 'COMPLETED'}
_counter = itertools.count()


_tls = threading.local()


def set_env(env):
  """The environment choices of the call being issued: per thread (concurrent calls), with a process-wide fallback
  for deployments where the policy runs in a server thread."""
  _tls.env = env
  ScriptedPolicy.env = env


def current_env():
  return getattr(_tls, 'env', None) or ScriptedPolicy.env


class ScriptedPolicy(pythia.Policy):
  """The algorithm as environment: delivers exactly what the call's env says."""
  env = None

  def __init__(self, supporter=None):
    self._s = supporter

  def suggest(self, request):
    e = current_env()
    if e['raise']:
      raise ValueError('scripted failure')
    delta = vz.MetadataDelta()
    for cell, v in (e.get('md') or {}).items():
      if v != 'None':
        ns, key = CELLS[cell]
        if v == 'inc':
          # a stateful algorithm: the next state is computed from the state the service handed to it with the request
          try:
            cur = request.study_config.metadata.abs_ns(vz.Namespace.decode(ns)).get(key, None)
          except Exception:          # pylint: disable=broad-except  (a protobuf-valued entry: not 'v1')
            cur = None
          v = 'v2' if cur == 'v1' else 'v1'
        delta.on_study.abs_ns(vz.Namespace.decode(ns))[key] = _proto_of(v) if v in ('pa', 'pz') else v
    return pythia.SuggestDecision([vz.TrialSuggestion({'x': PARAMS[p]}) for p in e['ps']], delta)

  def early_stop(self, request):
    e = current_env()
    if e['raise']:
      raise ValueError('scripted failure')
    ids = (list(request.trial_ids) if e.get('self', True) else []) + sorted(e.get('also', []))
    return pythia.EarlyStopDecisions([pythia.EarlyStopDecision(id=i, reason='scripted', should_stop=e['stop']) for i in ids])


class ScriptedFactory:

  def __call__(self, problem, algo, supporter, name):
    # an algorithm can also fail before the policy exists (e.g. an algorithm name the factory cannot build):
    # that failure is raised outside PythiaServicer's own try/except
    e = current_env()
    if e and e.get('raise') and e.get('at') == 'factory':
      raise ValueError('scripted policy-factory failure')
    return ScriptedPolicy(supporter)


def study_proto(s, cfg):
  sc = svz.StudyConfig()
  sc.search_space.root.add_float_param('x', 0.0, 1.0)
  G = vz.ObjectiveMetricGoal
  if cfg == 'max1':
    sc.metric_information.append(vz.MetricInformation('a', goal=G.MAXIMIZE))
  elif cfg == 'min1':
    sc.metric_information.append(vz.MetricInformation('a', goal=G.MINIMIZE))
  else:
    sc.metric_information.append(vz.MetricInformation('a', goal=G.MAXIMIZE))
    sc.metric_information.append(vz.MetricInformation('b', goal=G.MINIMIZE))
  sc.algorithm = 'RANDOM_SEARCH'
  return study_pb2.Study(display_name=s, study_spec=sc.to_proto())


def meas_proto(m):
  p = study_pb2.Measurement()
  for k, v in MEAS[m].items():
    p.metrics.add(metric_id=k, value=v)
  return p


def meas_token(p):
  d = {m.metric_id: m.value for m in p.metrics}
  for k, v in MEAS.items():
    if set(v) == set(d) and all((v[x] == d[x]) or (v[x] != v[x] and d[x] != d[x]) for x in v):
      return k
  return 'UNKNOWN:%r' % d


def err_class(e):
  """Abstraction of a failure to the error classes of DESIGN 3.1."""
  if isinstance(e, grpc.RpcError):
    try:
      code = e.code()
    except Exception:  # pylint: disable=broad-except
      return 'Unknown:' + type(e).__name__
    return {grpc.StatusCode.NOT_FOUND: 'NotFound', grpc.StatusCode.FAILED_PRECONDITION: 'FailedPrecondition',
            grpc.StatusCode.ALREADY_EXISTS: 'AlreadyExists', grpc.StatusCode.UNKNOWN: 'Unknown'}.get(code, str(code))
  if isinstance(e, custom_errors.NotFoundError):
    return 'NotFound'
  if isinstance(e, custom_errors.AlreadyExistsError):
    return 'AlreadyExists'
  if isinstance(e, (custom_errors.ImmutableStudyError, custom_errors.ImmutableTrialError)):
    return 'FailedPrecondition'
  if isinstance(e, ValueError):
    return 'Unknown'
  return 'Unknown:' + type(e).__name__


# protobuf-valued metadata: the tokens "pa" / "pz" stand for a Duration of 3 s and for a DEFAULT Duration (an Any whose
# value bytes are empty: what MergeFrom-style merging silently skips)
def _proto_of(tok):
  from google.protobuf import duration_pb2
  return duration_pb2.Duration(seconds=3) if tok == 'pa' else duration_pb2.Duration()


def _kv(ns, key, v):
  if v in ('pa', 'pz'):
    kv = key_value_pb2.KeyValue(ns=ns, key=key)
    kv.proto.Pack(_proto_of(v))
    return kv
  return key_value_pb2.KeyValue(ns=ns, key=key, value=v)


def _token_of_proto(any_msg):
  from google.protobuf import duration_pb2
  d = duration_pb2.Duration()
  try:
    if any_msg.Unpack(d):
      return 'pa' if d.seconds == 3 and d.nanos == 0 else ('pz' if d.seconds == 0 and d.nanos == 0 else 'proto:other-duration')
  except Exception:  # pylint: disable=broad-except
    pass
  return 'proto:' + any_msg.type_url


def proj_meta(kvs, cells):
  out = {c: 'None' for c in cells}
  extra = []
  for kv in kvs:
    hit = False
    for c in cells:
      if (kv.ns, kv.key) == CELLS[c]:
        out[c] = kv.value if not kv.HasField('proto') else _token_of_proto(kv.proto)
        hit = True
    if not hit:
      extra.append((kv.ns, kv.key))
  if extra:
    out['_extra'] = sorted(extra)   # an entry the model does not know: a mismatch, not invisible
  return out


def proj_trial(t, cells):
  fm = 'None'
  if t.HasField('final_measurement') and t.final_measurement.metrics:
    fm = meas_token(t.final_measurement)
  if len(t.parameters) == 1 and t.parameters[0].parameter_id == 'x':
    params = RP.get(t.parameters[0].value.number_value, '?%r' % t.parameters[0].value.number_value)
  else:
    params = '?%d-params' % len(t.parameters)
  return dict(state=study_pb2.Trial.State.Name(t.state), client=t.client_id or 'None',
              params=params, meas=[meas_token(m) for m in t.measurements], final=fm,
              reason=t.infeasible_reason, meta=proj_meta(t.metadata, cells))


def proj_study(st, cfg, cells):
  return dict(state=STATE[st.state], cfg=cfg, meta=proj_meta(st.study_spec.metadata, cells))


def cfg_of(st):
  goals = [(m.metric_id, m.goal) for m in st.study_spec.metrics]
  MAXI = study_pb2.StudySpec.MetricSpec.GoalType.MAXIMIZE
  MINI = study_pb2.StudySpec.MetricSpec.GoalType.MINIMIZE
  if goals == [('a', MAXI)]:
    return 'max1'
  if goals == [('a', MINI)]:
    return 'min1'
  if goals == [('a', MAXI), ('b', MINI)]:
    return 'maxmin2'
  return '?%r' % goals


RAW_ORDER = []     # the order in which the last projected operation listed its trials (what the model leaves open)


def proj_op(op):
  ids = []
  if op.HasField('response'):
    raw = [int(t.id) for t in vs.SuggestTrialsResponse.FromString(op.response.value).trials]
    RAW_ORDER[:] = raw
    ids = sorted(raw)
  return dict(done=op.done, err=op.HasField('error'), trials=ids)


ES_STATUS = {0: 'UNKNOWN', 1: 'ACTIVE', 2: 'DONE', 3: 'FAILED'}


def make_servicer(url, recycle='never', policy_factory=None):
  period = datetime.timedelta(days=1) if recycle == 'never' else datetime.timedelta(seconds=0)
  svc = vizier_service.VizierServicer(database_url=url, early_stop_recycle_period=period)
  svc.default_pythia_service = pythia_service.PythiaServicer(svc, policy_factory=policy_factory or ScriptedFactory())
  return svc


BACKENDS = ('ram', 'sqlmem', 'sqlfile')
DEPLOYMENTS = ('local', 'grpc', 'split')
_servers = []


def make_deployment(deployment, url, recycle='never', policy_factory=None):
  """Returns (servicer, api): api is what RPCs are sent to (the servicer itself, or a gRPC stub).

  local: in-process servicer with an in-process PythiaServicer;
  grpc:  DefaultVizierServer (gRPC, Pythia in-process with the server);
  split: DistributedPythiaVizierServer (Pythia behind its own gRPC server).
  """
  if deployment == 'local':
    svc = make_servicer(url, recycle, policy_factory)
    return svc, svc
  from vizier._src.service import vizier_server
  period = datetime.timedelta(days=1) if recycle == 'never' else datetime.timedelta(seconds=0)
  cls = vizier_server.DefaultVizierServer if deployment == 'grpc' else vizier_server.DistributedPythiaVizierServer
  server = cls(database_url=url, policy_factory=policy_factory or ScriptedFactory(), early_stop_recycle_period=period)
  _servers.append(server)   # keep alive
  return server._servicer, server.stub  # pylint: disable=protected-access


def backend_url(backend, scratch=None):
  if backend == 'ram':
    return None
  if backend == 'sqlmem':
    return constants.SQL_MEMORY_URL
  if backend == 'sqlfile':
    path = os.path.join(scratch, 'db.%d.%d.sqlite' % (os.getpid(), next(_counter)))
    return 'sqlite:///' + path
  raise KeyError(backend)


class World:
  """One abstract world = one owner on one servicer."""

  def __init__(self, conf, svc=None, backend='ram', owner=None, scratch=None, stub=None):
    self.conf = conf
    self.backend = backend
    self.svc = svc or make_servicer(backend_url(backend, scratch), conf.get('Recycle', 'never'))
    self.api = stub or self.svc     # what RPCs are sent to (servicer or gRPC stub)
    self.owner_id = owner or 'Ow%d' % next(_counter)      # mixed case on purpose: names are not case-folded anywhere
    self.owner = 'owners/' + self.owner_id

  # conf['SharedStudyId']: every abstract study lives under its OWN owner and all of them share one study id
  # ("owners/<o>_s1/studies/shared", "owners/<o>_s2/studies/shared"): resources that differ only in the owner must
  # stay isolated.  (ListStudies is not used in this mode: the model knows one owner.)
  def shared(self):
    return bool(self.conf.get('SharedStudyId'))

  def owner_of(self, s):
    return '%s_%s' % (self.owner, s) if self.shared() else self.owner

  # Real study ids behind the tokens: chosen so that sloppy name matching shows (SQL LIKE treats '_' as a wildcard and is
  # case-insensitive: 'st_1' LIKE-matches 'ST-1'; 'st_1' is a prefix of 'st_10').
  REAL_ID = {'s1': 'st_1', 's2': 'ST-1', 's3': 'st_10'}
  TOKEN_OF = {v: k for k, v in REAL_ID.items()}

  def sid(self, s):
    return 'shared' if self.shared() else self.REAL_ID.get(s, s)

  def sname(self, s):
    return '%s/studies/%s' % (self.owner_of(s), self.sid(s))

  def tname(self, s, t):
    return '%s/studies/%s/trials/%s' % (self.owner_of(s), self.sid(s), t)

  # ------------------------------------------------------------ projection
  def project(self):
    api, conf = self.api, self.conf
    cells = conf['Cells']
    out = {'owner': self.owner_known(), 'study': {}, 'trial': {}, 'ops': {}, 'es': {}}
    for s in conf['Studies']:
      try:
        st = api.GetStudy(vs.GetStudyRequest(name=self.sname(s)))
        out['study'][s] = proj_study(st, cfg_of(st), cells)
        listed = api.ListTrials(vs.ListTrialsRequest(parent=self.sname(s))).trials
        trials = {}
        for t in listed:
          if int(t.id) in trials:
            trials[int(t.id)] = {'DUPLICATE-ID': int(t.id)}
          else:
            trials[int(t.id)] = proj_trial(t, cells)
        present = True
      except Exception as e:  # pylint: disable=broad-except
        if err_class(e) != 'NotFound':
          raise
        out['study'][s] = {'absent': True}
        trials = {}
        present = False
      row = [trials.pop(i, {'absent': True}) for i in range(1, conf['MaxId'] + 1)]
      if trials:
        row.append({'BEYOND-MAXID': sorted(trials)})
      out['trial'][s] = row
      out['ops'][s] = {}
      ds = self.svc.datastore
      for w in conf['Clients']:
        try:
          raw = ds.list_suggestion_operations(self.sname(s), w)
        except KeyError:
          raw = []
        out['ops'][s][w] = [proj_op(op) for op in sorted(raw, key=lambda o: int(o.name.split('/')[-1]))]
      es = []
      for i in range(1, conf['MaxId'] + 1):
        try:
          op = ds.get_early_stopping_operation(resources.EarlyStoppingOperationResource(
              self.owner_of(s).split('/')[-1], self.sid(s), i).name)
          es.append({'status': ES_STATUS.get(op.status, str(op.status)), 'stop': op.should_stop})
        except KeyError:
          es.append({'absent': True})
      out['es'][s] = es
    return out

  def owner_known(self):
    if self.shared():
      return any(self._owner_known(self.owner_of(s)) for s in self.conf['Studies'])
    return self._owner_known(self.owner)

  def _owner_known(self, owner):
    try:
      self.api.ListStudies(vs.ListStudiesRequest(parent=owner))
      return True
    except Exception as e:  # pylint: disable=broad-except
      if err_class(e) != 'NotFound':
        raise
      return False

  # -------------------------------------------------------------- execute
  def execute(self, c):
    """Runs one abstract call on the real service; returns the abstract response value (raises on error)."""
    api = self.api
    rpc = c['rpc']
    s = c.get('s')
    cells = self.conf['Cells']
    if rpc == 'CreateStudy':
      r = api.CreateStudy(vs.CreateStudyRequest(parent=self.owner_of(s), study=study_proto(self.sid(s), c['cfg'])))
      ok_name = r.name == self.sname(s)
      return {'name': s if ok_name else r.name, 'study': proj_study(r, cfg_of(r), cells)}
    if rpc == 'GetStudy':
      r = api.GetStudy(vs.GetStudyRequest(name=self.sname(s)))
      return proj_study(r, cfg_of(r), cells)
    if rpc == 'ListStudies':
      return sorted(self.TOKEN_OF.get(x.name.split('/')[-1], x.name.split('/')[-1]) for x in api.ListStudies(vs.ListStudiesRequest(parent=self.owner)).studies)
    if rpc == 'DeleteStudy':
      api.DeleteStudy(vs.DeleteStudyRequest(name=self.sname(s)))
      return 'Empty'
    if rpc == 'SetStudyState':
      r = api.SetStudyState(vs.SetStudyStateRequest(parent=self.sname(s), state={'ACTIVE': 1, 'INACTIVE': 2, 'COMPLETED': 3}[c['x']]))
      return proj_study(r, cfg_of(r), cells)
    if rpc == 'CreateTrial':
      # the caller tries to smuggle in an owner and a state: both must be ignored for non-completed trials
      t = study_pb2.Trial(client_id='intruder', state=study_pb2.Trial.State.ACTIVE)
      t.parameters.add(parameter_id='x').value.number_value = PARAMS[c['p']]
      if c['c'] != 'None':
        t.state = study_pb2.Trial.State.SUCCEEDED
        t.final_measurement.CopyFrom(meas_proto(c['c']))
      r = api.CreateTrial(vs.CreateTrialRequest(parent=self.sname(s), trial=t))
      return {'id': int(r.id), 'trial': proj_trial(r, cells)}
    if rpc == 'GetTrial':
      return proj_trial(api.GetTrial(vs.GetTrialRequest(name=self.tname(s, c['t']))), cells)
    if rpc == 'ListTrials':
      trials = {int(t.id): proj_trial(t, cells) for t in api.ListTrials(vs.ListTrialsRequest(parent=self.sname(s))).trials}
      return [trials.get(i, {'absent': True}) for i in range(1, self.conf['MaxId'] + 1)]
    if rpc == 'AddMeasurement':
      return proj_trial(api.AddTrialMeasurement(vs.AddTrialMeasurementRequest(
          trial_name=self.tname(s, c['t']), measurement=meas_proto(c['m']))), cells)
    if rpc == 'CompleteTrial':
      r = vs.CompleteTrialRequest(name=self.tname(s, c['t']), trial_infeasible=c['inf'], infeasible_reason=c['reason'])
      if c['f'] != 'None':
        r.final_measurement.CopyFrom(meas_proto(c['f']))
      return proj_trial(api.CompleteTrial(r), cells)
    if rpc == 'StopTrial':
      return proj_trial(api.StopTrial(vs.StopTrialRequest(name=self.tname(s, c['t']))), cells)
    if rpc == 'DeleteTrial':
      api.DeleteTrial(vs.DeleteTrialRequest(name=self.tname(s, c['t'])))
      return 'Empty'
    if rpc in ('SuggestTrials', 'CheckEarlyStopping') and c['env'].get('raise') and 'at' not in c['env']:
      # where the algorithm fails is not part of the model (the outcome must be the same): alternate deterministically
      self._raises = getattr(self, '_raises', 0) + 1
      c = dict(c, env=dict(c['env'], at='factory' if self._raises % 2 == 0 else 'policy'))
    if rpc == 'SuggestTrials':
      set_env(c['env'])
      op = api.SuggestTrials(vs.SuggestTrialsRequest(parent=self.sname(s), suggestion_count=c['n'], client_id=c['w']))
      return {'num': int(op.name.split('/')[-1]), 'op': proj_op(op)}
    if rpc == 'GetOperation':
      name = resources.SuggestionOperationResource(self.owner_of(s).split('/')[-1], self.sid(s), c['w'], c['i']).name
      return proj_op(api.GetOperation(operations_pb2.GetOperationRequest(name=name)))
    if rpc == 'CheckEarlyStopping':
      set_env(c['env'])
      r = api.CheckTrialEarlyStoppingState(vs.CheckTrialEarlyStoppingStateRequest(trial_name=self.tname(s, c['t'])))
      return {'stop': r.should_stop}
    if rpc == 'UpdateMetadata':
      d = c['d']
      req = vs.UpdateMetadataRequest(name=self.sname(s))
      for cell, v in d['study'].items():
        if v != 'None':
          req.delta.add(metadatum=_kv(CELLS[cell][0], CELLS[cell][1], v))
      for tid in (d['t'], d.get('t2', 0)):
        if tid != 0:
          for cell, v in d['trial'].items():
            if v != 'None':
              req.delta.add(trial_id=str(tid) if tid > 0 else '0', metadatum=_kv(CELLS[cell][0], CELLS[cell][1], v))
      r = api.UpdateMetadata(req)
      return 'ErrorDetails' if r.error_details else 'Empty'
    if rpc == 'ListOptimalTrials':
      return sorted(int(t.id) for t in api.ListOptimalTrials(vs.ListOptimalTrialsRequest(parent=self.sname(s))).optimal_trials)
    raise KeyError(rpc)

  def raw_listings(self):
    """Listings exactly as served (order included): what the model abstracts into sets / id-indexed rows."""
    out = {}
    try:
      studies = [x.name for x in self.api.ListStudies(vs.ListStudiesRequest(parent=self.owner)).studies]
    except BaseException as e:  # pylint: disable=broad-except
      return {'studies': err_class(e)}
    out['studies'] = [n.split('/')[-1] for n in studies]
    for n in sorted(studies):
      try:
        out[n.split('/')[-1]] = [int(t.id) for t in self.api.ListTrials(vs.ListTrialsRequest(parent=n)).trials]
      except BaseException as e:  # pylint: disable=broad-except
        out[n.split('/')[-1]] = err_class(e)
    return out

  def run(self, c):
    """execute + error abstraction: returns {'err':..., 'val':...} like the model's resp."""
    try:
      return {'err': 'None', 'val': self.execute(c)}
    except BaseException as e:  # pylint: disable=broad-except
      if isinstance(e, (KeyboardInterrupt, SystemExit)) or getattr(e, 'verif_passthrough', False):
        raise
      return {'err': err_class(e), 'val': 'None', 'exc': '%s: %s' % (type(e).__name__, str(e)[:200])}
