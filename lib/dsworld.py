"""Binding of spec/DataStore.tla to the real datastores (RAM, SQLite memory, SQLite file).

One World = one fresh datastore object.  Tokens -> protos:
  study / trial record  [body, meta]  <->  display_name / infeasible_reason = body, metadata key c (ns '') = value
  operation body  b                   <->  Operation(done = (b == 'x2')) with metadata Any carrying b;
                                            EarlyStoppingOperation.failure_message = b
project() reads the whole abstract state back through the public API only; for SQL it also counts rows whose
study row is missing (orphans), which the model says never exist.

Pass-by-value (datastore.py: "Input/Outputs should always be pass-by-value"): every proto passed in or returned is
scribbled on after the call; a store that kept a reference shows the scribble in the next projection.
"""
import itertools
import os

import verif_boot  # noqa: F401
import sqlalchemy as sqla
from google.longrunning import operations_pb2
from vizier._src.service import constants
from vizier._src.service import custom_errors
from vizier._src.service import key_value_pb2
from vizier._src.service import ram_datastore
from vizier._src.service import resources
from vizier._src.service import sql_datastore
from vizier._src.service import study_pb2
from vizier._src.service import vizier_oss_pb2
from vizier._src.service import vizier_service_pb2

_counter = itertools.count()
SCRIBBLE = 'SCRIBBLED'


def owner_of(s):
  return 'ob' if s == 'b1' else 'oa'


def make_datastore(backend, scratch=None):
  if backend == 'ram':
    return ram_datastore.NestedDictRAMDataStore()
  if backend == 'sqlmem':
    return sql_datastore.SQLDataStore(sqla.create_engine(constants.SQL_MEMORY_URL))
  if backend == 'sqlfile':
    path = os.path.join(scratch, 'ds.%d.%d.sqlite' % (os.getpid(), next(_counter)))
    return sql_datastore.SQLDataStore(sqla.create_engine('sqlite:///' + path))
  raise KeyError(backend)


def err_class(e):
  if isinstance(e, custom_errors.NotFoundError):
    return 'NotFound'
  if isinstance(e, custom_errors.AlreadyExistsError):
    return 'AlreadyExists'
  return 'Unknown:' + type(e).__name__


class World:

  def __init__(self, conf, backend='ram', scratch=None, svc=None):
    self.conf = conf
    self.backend = backend
    self.ds = make_datastore(backend, scratch)
    self.ds2 = None
    if backend == 'sqlfile':
      # a second connection to the same file: it sees committed data only
      self.ds2 = sql_datastore.SQLDataStore(sqla.create_engine(str(self.ds._engine.url)))
    self.studies = conf['Studies']
    self.ids = list(range(1, conf['MaxId'] + 1))
    self.clients = conf['Clients']
    self.cells = conf['Cells']
    self.max_ops = conf['MaxOps']

  # ---- names
  def sres(self, s):
    return resources.StudyResource(owner_of(s), s)

  def sname(self, s):
    return self.sres(s).name

  def tname(self, s, t):
    return self.sres(s).trial_resource(str(t)).name

  def opname(self, s, w, i):
    return resources.SuggestionOperationResource(owner_of(s), s, w, i).name

  def esname(self, s, t):
    return resources.EarlyStoppingOperationResource(owner_of(s), s, t).name

  # ---- tokens -> protos
  def _kvs(self, meta):
    return [key_value_pb2.KeyValue(key=c, ns='', value=v) for c, v in sorted(meta.items()) if v != 'None']

  def study_proto(self, s, body, meta):
    p = study_pb2.Study(name=self.sname(s), display_name=body)
    p.study_spec.algorithm = 'RANDOM_SEARCH'
    p.study_spec.metadata.extend(self._kvs(meta))
    return p

  def trial_proto(self, s, t, body, meta):
    p = study_pb2.Trial(name=self.tname(s, t), id=str(t), infeasible_reason=body)
    p.metadata.extend(self._kvs(meta))
    return p

  def sop_proto(self, s, w, i, body):
    op = operations_pb2.Operation(name=self.opname(s, w, i), done=(body == 'x2'))
    op.response.value = body.encode()
    return op

  def es_proto(self, s, t, body):
    return vizier_oss_pb2.EarlyStoppingOperation(name=self.esname(s, t), failure_message=body)

  # ---- protos -> tokens
  def _meta(self, kvs):
    out = {c: 'None' for c in self.cells}
    extra = []
    for kv in kvs:
      if kv.ns == '' and kv.key in out and kv.HasField('value'):
        out[kv.key] = kv.value if out[kv.key] == 'None' else 'DUPLICATE'
      else:
        extra.append(kv.key)
    if extra:
      out['_extra'] = sorted(extra)
    return out

  def study_token(self, p):
    return {'body': p.display_name, 'meta': self._meta(p.study_spec.metadata)}

  def trial_token(self, p):
    return {'body': p.infeasible_reason, 'meta': self._meta(p.metadata)}

  def sop_token(self, op):
    b = op.response.value.decode()
    return b if op.done == (b == 'x2') else 'TORN:%s/%s' % (b, op.done)

  # ---- calls
  def execute(self, c):
    ds, r = self.ds, c['rpc']
    scrib = []
    try:
      if r == 'create_study':
        p = self.study_proto(c['s'], c['b'], {})
        ds.create_study(p)
        scrib.append((p, 'display_name'))
        val = 'ok'
      elif r == 'load_study':
        p = ds.load_study(self.sname(c['s']))
        val = self.study_token(p)
        scrib.append((p, 'display_name'))
      elif r == 'update_study':
        p = self.study_proto(c['s'], c['b'], c['m'])
        ds.update_study(p)
        scrib.append((p, 'display_name'))
        val = 'ok'
      elif r == 'delete_study':
        ds.delete_study(self.sname(c['s']))
        val = 'ok'
      elif r == 'list_studies':
        ps = ds.list_studies(resources.OwnerResource(c['o']).name)
        got = {}
        for p in ps:
          sid = resources.StudyResource.from_name(p.name).study_id
          got[sid] = 'DUPLICATE' if sid in got else self.study_token(p)
          scrib.append((p, 'display_name'))
        val = {s: got.pop(s, {'absent': True}) for s in self.studies}
        if got:
          val['_unexpected'] = sorted(got)
      elif r == 'create_trial':
        p = self.trial_proto(c['s'], c['t'], c['b'], {})
        ds.create_trial(p)
        scrib.append((p, 'infeasible_reason'))
        val = 'ok'
      elif r == 'get_trial':
        p = ds.get_trial(self.tname(c['s'], c['t']))
        val = self.trial_token(p)
        scrib.append((p, 'infeasible_reason'))
      elif r == 'update_trial':
        p = self.trial_proto(c['s'], c['t'], c['b'], c['m'])
        ds.update_trial(p)
        scrib.append((p, 'infeasible_reason'))
        val = 'ok'
      elif r == 'list_trials':
        ps = ds.list_trials(self.sname(c['s']))
        val = self._trial_list(ps)
        scrib += [(p, 'infeasible_reason') for p in ps]
      elif r == 'delete_trial':
        ds.delete_trial(self.tname(c['s'], c['t']))
        val = 'ok'
      elif r == 'max_trial_id':
        val = ds.max_trial_id(self.sname(c['s']))
      elif r == 'create_sop':
        p = self.sop_proto(c['s'], c['w'], c['i'], c['b'])
        ds.create_suggestion_operation(p)
        scrib.append((p, 'name'))
        val = 'ok'
      elif r == 'get_sop':
        p = ds.get_suggestion_operation(self.opname(c['s'], c['w'], c['i']))
        val = self.sop_token(p)
        scrib.append((p, 'name'))
      elif r == 'update_sop':
        p = self.sop_proto(c['s'], c['w'], c['i'], c['b'])
        ds.update_suggestion_operation(p)
        scrib.append((p, 'name'))
        val = 'ok'
      elif r == 'list_sop':
        fn = None if c['f'] == 'all' else (lambda op, f=c['f']: op.response.value.decode() == f)
        ps = ds.list_suggestion_operations(self.sname(c['s']), c['w'], fn)
        val = self._sop_list(ps)
        scrib += [(p, 'name') for p in ps]
      elif r == 'max_sop':
        val = ds.max_suggestion_operation_number(self.sname(c['s']), c['w'])
      elif r == 'create_es':
        p = self.es_proto(c['s'], c['t'], c['b'])
        ds.create_early_stopping_operation(p)
        scrib.append((p, 'failure_message'))
        val = 'ok'
      elif r == 'get_es':
        p = ds.get_early_stopping_operation(self.esname(c['s'], c['t']))
        val = {'body': p.failure_message}
        scrib.append((p, 'failure_message'))
      elif r == 'update_es':
        p = self.es_proto(c['s'], c['t'], c['b'])
        ds.update_early_stopping_operation(p)
        scrib.append((p, 'failure_message'))
        val = 'ok'
      elif r == 'update_metadata':
        skv = self._kvs(c['sm'])
        tkv = []
        for t, m in zip(self.ids, c['tm']):
          tkv += [vizier_service_pb2.UnitMetadataUpdate(trial_id=str(t), metadatum=kv) for kv in self._kvs(m)]
        if c.get('bad'):
          tkv.append(vizier_service_pb2.UnitMetadataUpdate(trial_id='0', metadatum=key_value_pb2.KeyValue(key=self.cells[0], ns='', value='v9')))
        try:
          ds.update_metadata(self.sname(c['s']), skv, tkv)
        except ValueError:
          if not c.get('bad'):
            raise
          return {'err': 'Invalid', 'val': 'None'}
        scrib += [(kv, 'value') for kv in skv] + [(u.metadatum, 'value') for u in tkv]
        val = 'ok'
      else:
        raise KeyError(r)
      resp = {'err': 'None', 'val': val}
    except (custom_errors.NotFoundError, custom_errors.AlreadyExistsError) as e:
      resp = {'err': err_class(e), 'val': 'None'}
    for p, field in scrib:
      setattr(p, field, SCRIBBLE)
    return resp

  def run(self, c):
    try:
      return self.execute(c)
    except Exception as e:  # pylint: disable=broad-except
      if getattr(e, 'verif_passthrough', False):
        raise
      return {'err': 'Unknown:' + type(e).__name__, 'val': 'None', 'exc': repr(e)[:300]}

  def _trial_list(self, ps):
    got = {}
    for p in ps:
      tid = resources.TrialResource.from_name(p.name).trial_id
      got[tid] = 'DUPLICATE' if tid in got else self.trial_token(p)
    val = [got.pop(t, {'absent': True}) for t in self.ids]
    if got:
      val.append({'unexpected': sorted(got)})
    return val

  def _sop_list(self, ps):
    by = {}
    for p in ps:
      n = resources.SuggestionOperationResource.from_name(p.name).operation_number
      by[n] = 'DUPLICATE' if n in by else self.sop_token(p)
    return [by[k] for k in sorted(by)]        # the contract promises no order: compared by operation number

  # ---- the whole abstract state, through the public API
  def project(self):
    st = self._project(self.ds)
    st['durable'] = True
    if self.ds2 is not None:
      try:
        self.ds2._connection.rollback()          # end the reader's own (read) transaction: look at the file afresh
      except Exception:  # pylint: disable=broad-except
        pass
      st['durable'] = self._project(self.ds2) == {k: v for k, v in st.items() if k != 'durable'}
    return st

  def _project(self, ds):
    st = {'owners': {}, 'study': {}, 'trial': {}, 'sop': {}, 'es': {}}
    for o in self.conf['Owners']:
      try:
        ds.list_studies(resources.OwnerResource(o).name)
        st['owners'][o] = True
      except custom_errors.NotFoundError:
        st['owners'][o] = False
      except Exception as e:  # pylint: disable=broad-except
        st['owners'][o] = {'error': type(e).__name__}      # a probe that fails any other way is itself an observation
    for s in self.studies:
      try:
        st['study'][s] = self.study_token(ds.load_study(self.sname(s)))
        present = True
      except custom_errors.NotFoundError:
        st['study'][s] = {'absent': True}
        present = False
      except Exception as e:  # pylint: disable=broad-except
        st['study'][s] = {'error': type(e).__name__}
        present = False
      # children are probed one by one whether or not the study exists: a child outliving its study is visible here
      trials = []
      for t in self.ids:
        try:
          trials.append(self.trial_token(ds.get_trial(self.tname(s, t))))
        except custom_errors.NotFoundError:
          trials.append({'absent': True})
        except Exception as e:  # pylint: disable=broad-except
          trials.append({'error': type(e).__name__})
      if present:
        try:
          listed = self._trial_list(ds.list_trials(self.sname(s)))
        except Exception as e:  # pylint: disable=broad-except
          listed = {'error': type(e).__name__}
        if listed != trials:
          trials = {'get_trial': trials, 'list_trials': listed}
      st['trial'][s] = trials
      st['sop'][s] = {}
      for w in self.clients:
        ops = []
        for i in range(1, self.max_ops + 1):
          try:
            ops.append(self.sop_token(ds.get_suggestion_operation(self.opname(s, w, i))))
          except custom_errors.NotFoundError:
            break
          except Exception as e:  # pylint: disable=broad-except
            ops.append({'error': type(e).__name__})
            break
        st['sop'][s][w] = ops
      es = []
      for t in self.ids:
        try:
          es.append({'body': ds.get_early_stopping_operation(self.esname(s, t)).failure_message})
        except custom_errors.NotFoundError:
          es.append({'absent': True})
        except Exception as e:  # pylint: disable=broad-except
          es.append({'error': type(e).__name__})
      st['es'][s] = es
    return st

  def close(self):
    if self.ds2 is not None:
      try:
        self.ds2._connection.close()
        self.ds2._engine.dispose()
      except Exception:  # pylint: disable=broad-except
        pass
    eng = getattr(self.ds, '_engine', None)
    if eng is not None:
      try:
        self.ds._connection.close()
        eng.dispose()
        if self.backend == 'sqlfile':
          os.unlink(eng.url.database)
      except Exception:  # pylint: disable=broad-except
        pass
