"""Direction 2: TLC behaviours -> real code.

Takes the transition-covering histories printed by Spec A (one record per
generated successor: hist, expected resp, expected st), executes each on a
fresh abstract world of the real servicer and compares the abstract response
and the full projected state with TLC's.  First divergence only (cascade
rule): a history with a diverging proper prefix is not replayed.
"""
import collections
import concurrent.futures as cf
import json
import multiprocessing
import os
import time

_W = {}


def canon(x):
  return json.dumps(x, sort_keys=True)


def norm_val(rpc, v):
  """TLC prints sets as arrays in its own order: compare set-valued responses as sorted lists."""
  if rpc in ('ListStudies', 'ListOptimalTrials') and isinstance(v, list):
    return sorted(v, key=str)
  return v


def env_tags(c):
  out = {}
  e = c.get('env')
  if isinstance(e, dict):
    out['env_raise'] = bool(e.get('raise'))
    if 'ps' in e:
      out['delivered'] = len(e['ps'])
  if 'n' in c:
    out['n'] = c['n']
  return out


def diff_paths(a, b, path=''):
  """Paths at which two JSON values differ (for diagnostics and signatures)."""
  if type(a) != type(b):
    return [path or '.']
  if isinstance(a, dict):
    out = []
    for k in sorted(set(a) | set(b)):
      if k not in a or k not in b:
        out.append('%s/%s' % (path, k))
      else:
        out += diff_paths(a[k], b[k], '%s/%s' % (path, k))
    return out
  if isinstance(a, list):
    if len(a) != len(b):
      return [path or '.']
    out = []
    for i, (x, y) in enumerate(zip(a, b)):
      out += diff_paths(x, y, '%s/%d' % (path, i))
    return out
  return [] if a == b else [path or '.']


def compare(rec, resp, got_state):
  """Returns None if the implementation agrees with TLC's record, else a divergence dict."""
  last = rec['hist'][-1]
  exp = rec['resp']
  what = None
  if resp['err'] != exp['err']:
    what = 'err'
  elif resp['err'] == 'None' and norm_val(last['rpc'], resp['val']) != norm_val(last['rpc'], exp['val']):
    what = 'val'
  elif got_state != rec['st']:
    what = 'state'
  if what is None:
    return None
  sig = {'rpc': last['rpc'], 'what': what, 'got': resp['err'], 'exp': exp['err']}
  sig.update(env_tags(last))
  paths = diff_paths(got_state, rec['st'])
  comps = sorted({p.split('/')[1] for p in paths if p.startswith('/')})
  sig['state_diff'] = ','.join(comps)
  import re as _re
  if what == 'state' and paths and all(_re.match(r'^/(study/[^/]+/meta|trial/[^/]+/\d+/meta)(/|$)', p) for p in paths):
    sig['meta_only'] = True        # only metadata cells differ: the step speaks about C10 whatever the call was
  return {'sig': sig, 'hist': rec['hist'], 'got_resp': resp, 'exp_resp': exp,
          'got_state': got_state, 'exp_state': rec['st'],
          'diff': diff_paths(got_state, rec['st'])[:12]}


def _init_worker(conf, backend, scratch, binding='world'):
  import importlib
  world = importlib.import_module(binding)  # heavy import happens once per worker process
  _W['binding'] = binding
  _W['world'] = world
  _W['conf'] = conf
  _W['backend'] = backend
  _W['scratch'] = scratch
  _W['svc'] = None


def _fresh_world():
  world = _W['world']
  if _W['binding'] != 'world':
    return world.World(_W['conf'], backend=_W['backend'], scratch=_W['scratch'])
  if _W['backend'] == 'ram':
    return world.World(_W['conf'], backend='ram')
  if _W['backend'] == 'sqlfile':
    return world.World(_W['conf'], backend='sqlfile', scratch=_W['scratch'])
  # sqlmem: engine + create_all cost ~30 ms, so reuse one servicer and isolate histories by owner
  if _W['svc'] is None:
    _W['svc'] = world.make_servicer(world.backend_url(_W['backend'], _W['scratch']), _W['conf'].get('Recycle', 'never'))
  return world.World(_W['conf'], svc=_W['svc'], backend=_W['backend'])


def _run_chunk(recs):
  out = []
  calls = 0
  for idx, rec in recs:
    w = _fresh_world()
    resp = None
    for c in rec['hist']:
      resp = w.run(c)
      calls += 1
    got = w.project()
    if _W['binding'] != 'world':
      w.close()
    elif _W['backend'] == 'sqlfile':
      try:
        w.svc.datastore._engine.dispose()
        os.unlink(w.svc.datastore._engine.url.database)
      except Exception:  # pylint: disable=broad-except
        pass
    out.append((idx, compare(rec, resp, got)))
  return out, calls


def _pre_chunk(hists):
  """Abstract state before the last call of each history (needed only for histories that diverged)."""
  out = []
  for h in hists:
    w = _fresh_world()
    for c in h[:-1]:
      w.run(c)
    out.append(w.project())
    if _W['binding'] != 'world':
      w.close()
    elif _W['backend'] == 'sqlfile':
      try:
        w.svc.datastore._engine.dispose()
        os.unlink(w.svc.datastore._engine.url.database)
      except Exception:  # pylint: disable=broad-except
        pass
  return out


JV = None


def judge_divergences(divs, pres, conf, workdir, tag):
  """TLC (VizierJudge.tla): is the observed step explained by SOME allowed choice of the model?  -> list of verdicts."""
  import re
  import tlc
  global JV
  JV = JV or re.compile(r'<<"JV", (\d+), "(\w+)">>')
  events, slots = [], []
  out = ['A_state'] * len(divs)

  def wellformed(st):
    # the projection marks what the model cannot even express (duplicate ids, ids beyond the bound, unknown entries):
    # such a state is a divergence without asking TLC
    try:
      for s, row in st['trial'].items():
        if len(row) != conf['MaxId']:
          return False
        for t in row:
          if 'absent' not in t and set(t) != {'state', 'client', 'params', 'meas', 'final', 'reason', 'meta'}:
            return False
          if 'absent' not in t and '_extra' in t['meta']:
            return False
      return all('absent' in v or '_extra' not in v['meta'] for v in st['study'].values())
    except Exception:  # pylint: disable=broad-except
      return False
  for k, (d, pre) in enumerate(zip(divs, pres)):
    resp = {kk: v for kk, v in d['got_resp'].items() if kk != 'exc'}
    if not (wellformed(pre) and wellformed(d['got_state'])) or str(resp.get('err', '')).startswith('Unknown:'):
      continue
    events.append({'pre': pre, 'call': d['hist'][-1], 'resp': resp, 'post': d['got_state']})
    slots.append(k)
  if not events:
    return out
  path = os.path.join(workdir, 'judge_%s.json' % tag)
  with open(path, 'w') as f:
    json.dump(events, f)
  cfg = os.path.join(workdir, 'judge_%s.cfg' % tag)
  consts = {'Studies': set(conf['Studies']), 'Clients': set(conf['Clients']), 'MaxId': conf['MaxId'], 'Cells': set(conf['Cells']),
            'Recycle': conf.get('Recycle', 'never')}
  tlc.write_cfg(cfg, constants=consts, constraints=['Pos'])
  res = tlc.must_ok(tlc.run_tlc('VizierJudge', cfg, workdir, workers=4, env={'TRACE_FILE': path}, timeout=1800), 'VizierJudge/' + tag)
  v = {int(m.group(1)): m.group(2) for m in JV.finditer(res.out)}
  if len(v) != len(events):
    raise tlc.MachineryError('VizierJudge judged %d of %d steps\n%s' % (len(v), len(events), res.out[-1500:]))
  os.unlink(path)
  for j, k in enumerate(slots):
    out[k] = v[j + 1]
  return out


class ReplayResult:

  def __init__(self):
    self.histories = 0
    self.calls = 0
    self.divergences = []        # first divergences only
    self.skipped_after_divergence = 0
    self.wall = 0.0
    self.kinds = collections.Counter()
    self.nontrivial = set()
    self.other_choice = 0        # steps whose outcome differs from the model's default choice but is explained by another allowed one

  def summary(self):
    return {'histories': self.histories, 'rpcs': self.calls, 'first_divergences': len(self.divergences),
            'skipped_after_divergence': self.skipped_after_divergence, 'explained_by_another_allowed_choice': self.other_choice,
            'wall_s': round(self.wall, 1)}


MUTATING = {'CreateStudy', 'DeleteStudy', 'SetStudyState', 'CreateTrial', 'AddMeasurement', 'CompleteTrial', 'StopTrial',
            'DeleteTrial', 'SuggestTrials', 'CheckEarlyStopping', 'UpdateMetadata'}


def replay(records, conf, backend='ram', scratch=None, procs=None, relevant=None, sample=None, seed=0, binding='world',
           mutating=None, judge=True):
  """records: list of {'hist','st','resp'} (non-empty hist).  Returns ReplayResult."""
  import random
  res = ReplayResult()
  t0 = time.time()
  by_len = collections.defaultdict(list)
  for i, r in enumerate(records):
    by_len[len(r['hist'])].append((i, r))
  bad = set()
  procs = procs or min(16, os.cpu_count() or 4)
  ctx = multiprocessing.get_context('fork')
  rng = random.Random(seed)
  with cf.ProcessPoolExecutor(max_workers=procs, mp_context=ctx, initializer=_init_worker,
                              initargs=(conf, backend, scratch, binding)) as ex:
    for L in sorted(by_len):
      todo = []
      for i, r in by_len[L]:
        keys = [canon(c) for c in r['hist']]
        if any(tuple(keys[:k]) in bad for k in range(1, len(keys))):
          res.skipped_after_divergence += 1
          continue
        if sample is not None and L > 1 and rng.random() > sample:
          continue
        todo.append((i, r))
      n = max(1, len(todo) // (procs * 4) + 1)
      chunks = [todo[k:k + n] for k in range(0, len(todo), n)]
      level_divs = []
      for out, calls in ex.map(_run_chunk, chunks):
        res.calls += calls
        for idx, d in out:
          res.histories += 1
          r = records[idx]
          rpcs = [c['rpc'] for c in r['hist']]
          if any(x in (mutating or MUTATING) for x in rpcs) and (relevant is None or any(x in relevant for x in rpcs)):
            res.nontrivial.add(canon(r['hist']))
          if d is not None:
            level_divs.append(d)
      if level_divs and judge and binding == 'world' and scratch is not None:
        # the outcome differs from the one printed for the model's default choice: ask TLC whether another allowed
        # choice explains it (needs the abstract state before the last call)
        hs = [d['hist'] for d in level_divs]
        m = max(1, len(hs) // (procs * 2) + 1)
        pres = []
        for part in ex.map(_pre_chunk, [hs[k:k + m] for k in range(0, len(hs), m)]):
          pres += part
        verdicts = judge_divergences(level_divs, pres, conf, scratch, '%s_L%d_%d' % (backend, L, os.getpid()))
        kept = []
        for d, v in zip(level_divs, verdicts):
          if v == 'ok':
            res.other_choice += 1
          else:
            kept.append(d)
        level_divs = kept
      for d in level_divs:
        bad.add(tuple(canon(c) for c in d['hist']))
        res.divergences.append(d)
        res.kinds[canon(d['sig'])] += 1
  res.wall = time.time() - t0
  return res
