"""Direction 1: real code -> traces for VizierTrace.tla.

Seeded random walks over the abstract call vocabulary, executed on the real
servicer; every event logs the call (with the environment's choices), the
abstract response and the full projected state.  The walk generator only
chooses calls; it never predicts outcomes.
"""
import json
import os
import random
import re

import tlc

CFGS = ['max1', 'min1', 'maxmin2']


def random_call(rng, conf, state, kinds, opts):
  """One abstract call, biased towards ids that exist (state = last projected state or None)."""
  studies, clients, max_id = conf['Studies'], conf['Clients'], conf['MaxId']
  cells = conf['Cells']
  params = opts.get('Params', ['p1', 'p2'])
  meas = opts.get('Meas', ['m1', 'm2', 'm3'])
  vals = opts.get('Vals', ['v1', 'v2'])
  s = rng.choice(studies)
  present = []
  maxid = 0
  if state and 'absent' not in state['study'][s]:
    present = [i + 1 for i, t in enumerate(state['trial'][s][:max_id]) if 'absent' not in t]
    maxid = max(present) if present else 0

  def tid():
    if present and rng.random() < 0.85:
      return rng.choice(present)
    return rng.randint(1, max_id)

  def cellmap(p=0.5):
    return {c: (rng.choice(vals) if rng.random() < p else 'None') for c in cells}

  k = rng.choice(kinds)
  if k == 'CreateStudy':
    return {'rpc': k, 's': s, 'cfg': rng.choice(opts.get('Cfgs', CFGS))}
  if k in ('GetStudy', 'DeleteStudy', 'ListTrials', 'ListOptimalTrials'):
    return {'rpc': k, 's': s}
  if k == 'ListStudies':
    return {'rpc': k}
  if k == 'SetStudyState':
    return {'rpc': k, 's': s, 'x': rng.choice(['ACTIVE', 'ACTIVE', 'INACTIVE', 'COMPLETED'])}
  if k == 'CreateTrial':
    if maxid >= max_id:
      return None
    return {'rpc': k, 's': s, 'p': rng.choice(params), 'c': rng.choice(meas + ['None', 'None'])}
  if k in ('GetTrial', 'StopTrial', 'DeleteTrial'):
    return {'rpc': k, 's': s, 't': tid()}
  if k == 'AddMeasurement':
    return {'rpc': k, 's': s, 't': tid(), 'm': rng.choice(meas)}
  if k == 'CompleteTrial':
    inf = rng.random() < 0.25
    return {'rpc': k, 's': s, 't': tid(), 'f': rng.choice(meas + ['None']), 'inf': inf,
            'reason': rng.choice(['', 'r1']) if inf else ''}
  if k == 'SuggestTrials':
    n = rng.randint(1, opts.get('MaxCount', 3))
    room = max_id - maxid
    if rng.random() < 0.12:
      env = {'raise': True, 'ps': [], 'md': {c: 'None' for c in cells}}
    else:
      kdel = min(room, rng.choice([n, n, n, n + 1, max(0, n - 1), 0]))
      env = {'raise': False, 'ps': [rng.choice(params) for _ in range(kdel)],
             'md': ({c: ('inc' if v != 'None' and rng.random() < 0.3 else v) for c, v in cellmap(0.3).items()}
                    if opts.get('AlgoMeta') else {c: 'None' for c in cells})}
    return {'rpc': k, 's': s, 'w': rng.choice(clients), 'n': n, 'env': env}
  if k == 'GetOperation':
    return {'rpc': k, 's': s, 'w': rng.choice(clients), 'i': rng.randint(1, 3)}
  if k == 'CheckEarlyStopping':
    if rng.random() < 0.15:
      env = {'raise': True, 'stop': False}
    else:
      env = {'raise': False, 'stop': rng.random() < 0.5}
    t = tid()
    if opts.get('EsAlso') and not env['raise'] and rng.random() < 0.4:
      env['self'] = rng.random() < 0.6
      env['also'] = sorted({x for x in (tid(), tid()) if x != t} if rng.random() < 0.7 else set())
    return {'rpc': k, 's': s, 't': t, 'env': env}
  if k == 'UpdateMetadata':
    t = tid() if rng.random() < 0.6 else 0
    t2 = tid() if (t and rng.random() < 0.3) else 0
    if t2 == t:
      t2 = 0
    if t in present and t2 == 0 and rng.random() < 0.1:
      t2 = -1         # a malformed trial id next to an existing trial
    return {'rpc': k, 's': s, 'd': {'study': cellmap(0.4), 't': t, 't2': t2,
                                    'trial': cellmap(0.7) if t else {c: 'None' for c in cells}}}
  raise KeyError(k)


def walk(world, rng, length, kinds, opts):
  """Runs one random walk on a fresh world; returns the list of events."""
  events = []
  state = None
  # start with a study most of the time so that walks are not dominated by NotFound
  first = {'rpc': 'CreateStudy', 's': rng.choice(world.conf['Studies']), 'cfg': rng.choice(opts.get('Cfgs', CFGS))}
  pending = [first] if rng.random() < 0.9 else []
  while len(events) < length:
    c = pending.pop(0) if pending else random_call(rng, world.conf, state, kinds, opts)
    if c is None:
      continue
    resp = world.run(c)
    resp.pop('exc', None)
    state = world.project()
    events.append({'call': c, 'resp': resp, 'post': state})
  return events


POS_RE = re.compile(r'<<"POS", (\d+), (\d+), "(\w+)">>')


def validate(traces, conf, workdir, workers=None, timeout=3600, name='T'):
  """Validates traces with VizierTrace.tla in one TLC run.

  Returns (verdicts, tlcresult): verdicts[i] = ('ok', len) | (clause, position) for trace i (0-based).
  """
  # an observed state the model cannot even express (duplicate ids, ids beyond the bound, unknown metadata entries) is a
  # divergence at that event without asking TLC: the trace is cut there
  def wellformed(st):
    try:
      for row in st['trial'].values():
        if len(row) != conf['MaxId']:
          return False
        for t in row:
          if 'absent' not in t and (set(t) != {'state', 'client', 'params', 'meas', 'final', 'reason', 'meta'} or '_extra' in t['meta']):
            return False
      return all('absent' in v or '_extra' not in v['meta'] for v in st['study'].values())
    except Exception:  # pylint: disable=broad-except
      return False
  cut = {}
  full = traces
  traces = []
  for i, tr in enumerate(full):
    k = next((j for j, e in enumerate(tr) if not wellformed(e['post']) or str(e['resp'].get('err', '')).startswith('Unknown:')), None)
    if k is not None:
      cut[i] = k
    traces.append(tr if k is None else tr[:k])
  path = os.path.join(workdir, name + '.traces.json')
  with open(path, 'w') as f:
    json.dump(traces, f)
  consts = {'Studies': set(conf['Studies']), 'Clients': set(conf['Clients']), 'MaxId': conf['MaxId'],
            'Cells': set(conf['Cells']), 'Recycle': conf['Recycle']}
  cfg = os.path.join(workdir, name + '.cfg')
  tlc.write_cfg(cfg, constants=consts, constraints=['Pos'])
  res = tlc.run_tlc('VizierTrace', cfg, workdir, workers=workers or 8, timeout=timeout, env={'TRACE_FILE': path})
  tlc.must_ok(res, 'VizierTrace/' + name)
  reach = {}
  for m in POS_RE.finditer(res.out):
    t, l, v = int(m.group(1)), int(m.group(2)), m.group(3)
    if t not in reach or l > reach[t][0]:
      reach[t] = (l, v)
  verdicts = []
  for i, tr in enumerate(traces):
    l, v = reach.get(i + 1, (0, 'unreached'))
    if not tr and i in cut:
      l, v = 1, 'ok'           # nothing left to validate before the ill-formed event
    if v == 'ok' and l == len(tr) + 1 and i in cut:
      verdicts.append(('A_state', cut[i] + 1))     # the prefix is fine; the event at cut[i] is the ill-formed one
    elif v == 'ok' and l == len(tr) + 1:
      verdicts.append(('ok', len(tr)))
    elif v == 'ok':
      raise tlc.MachineryError('trace %d stopped at %d/%d without a verdict' % (i, l, len(tr)))
    else:
      verdicts.append((v, l - 1))      # the event at (1-based) position l-1 failed clause v
  return verdicts, res
