"""Exact order-preserving integer keys for IEEE-754 doubles (DESIGN 3.2).

key(x) = the 64-bit pattern made monotone (negatives: all bits flipped; non-negatives: sign bit set), split into
three limbs of 22/21/21 bits, so that the lexicographic order of the triples is the numeric order and TLC (32-bit
integers, no reals) can decide <=, =, "within bounds", "member of the feasible set" exactly.
"""
import math
import struct


def key(x):
  x = float(x)
  if x != x:
    return {'nan': True, 'k': [0, 0, 0]}
  if x == 0.0:
    x = 0.0                      # -0.0 == 0.0
  (b,) = struct.unpack('>Q', struct.pack('>d', x))
  if b >> 63:
    b = (~b) & 0xFFFFFFFFFFFFFFFF
  else:
    b |= 1 << 63
  return {'nan': False, 'k': [b >> 42, (b >> 21) & 0x1FFFFF, b & 0x1FFFFF]}


def value_record(v):
  """A parameter value as the judge sees it: kind, key, key of its floor (integrality), string."""
  if isinstance(v, bool):
    return {'kind': 'bool', 'key': key(0), 'fl': key(0), 's': 'True' if v else 'False'}
  if isinstance(v, (int, float)):
    f = float(v)
    fl = math.floor(f) if math.isfinite(f) else f
    return {'kind': 'num', 'key': key(f), 'fl': key(fl), 's': ''}
  if isinstance(v, str):
    return {'kind': 'str', 'key': key(0), 'fl': key(0), 's': v}
  return {'kind': type(v).__name__, 'key': key(0), 'fl': key(0), 's': repr(v)}


def space_record(search_space):
  """The search space as the judge sees it (flat spaces only)."""
  out = []
  for pc in search_space.parameters:
    t = pc.type.name
    rec = {'name': pc.name, 'type': t, 'lo': key(0), 'hi': key(0), 'feas': [], 'cats': []}
    if t in ('DOUBLE', 'INTEGER'):
      rec['lo'], rec['hi'] = key(pc.bounds[0]), key(pc.bounds[1])
    elif t == 'DISCRETE':
      rec['feas'] = [key(v) for v in pc.feasible_values]
    elif t == 'CATEGORICAL':
      rec['cats'] = list(pc.feasible_values)
    out.append(rec)
  return out
