"""pytest plugin (-p rectrace_plugin): records every top-level RPC of every VizierServicer created while the repository's
own tests run, together with the whole stored state after the call, into $VERIF_RECORD_DIR/<pid>.<n>.json.

No repository hook: the servicer's public RPC methods are wrapped from outside at class level.  The linearization point
of a sequential caller is the call's return; calls issued from inside another RPC of the same servicer in the same
thread (the Pythia supporter reading trials during SuggestTrials) are not events; a trace in which two top-level calls
overlap in time (multi-threaded tests) is marked 'concurrent' and left to the C04 machinery.
"""
import functools
import json
import os
import threading

import verif_boot  # noqa: F401

RPCS = ['CreateStudy', 'GetStudy', 'ListStudies', 'DeleteStudy', 'SetStudyState', 'SuggestTrials', 'GetOperation', 'CreateTrial', 'GetTrial',
        'ListTrials', 'AddTrialMeasurement', 'CompleteTrial', 'DeleteTrial', 'CheckTrialEarlyStoppingState', 'StopTrial', 'ListOptimalTrials',
        'UpdateMetadata']
_DIR = os.environ.get('VERIF_RECORD_DIR')
_tls = threading.local()
_lock = threading.Lock()
_traces = {}      # id(servicer) -> dict
_count = [0]


def _msg(m):
  from google.protobuf import json_format
  if type(m).__name__ == 'Operation' and hasattr(m, 'done') and hasattr(m, 'response'):
    # long-running suggestion operation: the response is an Any holding a SuggestTrialsResponse
    out = {'name': m.name, 'done': bool(m.done), 'error': m.HasField('error'), 'trials': []}
    try:
      from vizier._src.service import vizier_service_pb2
      if m.HasField('response'):
        out['trials'] = [t.id for t in vizier_service_pb2.SuggestTrialsResponse.FromString(m.response.value).trials]
    except Exception as e:  # pylint: disable=broad-except
      out['_response_error'] = repr(e)[:100]
    return out
  try:
    return json_format.MessageToDict(m, preserving_proto_field_name=True)
  except Exception:  # pylint: disable=broad-except
    return {'_unprintable': type(m).__name__}


_MAX_OTHER = int(os.environ.get('VERIF_RECORD_OTHER_STUDIES', '2'))


def _target(req):
  import re
  for field in ('parent', 'name', 'trial_name'):
    v = getattr(req, field, None)
    if isinstance(v, str):
      m = re.match(r'^(owners/[^/]+/studies/[^/]+)', v)
      if m:
        return m.group(1)
  return None


def _snapshot(svc, tr, target=None):
  """The stored state through the datastore API (owners / clients are those seen in requests so far): the study the call
  names in full, plus the first few other studies of each owner as isolation witnesses (servicers shared by a whole test
  class hold a hundred studies)."""
  from vizier._src.service import custom_errors
  from vizier._src.service import resources
  ds = svc.datastore
  out = {}
  for owner in sorted(tr['owners']):
    try:
      studies = ds.list_studies(resources.OwnerResource(owner).name)
    except custom_errors.NotFoundError:
      out[owner] = None
      continue
    except Exception as e:  # pylint: disable=broad-except
      out[owner] = {'_error': repr(e)[:200]}
      continue
    od = {}
    others = sorted(x.name for x in studies if x.name != target)[:_MAX_OTHER]
    for st in studies:
      if st.name != target and st.name not in others:
        continue
      sd = {'study': _msg(st), 'trials': [], 'ops': {}, 'es': {}}
      try:
        trials = ds.list_trials(st.name)
      except Exception:  # pylint: disable=broad-except
        trials = []
      for t in trials:
        sd['trials'].append(_msg(t))
        try:
          r = resources.TrialResource.from_name(t.name)
          es = ds.get_early_stopping_operation(resources.EarlyStoppingOperationResource(r.owner_id, r.study_id, r.trial_id).name)
          sd['es'][str(r.trial_id)] = _msg(es)
        except Exception:  # pylint: disable=broad-except
          pass
      for w in sorted(tr['clients']):
        try:
          sd['ops'][w] = [_msg(o) for o in ds.list_suggestion_operations(st.name, w)]
        except Exception:  # pylint: disable=broad-except
          sd['ops'][w] = []
      od[st.name] = sd
    out[owner] = od
  return out


def _note_names(tr, req):
  import re
  for field in ('parent', 'name', 'trial_name'):
    v = getattr(req, field, None)
    if isinstance(v, str):
      m = re.match(r'^owners/([^/]+)', v)
      if m:
        tr['owners'].add(m.group(1))
      m = re.match(r'^owners/[^/]+/studies/[^/]+/clients/([^/]+)/', v)
      if m:
        tr['clients'].add(m.group(1))
  cid = getattr(req, 'client_id', None)
  if isinstance(cid, str) and cid:
    tr['clients'].add(cid)


def _wrap(name, fn):
  @functools.wraps(fn)
  def wrapper(self, request, context=None):
    depth = getattr(_tls, 'depth', 0)
    if depth or _DIR is None:
      _tls.depth = depth + 1
      try:
        return fn(self, request, context)
      finally:
        _tls.depth = depth
    with _lock:
      tr = _traces.setdefault(id(self), {'events': [], 'owners': set(), 'clients': set(), 'inflight': 0, 'concurrent': False,
                                         'test': os.environ.get('PYTEST_CURRENT_TEST', ''), 'svc': self})
      tr['inflight'] += 1
      if tr['inflight'] > 1:
        tr['concurrent'] = True
      try:
        _note_names(tr, request)
      except Exception:  # pylint: disable=broad-except
        pass
    _tls.depth = 1
    ev = {'rpc': name, 'request': _msg(request), 'thread': threading.get_ident()}
    # tests also write to the datastore directly between calls: every event carries its own pre-state
    with _lock:
      if not tr['concurrent']:
        try:
          ev['pre'] = _snapshot(self, tr, _target(request))
        except Exception as e:  # pylint: disable=broad-except
          ev['pre_error'] = repr(e)[:200]
    try:
      resp = fn(self, request, context)
      ev['response'] = _msg(resp)
      return resp
    except BaseException as e:  # pylint: disable=broad-except
      ev['error'] = type(e).__name__
      ev['error_text'] = str(e)[:200]
      raise
    finally:
      _tls.depth = 0
      with _lock:
        tr['inflight'] -= 1
        if not tr['concurrent']:
          try:
            _tls.depth = 1        # the snapshot's own datastore reads are not events
            ev['post'] = _snapshot(self, tr, ev.get('_target') or _target(request))
          except Exception as e:  # pylint: disable=broad-except
            ev['post_error'] = repr(e)[:200]
          finally:
            _tls.depth = 0
        tr['events'].append(ev)
  return wrapper


def _install():
  from vizier._src.service import vizier_service
  cls = vizier_service.VizierServicer
  if getattr(cls, '_verif_recording', False):
    return
  for name in RPCS:
    setattr(cls, name, _wrap(name, getattr(cls, name)))
  cls._verif_recording = True


def _flush():
  if _DIR is None:
    return
  os.makedirs(_DIR, exist_ok=True)
  with _lock:
    for key, tr in list(_traces.items()):
      if not tr['events']:
        continue
      _count[0] += 1
      path = os.path.join(_DIR, '%d.%d.json' % (os.getpid(), _count[0]))
      with open(path, 'w') as f:
        json.dump({'test': tr['test'], 'concurrent': tr['concurrent'], 'events': tr['events']}, f)
    _traces.clear()


if _DIR is not None:
  _install()


def pytest_runtest_teardown(item, nextitem):
  _flush()


def pytest_sessionfinish(session, exitstatus):
  _flush()
