"""Spec A runs: exhaustive TLC check of the reference model + transition dump."""
import os

import tlc

ALL_KINDS = ['CreateStudy', 'GetStudy', 'ListStudies', 'DeleteStudy', 'SetStudyState', 'CreateTrial', 'GetTrial',
             'ListTrials', 'AddMeasurement', 'CompleteTrial', 'StopTrial', 'DeleteTrial', 'SuggestTrials',
             'GetOperation', 'CheckEarlyStopping', 'UpdateMetadata', 'ListOptimalTrials']

INVARIANTS = ['C02_ActiveHasOwner', 'C02_RequestedUnowned', 'C06_NoUnfinishedOp', 'C06_NoActiveEs']
PROPERTIES = ['C01_Transitions', 'C01_ParamsFrozen', 'C01_CompletedFrozen', 'C01_ErrorsPure', 'C01_ImmutableStudy',
              'C01_OnlyNamedTrial', 'C02_OneOwner', 'C02_FreshIds', 'C02_Suggest', 'C06_Reported', 'C06_Reaches',
              'C10_Isolation', 'C10_LWW', 'C11_Optimal']

BASE = dict(Studies={'s1'}, Clients={'w1', 'w2'}, MaxId=3, Params={'p1', 'p2'}, Meas={'m1', 'm2'}, Cells={'c1'},
            Vals={'v1', 'v2'}, Recycle='never', MaxCount=2, MaxDeliver=3, MaxDepth=3, Cfgs={'max1'}, AlgoMeta=False, EsAlso=False,
            Kinds=set(ALL_KINDS))


def constants(**over):
  c = dict(BASE)
  c.update(over)
  return c


def conf_of(consts):
  """What the replay driver needs to know about a config (plain JSON types)."""
  return {'Studies': sorted(consts['Studies']), 'Clients': sorted(consts['Clients']), 'MaxId': consts['MaxId'],
          'Cells': sorted(consts['Cells']), 'Recycle': consts['Recycle'], 'SharedStudyId': bool(consts.get('SharedStudyId'))}


def check_and_dump(consts, workdir, dump=True, coverage=False, timeout=3600, workers=None, name='A'):
  """One TLC run: all properties of Spec A on this config (+ every generated transition as JSON).

  The dump run is single-worker on purpose: with the history hidden by VIEW, strict BFS keeps a
  shortest history per state and the depth cut is deterministic.
  """
  cfg = os.path.join(workdir, name + '.cfg')
  consts = {k: v for k, v in consts.items() if k != 'SharedStudyId'}     # a binding option, not a model constant
  tlc.write_cfg(cfg, constants=consts, invariants=INVARIANTS, properties=PROPERTIES,
                constraints=(['Dump'] if dump else []), view='View')
  res = tlc.run_tlc('VizierService', cfg, workdir, workers=workers or 1, coverage=coverage, timeout=timeout)
  tlc.must_ok(res, 'VizierService/' + name)
  recs = [r for r in res.printed_json() if r['hist']] if dump else []
  res.drop_printed()          # the parsed records are kept, TLC's text of them is not
  return res, recs
