"""Deterministic cooperative scheduler over the real servicer (C04).

The real RPC methods run in real threads, one at a time.  A thread yields before every DataStore call and
before every acquisition of one of the servicer's three lock tables - the granularity C04 names.  Both are
plain attributes of the servicer, so nothing in the repository is changed:
  servicer.datastore              -> DsProxy (yield, then the real call)
  servicer._*_lock defaultdicts   -> dicts of SchedLock
A schedule is a list of thread ids; explore() enumerates schedules by stateless DFS over the choice points,
optionally with a preemption bound.
"""
import threading


class Deadlock(Exception):
  pass


class Sched:

  def __init__(self, schedule):
    self.schedule = list(schedule)
    self.pos = 0
    self.cv = threading.Condition()
    self.current = None
    self.waiting = {}
    self.done = set()
    self.choices = []     # (picked, runnable tuple, previous thread) per decision
    self.labels = []      # (thread, label name) in execution order

  def yield_point(self, tid, label):
    with self.cv:
      self.waiting[tid] = label
      self.current = None
      self.cv.notify_all()
      while self.current != tid:
        self.cv.wait()
      del self.waiting[tid]
      self.labels.append((tid, label[0] if label[0] != 'ds' else label[1]))

  def finish(self, tid):
    with self.cv:
      self.done.add(tid)
      self.current = None
      self.cv.notify_all()

  def run(self, fns):
    threads = []
    for tid, fn in fns.items():
      def body(tid=tid, fn=fn):
        threading.current_thread().verif_tid = tid
        self.yield_point(tid, ('start',))
        try:
          fn()
        finally:
          self.finish(tid)
      t = threading.Thread(target=body, daemon=True)
      t.start()
      threads.append(t)
    last = None
    deadlock = None
    while True:
      with self.cv:
        while self.current is not None or (len(self.waiting) + len(self.done) < len(fns)):
          self.cv.wait()
        runnable = sorted(t for t, l in self.waiting.items() if not (l[0] == 'acquire' and l[1].owner is not None))
        if not runnable:
          if len(self.done) == len(fns):
            break
          deadlock = dict((t, l[0]) for t, l in self.waiting.items())
          break
        if self.pos < len(self.schedule) and self.schedule[self.pos] in runnable:
          pick = self.schedule[self.pos]
        elif last in runnable:
          pick = last            # default policy: no preemption
        else:
          pick = runnable[0]
        self.pos += 1
        self.choices.append((pick, tuple(runnable), last))
        last = pick
        self.current = pick
        self.cv.notify_all()
    if deadlock is not None:
      raise Deadlock(str(deadlock))
    for t in threads:
      t.join()


class SchedLock:

  def __init__(self, sched, name):
    self.s = sched
    self.owner = None
    self.name = name

  def __enter__(self):
    tid = getattr(threading.current_thread(), 'verif_tid', None)
    if tid is None:
      return self
    self.s.yield_point(tid, ('acquire', self))
    self.owner = tid
    return self

  def __exit__(self, *a):
    self.owner = None

  # the threading.Lock interface, in case the code uses acquire/release
  def acquire(self, *a, **k):
    self.__enter__()
    return True

  def release(self):
    self.__exit__()


class DsProxy:

  def __init__(self, sched, inner):
    self._s = sched
    self._i = inner

  def __getattr__(self, name):
    f = getattr(self._i, name)
    if not callable(f):
      return f

    def wrapped(*a, **k):
      tid = getattr(threading.current_thread(), 'verif_tid', None)
      if tid is not None:
        self._s.yield_point(tid, ('ds', name))
      return f(*a, **k)
    return wrapped


LOCK_TABLES = ('_owner_name_to_lock', '_study_name_to_lock', '_operation_lock')


def instrument(svc, sched):
  """Installs the scheduler on a servicer; returns a function that removes it again."""
  inner = svc.datastore
  saved = {a: getattr(svc, a) for a in LOCK_TABLES}
  svc.datastore = DsProxy(sched, inner)
  for attr in LOCK_TABLES:
    class Table(dict):
      def __missing__(self, k, attr=attr):
        self[k] = SchedLock(sched, attr + ':' + k)
        return self[k]
    setattr(svc, attr, Table())

  def restore():
    svc.datastore = inner
    for a, v in saved.items():
      setattr(svc, a, v)
  return restore


def preemptions(choices):
  n = 0
  for pick, runnable, last in choices:
    if last is not None and last in runnable and pick != last:
      n += 1
  return n


def explore(run_one, bound=None, limit=None):
  """Stateless DFS over schedules.  run_one(schedule) -> (result, choices).  Yields (schedule, result).

  bound: maximum number of preemptions (None = all schedules).
  """
  stack = [[]]
  seen = set()
  n = 0
  while stack:
    prefix = stack.pop()
    result, choices = run_one(prefix)
    actual = tuple(c[0] for c in choices)
    if actual in seen:
      continue
    seen.add(actual)
    n += 1
    yield list(actual), result
    if limit and n >= limit:
      return
    for i in range(len(prefix), len(choices)):
      pick, runnable, last = choices[i]
      for alt in runnable:
        if alt == pick:
          continue
        new = list(actual[:i]) + [alt]
        if bound is not None:
          pre = preemptions(choices[:i]) + (1 if (last is not None and last in runnable and alt != last) else 0)
          if pre > bound:
            continue
        stack.append(new)
