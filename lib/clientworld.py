"""Binding of ClientApi.tla's vocabulary to vizier.service.clients on a chosen deployment."""
import itertools

import verif_boot  # noqa: F401
import grpc
import world
from vizier import pyvizier as vz
from vizier._src.service import clients
from vizier._src.service import constants
from vizier._src.service import pythia_service
from vizier._src.service import vizier_client
from vizier.client import client_abc
from vizier.service import pyvizier as svz

_counter = itertools.count()
STUDY_STATE = {'ACTIVE': vz.StudyState.ACTIVE, 'INACTIVE': vz.StudyState.ABORTED, 'COMPLETED': vz.StudyState.COMPLETED}
RSTUDY_STATE = {vz.StudyState.ACTIVE: 'ACTIVE', vz.StudyState.ABORTED: 'INACTIVE', vz.StudyState.COMPLETED: 'COMPLETED'}


def client_err_class(e):
  if isinstance(e, client_abc.ResourceNotFoundError):
    return 'ResourceNotFound'
  if isinstance(e, RuntimeError) and not isinstance(e, grpc.RpcError):
    return 'RuntimeError'
  return world.err_class(e)


class Deployment:
  """One running deployment (local / grpc / split) on one datastore; endpoints are switched per call."""

  def __init__(self, deployment, backend='ram', scratch=None, recycle='never'):
    self.deployment = deployment
    self.backend = backend
    url = world.backend_url(backend, scratch)
    if deployment == 'local':
      # the implicit in-process service of the client library itself
      vizier_client.environment_variables.server_endpoint = constants.NO_ENDPOINT
      vizier_client.environment_variables.servicer_kwargs = {
          'database_url': url, 'early_stop_recycle_period': world.datetime.timedelta(days=1 if recycle == 'never' else 0)}
      vizier_client._create_local_vizier_servicer.cache_clear()  # pylint: disable=protected-access
      self.svc = vizier_client._create_local_vizier_servicer()  # pylint: disable=protected-access
      self.svc.default_pythia_service = pythia_service.PythiaServicer(self.svc, policy_factory=world.ScriptedFactory())
      self.endpoint = constants.NO_ENDPOINT
    else:
      self.svc, self.stub = world.make_deployment(deployment, url, recycle)
      self.endpoint = world._servers[-1].endpoint  # pylint: disable=protected-access
    vizier_client.environment_variables.new_suggestion_polling_secs = 0.0

  def activate(self):
    vizier_client.environment_variables.server_endpoint = self.endpoint


def meas_of(token):
  return vz.Measurement(metrics=dict(world.MEAS[token]))


def meas_tok(m):
  if m is None:
    return 'None'
  d = {k: v.value for k, v in m.metrics.items()}
  if not d:
    return 'None'
  for k, v in world.MEAS.items():
    if v == d:
      return k
  return 'UNKNOWN:%r' % d


def trial_view(t):
  st = t.status.name
  if st == 'COMPLETED':
    st = 'INFEASIBLE' if t.infeasible else 'SUCCEEDED'
  x = t.parameters.get_value('x') if 'x' in t.parameters else None
  return {'state': st, 'params': world.RP.get(x, '?%r' % x), 'final': meas_tok(t.final_measurement),
          'meas': [meas_tok(m) for m in t.measurements]}


class ClientWorld(world.World):
  """World whose calls go through clients.Study / clients.Trial (projection still through the servicer)."""

  def __init__(self, conf, dep):
    super().__init__(conf, svc=dep.svc, backend=dep.backend, owner='c%d' % next(_counter))
    self.dep = dep

  def study(self, s):
    # a handle without an existence check (what a caller holds after the study was deleted elsewhere)
    return clients.Study(vizier_client.VizierClient(self.sname(s), clients.UNUSED_CLIENT_ID))

  def trial(self, s, t):
    return clients.Trial(vizier_client.VizierClient(self.sname(s), clients.UNUSED_CLIENT_ID), t)

  def execute_op(self, o):
    self.dep.activate()
    op = o['op']
    s = o.get('s')
    if op == 'from_study_config':
      sc = svz.StudyConfig.from_proto(world.study_proto(s, o['cfg']).study_spec)
      st = clients.Study.from_study_config(sc, owner=self.owner_id, study_id=self.sid(s))
      return self.TOKEN_OF.get(st.resource_name.split('/')[-1], st.resource_name.split('/')[-1])
    if op == 'from_resource_name':
      rid = clients.Study.from_resource_name(self.sname(s)).resource_name.split('/')[-1]
      return self.TOKEN_OF.get(rid, rid)
    if op in ('suggest', 'check_early_stopping') and o['env'].get('raise') and 'at' not in o['env']:
      self._raises = getattr(self, '_raises', 0) + 1
      o = dict(o, env=dict(o['env'], at='factory' if self._raises % 2 == 1 else 'policy'))
    if op == 'suggest':
      world.set_env(o['env'])
      return sorted(t.id for t in self.study(s).suggest(count=o['n'], client_id=o['w']))
    if op == 'add_trial':
      t = vz.Trial(parameters={'x': world.PARAMS[o['p']]})
      t.complete(meas_of(o['c']))
      return self.study(s).add_trial(t).id
    if op == 'request':
      return self.study(s).request(vz.TrialSuggestion({'x': world.PARAMS[o['p']]})).id
    if op == 'trials':
      got = {t.id: trial_view(t) for t in self.study(s).trials().get()}
      return [got.get(i, {'absent': True}) for i in range(1, self.conf['MaxId'] + 1)]
    if op == 'get_trial':
      return self.study(s).get_trial(o['t']).id
    if op == 'materialize':
      return trial_view(self.trial(s, o['t']).materialize())
    if op == 'optimal_trials':
      return sorted(t.id for t in self.study(s).optimal_trials().get())
    if op == 'set_state':
      self.study(s).set_state(STUDY_STATE[o['x']])
      return 'Done'
    if op == 'materialize_state':
      return RSTUDY_STATE[self.study(s).materialize_state()]
    if op == 'delete_study':
      self.study(s).delete()
      return 'Done'
    if op in ('study_update_metadata', 'trial_update_metadata'):
      ns, key = world.CELLS[o['c']]
      md = vz.Metadata()
      md.abs_ns(vz.Namespace.decode(ns))[key] = o['v']
      if op == 'study_update_metadata':
        self.study(s).update_metadata(md)
      else:
        self.trial(s, o['t']).update_metadata(md)
      return 'Done'
    if op == 'complete':
      m = meas_of(o['f']) if o['f'] != 'None' else None
      r = self.trial(s, o['t']).complete(m, infeasible_reason='r1' if o['inf'] else None)
      return meas_tok(r)
    if op == 'add_measurement':
      self.trial(s, o['t']).add_measurement(meas_of(o['m']))
      return 'Done'
    if op == 'stop':
      self.trial(s, o['t']).stop()
      return 'Done'
    if op == 'check_early_stopping':
      world.set_env(o['env'])
      return bool(self.trial(s, o['t']).check_early_stopping())
    if op == 'delete_trial':
      self.trial(s, o['t']).delete()
      return 'Done'
    raise KeyError(op)

  def run_op(self, o):
    try:
      return {'exc': 'None', 'val': self.execute_op(o)}
    except BaseException as e:  # pylint: disable=broad-except
      if isinstance(e, (KeyboardInterrupt, SystemExit)):
        raise
      return {'exc': client_err_class(e), 'val': 'None', 'detail': '%s: %s' % (type(e).__name__, str(e)[:160])}
