"""Running TLC and reading what it says.

Everything the checks know about a model comes through here: state counts,
per-action coverage, invariant/property violations, and the JSON lines that the
specifications print from a CONSTRAINT (transition dumps, trace positions).
"""
import json
import sys
import os
import re
import shutil
import subprocess
import tempfile
import threading
import time

VERIF = os.path.dirname(os.path.dirname(os.path.abspath(__file__)))
SPEC_DIR = os.path.join(VERIF, 'spec')
JAR = '/opt/veriftools/tla/tla2tools.jar:/opt/veriftools/tla/CommunityModules-deps.jar'


_prep_lock = threading.Lock()
_prepared = set()


class MachineryError(Exception):
  """TLC crashed / output unreadable: exit 2, never a property verdict."""


class Scratch:
  """A scratch directory outside /repo and /verif, removed on exit."""

  def __init__(self, tag='verif'):
    base = os.environ.get('VERIF_SCRATCH') or tempfile.gettempdir()
    self.path = tempfile.mkdtemp(prefix='%s.%d.' % (tag, os.getpid()), dir=base)

  def __enter__(self):
    return self.path

  def __exit__(self, *a):
    shutil.rmtree(self.path, ignore_errors=True)


def tla_value(v):
  """Python value -> TLA+ literal for a .cfg / generated module."""
  if isinstance(v, bool):
    return 'TRUE' if v else 'FALSE'
  if isinstance(v, int):
    return str(v)
  if isinstance(v, str):
    return '"%s"' % v
  if isinstance(v, (set, frozenset)):
    return '{' + ', '.join(tla_value(x) for x in sorted(v, key=lambda x: (str(type(x)), x))) + '}'
  if isinstance(v, (list, tuple)):
    return '<<' + ', '.join(tla_value(x) for x in v) + '>>'
  if isinstance(v, dict):
    if not v:
      return '<<>>'
    return '[' + ', '.join('%s |-> %s' % (k, tla_value(x)) for k, x in v.items()) + ']'
  raise TypeError(v)


def write_cfg(path, spec='Spec', constants=None, invariants=(), properties=(), constraints=(),
              action_constraints=(), view=None, postcondition=None, deadlock=False, init_next=None):
  lines = []
  if init_next:
    lines += ['INIT %s' % init_next[0], 'NEXT %s' % init_next[1]]
  else:
    lines.append('SPECIFICATION %s' % spec)
  if constants:
    lines.append('CONSTANTS')
    for k, v in constants.items():
      lines.append('  %s = %s' % (k, tla_value(v)))
  for c in constraints:
    lines.append('CONSTRAINT %s' % c)
  for c in action_constraints:
    lines.append('ACTION_CONSTRAINT %s' % c)
  if view:
    lines.append('VIEW %s' % view)
  for i in invariants:
    lines.append('INVARIANT %s' % i)
  for p in properties:
    lines.append('PROPERTY %s' % p)
  if postcondition:
    lines.append('POSTCONDITION %s' % postcondition)
  lines.append('CHECK_DEADLOCK %s' % ('TRUE' if deadlock else 'FALSE'))
  with open(path, 'w') as f:
    f.write('\n'.join(lines) + '\n')


class TlcResult:

  def __init__(self, out, rc, wall):
    self.out = out
    self.rc = rc
    self.wall = wall
    m = re.findall(r'(\d+) states generated, (\d+) distinct states found, (\d+) states left on queue', out)
    self.generated, self.distinct, self.left = (int(x) for x in m[-1]) if m else (0, 0, -1)
    self.finished = 'Model checking completed' in out or 'Finished in' in out
    self.violated = []
    for m in re.finditer(r'Invariant (\S+) is violated', out):
      self.violated.append(m.group(1))
    for m in re.finditer(r'Action property (\S+) is violated', out):
      self.violated.append(m.group(1))
    for m in re.finditer(r'Temporal properties were violated', out):
      self.violated.append('temporal')
    if 'Deadlock reached' in out:
      self.violated.append('Deadlock')
    self.error = None
    if not self.violated:
      m = re.search(r'Error: (.*)', out)
      if m and 'violated' not in m.group(1):
        self.error = out[m.start():m.start() + 3000]
    d = re.search(r'The depth of the complete state graph search is (\d+)', out)
    self.depth = int(d.group(1)) if d else None

  def coverage(self):
    """Per-action counts from -coverage output: {action: (distinct, total)}."""
    cov = {}
    for m in re.finditer(r'<(\w+) line (\d+), col \d+ to line \d+, col \d+ of module (\w+)>: (\d+):(\d+)', self.out):
      cov['%s@%s:%s' % (m.group(1), m.group(3), m.group(2))] = (int(m.group(4)), int(m.group(5)))
    return cov

  def trace_text(self):
    """The counterexample TLC printed, if any."""
    i = self.out.find('Error:')
    return self.out[i:i + 20000] if i >= 0 else ''

  def printed_json(self):
    """JSON values printed with PrintT(ToJson(x)): one quoted string per line."""
    # strings are interned while decoding: a dump of a million transitions repeats a few hundred distinct strings
    # (a thorough C01 config held 21 KB per record before, and the OOM killer ended it on a loaded machine)
    intern = sys.intern

    def hook(pairs):
      return {intern(k): (intern(v) if type(v) is str else v) for k, v in pairs}
    start = 0
    out = self.out
    n = len(out)
    while start < n:
      end = out.find('\n', start)
      if end < 0:
        end = n
      if out.startswith('"{', start) or out.startswith('"[', start):
        line = out[start:end]
        try:
          yield json.loads(json.loads(line), object_pairs_hook=hook)
        except ValueError as e:
          raise MachineryError('unparsable TLC JSON line: %r (%s)' % (line[:200], e))
      start = end + 1

  def drop_printed(self):
    """Forgets the printed JSON lines (after they have been parsed): the rest of TLC's output stays for diagnostics."""
    self.out = '\n'.join(l for l in self.out.splitlines() if not (l.startswith('"{') or l.startswith('"[')))

  def printed_tuples(self, tag):
    """Tuples printed as <<"TAG", a, b, ...>> with integer fields."""
    pat = re.compile(r'<<"%s"((?:, -?\d+)+)>>' % re.escape(tag))
    for m in pat.finditer(self.out):
      yield tuple(int(x) for x in m.group(1).split(',')[1:])


def run_tlc(module, cfg, workdir, workers=None, coverage=False, simulate=None, depth=None, seed=None,
            timeout=3600, env=None, extra=(), dfs_queue=False, java_opts=()):
  """Runs TLC on spec/<module>.tla copied (with the rest of spec/) into workdir."""
  with _prep_lock:     # copy the specifications once per scratch directory (rounds run TLC concurrently)
    if workdir not in _prepared:
      for f in os.listdir(SPEC_DIR):
        if f.endswith('.tla'):
          shutil.copy(os.path.join(SPEC_DIR, f), os.path.join(workdir, f))
      _prepared.add(workdir)
  meta = tempfile.mkdtemp(prefix='meta.', dir=workdir)   # unique per run: rounds run TLC concurrently
  cmd = ['java', '-XX:+UseSerialGC', '-Xmx8g']  # ParallelGC is pathological here (10x slower, measured)
  if dfs_queue:
    cmd.append('-Dtlc2.tool.queue.IStateQueue=StateDeque')
  cmd += list(java_opts)
  cmd += ['-cp', JAR, 'tlc2.TLC', '-metadir', meta, '-noGenerateSpecTE', '-config', cfg]
  cmd += ['-workers', str(workers or os.cpu_count() or 4)]
  if coverage:
    cmd += ['-coverage', '1']
  if simulate:
    cmd += ['-simulate', simulate]
  if depth:
    cmd += ['-depth', str(depth)]
  if seed is not None:
    cmd += ['-seed', str(seed)]
  cmd += list(extra)
  cmd.append(module)
  e = dict(os.environ)
  e.update(env or {})
  t0 = time.time()
  try:
    p = subprocess.run(cmd, cwd=workdir, env=e, capture_output=True, text=True, timeout=timeout)
  except subprocess.TimeoutExpired as ex:
    raise MachineryError('TLC timeout after %ss on %s: %s' % (timeout, module, (ex.stdout or '')[-2000:]))
  finally:
    shutil.rmtree(meta, ignore_errors=True)
  res = TlcResult(p.stdout + p.stderr, p.returncode, time.time() - t0)
  return res


def must_ok(res, what):
  """TLC finished without an evaluation error (violations are reported separately)."""
  if res.error or (not res.finished and not res.violated):
    raise MachineryError('TLC failed on %s (rc=%s): %s' % (what, res.rc, (res.error or res.out[-3000:])))
  return res


def sany(module_path):
  p = subprocess.run(['java', '-cp', JAR, 'tla2sany.SANY', module_path], capture_output=True, text=True,
                     cwd=os.path.dirname(module_path))
  ok = p.returncode == 0 and 'Semantic errors' not in p.stdout and 'Parse Error' not in p.stdout and '***Parse' not in p.stdout
  return ok, p.stdout + p.stderr
