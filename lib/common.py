"""Check context: tiers, seeds, evidence, violations, known findings, exit codes.

Exit 0: property held on everything explored (KNOWN-FINDING lines for listed defects).
Exit 1: `VIOLATION property=<id> replay=<path>` for every violation not listed.
Exit 2: machinery failure only.
"""
import hashlib
import json
import os
import sys
import time

VERIF = os.path.dirname(os.path.dirname(os.path.abspath(__file__)))
KNOWN_PATH = os.path.join(VERIF, 'known_findings.jsonl')
REPLAYS = os.path.join(VERIF, 'replays')
EVIDENCE = os.path.join(VERIF, 'evidence')


def load_known():
  out = []
  if os.path.exists(KNOWN_PATH):
    for line in open(KNOWN_PATH):
      line = line.strip()
      if line and not line.startswith('#'):
        out.append(json.loads(line))
  return out


def sig_matches(pattern, sig):
  """A known-finding pattern matches when every key it names has the listed value (or one of a list)."""
  for k, v in pattern.items():
    if k not in sig:
      return False
    if isinstance(v, list):
      if sig[k] not in v:
        return False
    elif sig[k] != v:
      return False
  return True


class Ctx:

  def __init__(self, prop, tier, seed, level, replay_path=None):
    self.prop = prop
    self.tier = tier
    self.seed = seed
    self.level = level
    self.replay_path = replay_path
    self.t0 = time.time()
    self.coverage = {}
    self.assumptions = []
    self.violations = []     # (sig, payload)
    self.known_hits = {}     # what -> count
    self.known = [k for k in load_known() if k.get('property') == prop and k.get('status') == 'known']
    self.notes = []
    self.samples = []

  @property
  def thorough(self):
    return self.tier == 'thorough'

  def log(self, *a):
    print('[%s %6.1fs]' % (self.prop, time.time() - self.t0), *a, flush=True)

  def sample(self, x, limit=5):
    if len(self.samples) < limit:
      self.samples.append(x)

  def violation(self, sig, payload):
    """Report one violating case.  sig: dict identifying the failing case; payload: replayable description."""
    for k in self.known:
      if sig_matches(k['sig'], sig):
        self.known_hits[k['what']] = self.known_hits.get(k['what'], 0) + 1
        return False
    self.violations.append((sig, payload))
    return True

  def add(self, key, n=1):
    self.coverage[key] = self.coverage.get(key, 0) + n

  def finish(self):
    os.makedirs(EVIDENCE, exist_ok=True)
    os.makedirs(REPLAYS, exist_ok=True)
    cov = dict(self.coverage)
    cov.setdefault('samples', self.samples[:5] or ['(no sample recorded)'])
    if self.notes:
      cov['notes'] = self.notes
    cov['known_findings_hit'] = self.known_hits
    ev = {'property_id': self.prop, 'tier': self.tier, 'seed': self.seed, 'level': self.level, 'coverage': cov,
          'assumptions': self.assumptions, 'wall_s': round(time.time() - self.t0, 1),
          'violations': len(self.violations)}
    if not self.replay_path and not os.environ.get('VERIF_NO_EVIDENCE'):   # seeded-mutation runs must not overwrite evidence
      with open(os.path.join(EVIDENCE, self.prop + '.json'), 'w') as f:
        json.dump(ev, f, indent=1, sort_keys=True, default=str)
    for what, n in sorted(self.known_hits.items()):
      print('KNOWN-FINDING: property=%s %s (%d case%s this run)' % (self.prop, what, n, '' if n == 1 else 's'))
    seen = set()
    for sig, payload in self.violations:
      key = json.dumps(sig, sort_keys=True, default=str)
      if key in seen:
        continue           # one replay file per distinct signature
      seen.add(key)
      h = hashlib.sha1(key.encode()).hexdigest()[:10]
      path = os.path.join(REPLAYS, '%s-%s.json' % (self.prop, h))
      with open(path, 'w') as f:
        json.dump({'property': self.prop, 'sig': sig, 'seed': self.seed, 'tier': self.tier, 'case': payload},
                  f, indent=1, sort_keys=True, default=str)
      print('VIOLATION property=%s replay=%s' % (self.prop, path))
      print('  signature: %s' % key)
      if len(seen) >= 25:
        print('  ... (%d violating cases in total; first 25 distinct signatures written)' % len(self.violations))
        break
    self.log('done: %d violation(s), %d known-finding hit(s), wall %.1fs' % (
        len(self.violations), sum(self.known_hits.values()), time.time() - self.t0))
    return 1 if self.violations else 0


def main(drivers):
  import argparse
  ap = argparse.ArgumentParser()
  ap.add_argument('prop')
  ap.add_argument('--tier', default=os.environ.get('VERIF_TIER') or 'quick', choices=['quick', 'thorough'])
  ap.add_argument('--replay')
  ap.add_argument('--selftest', action='store_true')
  a = ap.parse_args()
  seed = int(os.environ.get('VERIF_SEED') or 0)
  mod = drivers[a.prop]
  ctx = Ctx(a.prop, a.tier, seed, mod.LEVEL, a.replay)
  import tlc
  try:
    if a.selftest:
      ok = mod.selftest(ctx)
      print('SELFTEST %s %s' % (a.prop, 'ok' if ok else 'FAILED'))
      sys.exit(0 if ok else 2)
    if a.replay:
      case = json.load(open(a.replay))
      if isinstance(case.get('case'), dict) and case['case'].get('kind') == 'unclassified-exception':
        mod.run(ctx)        # no smaller unit than the whole check reproduces an exception nobody anticipated
      else:
        mod.replay(ctx, case)
    else:
      mod.run(ctx)
    sys.exit(ctx.finish())
  except tlc.MachineryError as e:
    print('MACHINERY-FAILURE %s: %s' % (a.prop, e))
    sys.exit(2)
  except SystemExit:
    raise
  except Exception as e:  # pylint: disable=broad-except
    import traceback
    text = traceback.format_exc()
    cause = e
    while cause is not None:      # a worker process re-raises with the remote traceback as text
      text += str(getattr(cause, '__cause__', '') or '')
      cause = getattr(cause, '__cause__', None)
    traceback.print_exc()
    # Where was it raised?  The innermost frame decides: an exception that escapes the code under test in a scenario in
    # which the unchanged tree raises none is an observation (the implementation left the behaviours the model allows);
    # an exception raised by the harness itself is a failure of the machinery, not a verdict about the property.
    frames = [l.strip() for l in text.splitlines() if l.strip().startswith('File "')]
    repo_root = os.environ.get('VERIF_REPO') or '/repo'
    if frames and (repo_root.rstrip('/') + '/vizier/') in frames[-1]:
      ctx.violation({'via': 'unclassified-exception', 'error': type(e).__name__, 'where': frames[-1].split('/vizier/', 1)[-1].split('"')[0]},
                    {'kind': 'unclassified-exception', 'error': '%s: %s' % (type(e).__name__, str(e)[:300]), 'raised_at': frames[-1], 'traceback_tail': text[-3000:]})
      print('NOTE: an exception escaped the code under test where the unchanged tree raises none; reported as a violation, the rest of this check did not run')
      sys.exit(ctx.finish())
    print('MACHINERY-FAILURE %s: unexpected exception in the driver (see traceback)' % a.prop)
    sys.exit(2)
