"""Crash-point injection for the SQL-backed servicer (C05).

Durability-relevant points of a call are numbered with public SQLAlchemy engine events (before_cursor_execute for
INSERT/UPDATE/DELETE, commit) plus the return of every DataStore method (the commit event fires BEFORE the DB-API
commit, so "just after commit" is observed at the method's return).  At point k the database file and its
-journal are copied - a process death loses exactly what is not in them - and the call is abandoned.
"""
import os
import shutil
import sqlite3

import sqlalchemy as sqla


class Crash(BaseException):
  verif_passthrough = True     # World.run must not turn the simulated process death into an error response


class Injector:

  def __init__(self, svc, db_path, crash_at=None, image_dir=None):
    self.svc = svc
    self.db_path = db_path
    self.crash_at = crash_at
    self.image_dir = image_dir
    self.n = 0
    self.events = []
    self.armed = False
    self.image = None
    eng = svc.datastore._engine  # pylint: disable=protected-access

    @sqla.event.listens_for(eng, 'before_cursor_execute')
    def _bce(conn, cursor, statement, parameters, context, executemany):
      head = statement.lstrip().split()[0].upper()
      if head in ('INSERT', 'UPDATE', 'DELETE'):
        self.point('stmt:' + head + ':' + statement.split()[2 if head != 'UPDATE' else 1])

    @sqla.event.listens_for(eng, 'commit')
    def _com(conn):
      self.point('commit')

    inner = svc.datastore
    inj = self

    class Proxy:

      def __getattr__(self, name):
        f = getattr(inner, name)
        if not callable(f):
          return f

        def wrapped(*a, **k):
          r = f(*a, **k)
          inj.point('return:' + name)
          return r
        return wrapped
    self._inner = inner
    svc.datastore = Proxy()

  def point(self, label):
    if not self.armed:
      return
    self.n += 1
    self.events.append(label)
    if self.crash_at is not None and self.n == self.crash_at:
      self.armed = False
      os.makedirs(self.image_dir, exist_ok=True)
      d = os.path.dirname(self.db_path)
      base = os.path.basename(self.db_path)
      for f in os.listdir(d):
        if f == base or f.startswith(base + '-'):
          shutil.copy(os.path.join(d, f), os.path.join(self.image_dir, f))
      self.image = os.path.join(self.image_dir, base)
      raise Crash()

  def run(self, fn):
    """Runs fn() with the injector armed; returns ('crashed', None) or ('returned', value)."""
    self.armed = True
    try:
      v = fn()
      return 'returned', v
    except Crash:
      return 'crashed', None
    finally:
      self.armed = False

  def close(self):
    self.svc.datastore = self._inner
    try:
      self._inner._connection.close()  # pylint: disable=protected-access
      self._inner._engine.dispose()  # pylint: disable=protected-access
    except Exception:  # pylint: disable=broad-except
      pass


def raw_scan(path):
  """Reads the five tables directly: every serialized proto must parse; counts orphan rows (no RPC would show them)."""
  from vizier._src.service import study_pb2
  from vizier._src.service import vizier_oss_pb2
  from google.longrunning import operations_pb2
  con = sqlite3.connect(path)
  out = {'unreadable': 0, 'orphan_trials': 0, 'orphan_suggestion_ops': 0, 'orphan_es_ops': 0, 'duplicate_trial_ids': 0}
  studies = set()
  for (name, blob) in con.execute('select study_name, serialized_study from studies'):
    try:
      study_pb2.Study.FromString(blob if isinstance(blob, bytes) else blob.encode('latin1'))
    except Exception:  # pylint: disable=broad-except
      out['unreadable'] += 1
    studies.add(name)
  seen = set()
  for (name, owner, sid, tid, blob) in con.execute('select trial_name, owner_id, study_id, trial_id, serialized_trial from trials'):
    try:
      study_pb2.Trial.FromString(blob if isinstance(blob, bytes) else blob.encode('latin1'))
    except Exception:  # pylint: disable=broad-except
      out['unreadable'] += 1
    if 'owners/%s/studies/%s' % (owner, sid) not in studies:
      out['orphan_trials'] += 1
    if (owner, sid, tid) in seen:
      out['duplicate_trial_ids'] += 1
    seen.add((owner, sid, tid))
  for table, proto, key in (('suggestion_operations', operations_pb2.Operation, 'orphan_suggestion_ops'),
                            ('early_stopping_operations', vizier_oss_pb2.EarlyStoppingOperation, 'orphan_es_ops')):
    for (owner, sid, blob) in con.execute('select owner_id, study_id, serialized_op from %s' % table):
      try:
        proto.FromString(blob if isinstance(blob, bytes) else blob.encode('latin1'))
      except Exception:  # pylint: disable=broad-except
        out['unreadable'] += 1
      if 'owners/%s/studies/%s' % (owner, sid) not in studies:
        out[key] += 1
  con.close()
  return out
