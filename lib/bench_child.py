"""Child process of C14's cross-process leg: runs fixed seeded benchmark configurations and prints one JSON line of digests.

Run with different PYTHONHASHSEED values and at different wall-clock offsets: the digests must be identical."""
import hashlib
import json
import sys
import time

import verif_boot  # noqa: F401


def main():
  offset = float(sys.argv[1]) if len(sys.argv) > 1 else 0.0
  prelude = int(sys.argv[2]) if len(sys.argv) > 2 else 0
  real = time.time
  time.time = lambda: real() + offset
  import numpy as np
  np.random.seed(int(offset) % 1000 + 7)
  from vizier._src.algorithms.designers import quasi_random
  from vizier._src.algorithms.designers import random as rnd
  from vizier._src.algorithms.designers.eagle_strategy import eagle_strategy
  from vizier._src.benchmarks.experimenters import experimenter_factory as ef
  from vizier._src.benchmarks.runners import benchmark_runner as br
  from vizier._src.benchmarks.runners import benchmark_state as bs
  facts = {'random': lambda p, seed=None: rnd.RandomDesigner(p.search_space, seed=seed),
           'quasi': lambda p, seed=None: quasi_random.QuasiRandomDesigner.from_problem(p, seed=seed),
           'eagle': lambda p, seed=None: eagle_strategy.EagleStrategyDesigner(p, seed=seed)}
  exps = {
      'plain': ef.BBOBExperimenterFactory('Sphere', 3),
      'permuted_noisy': ef.SingleObjectiveExperimenterFactory(ef.BBOBExperimenterFactory('Sphere', 4), categorical_dict={0: 3, 1: 4, 2: 3}, permute_categoricals=True,
                                                              permute_seed=3, noise_type='SEVERE_SELDOM_CAUCHY', noise_seed=5),
      'discrete_shifted': ef.SingleObjectiveExperimenterFactory(ef.BBOBExperimenterFactory('Sphere', 3), shift=np.asarray([0.5, -0.25, 1.0]), discrete_dict={1: 4},
                                                                noise_type='MODERATE_GAUSSIAN', noise_seed=9),
  }
  exps['rotated'] = ef.BBOBExperimenterFactory('RosenbrockRotated', 3, rotation_seed=2)
  exps['rotated_ridge'] = ef.BBOBExperimenterFactory('SharpRidge', 4, rotation_seed=3)
  if prelude:
    # "... or what other studies ran before in the same process": another study on the same functions and dimensions,
    # rotated by another seed, is evaluated first
    from vizier import pyvizier as vz
    for fname, dim in (('RosenbrockRotated', 3), ('SharpRidge', 4), ('DifferentPowers', 3), ('DifferentPowers', 4)):
      try:
        e = ef.BBOBExperimenterFactory(fname, dim, rotation_seed=prelude)()
        t = vz.Trial(parameters={pc.name: 0.5 for pc in e.problem_statement().search_space.parameters})
        e.evaluate([t])
      except Exception:  # pylint: disable=broad-except
        pass
  out = {}
  for ename, efac in exps.items():
    for dname, dfac in facts.items():
      for seed in (0, 11):
        try:
          state = bs.ExperimenterDesignerBenchmarkStateFactory(experimenter_factory=efac, designer_factory=dfac)(seed=seed)
          br.BenchmarkRunner([br.GenerateAndEvaluate(2), br.GenerateSuggestions(1), br.EvaluateActiveTrials(), br.GenerateAndEvaluate(3)] * 3, num_repeats=1).run(state)
          trials = sorted(state.algorithm.supporter.GetTrials(), key=lambda t: t.id)
          seq = [[t.id, sorted((k, repr(v.value)) for k, v in t.parameters.items()),
                  sorted((k, repr(m.value)) for k, m in (t.final_measurement.metrics.items() if t.final_measurement else []))] for t in trials]
          out['%s/%s/%d' % (ename, dname, seed)] = hashlib.sha1(json.dumps(seq).encode()).hexdigest()[:16] + ':%d' % len(trials)
        except Exception as e:  # pylint: disable=broad-except
          out['%s/%s/%d' % (ename, dname, seed)] = 'refused:%s' % type(e).__name__
  print('BENCH ' + json.dumps(out, sort_keys=True))


if __name__ == '__main__':
  main()
