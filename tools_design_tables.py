#!/usr/bin/env python3
"""Regenerates the tables of DESIGN.md 9.3 (findings) and 9.4 (seeded changes) from known_findings.jsonl and seeded/*/meta.json."""
import glob, json, re
p = '/verif/DESIGN.md'
s = open(p).read()
rows = []
for line in open('/verif/known_findings.jsonl'):
  line = line.strip()
  if not line or line.startswith('#'):
    continue
  d = json.loads(line)
  if d['status'] == 'fixed':
    rows.append('| %s | fixed `%s` | %s |' % (d['property'], d['commit'], d['text'].split(' ', 3)[3].replace('|', '/')))
  else:
    rows.append('| %s | **known** | %s |' % (d['property'], d['what'].replace('|', '/')))
seeds = []
for m in sorted(glob.glob('/verif/seeded/*/meta.json')):
  d = json.load(open(m))
  seeds.append('| %s | %s | %s | %s |' % (d['id'], d['property_broken'], ', '.join(d['confirmed']['detected_by']), d['needs_in_order_to_manifest'].replace('|', '/')))
s = re.sub(r'(\| property \| status \| what \|\n\|---\|---\|---\|\n)(?:\|.*\n)*', lambda m: m.group(1) + '\n'.join(rows) + '\n', s, count=1)
s = re.sub(r'(\| seed \| breaks \| caught by \| needs / what it taught \|\n\|---\|---\|---\|---\|\n)(?:\|.*\n)*', lambda m: m.group(1) + '\n'.join(seeds) + '\n', s, count=1)
open(p, 'w').write(s)
print(len(rows), 'findings,', len(seeds), 'seeds')
