#!/bin/bash
# tools_revert.sh <commit> <check ids...>: re-introduces one repaired defect (reverts its fix in a scratch worktree)
# and runs the named checks against it.  Never touches /repo.
C=$1; shift
WT=/tmp/wt_revert_$C
git -C /repo worktree remove --force $WT 2>/dev/null; rm -rf $WT
git -C /repo worktree add -q --detach $WT HEAD || exit 2
if ! git -C $WT revert --no-commit $C >/dev/null 2>&1; then echo "revert $C: CONFLICT (later fixes touch the same lines)"; git -C /repo worktree remove --force $WT; exit 0; fi
for c in "$@"; do
  ( cd /verif && VERIF_REPO=$WT VERIF_NO_EVIDENCE=1 timeout 3000 ./check $c > /tmp/revert_${C}_$c.log 2>&1 ); RC=$?
  echo "revert $C ($(git -C /repo log --format=%s -1 $C | cut -c1-70)): check $c exit $RC; $(grep -c '^VIOLATION' /tmp/revert_${C}_$c.log) VIOLATION lines; $(grep 'signature' /tmp/revert_${C}_$c.log | head -1 | cut -c1-160)"
done
git -C /repo worktree remove --force $WT; rm -rf $WT
