"""C01 - Trial lifecycle: only legal transitions, completed trials are immutable."""
import speca
import svc

LEVEL = 'model_checking'
K = svc.K
CORE = K - {'UpdateMetadata', 'GetStudy', 'GetTrial', 'ListTrials', 'ListStudies', 'GetOperation', 'ListOptimalTrials',
            'CheckEarlyStopping'}
EXPECT = [('CompleteTrial', 'None'), ('CompleteTrial', 'NotFound'), ('CompleteTrial', 'FailedPrecondition'),
          ('CompleteTrial', 'Unknown'), ('AddMeasurement', 'None'), ('AddMeasurement', 'FailedPrecondition'),
          ('StopTrial', 'None'), ('StopTrial', 'FailedPrecondition'), ('DeleteTrial', 'None'), ('DeleteTrial', 'NotFound'),
          ('CreateTrial', 'None'), ('CreateTrial', 'NotFound'), ('CreateTrial', 'FailedPrecondition'),
          ('SuggestTrials', 'FailedPrecondition')]


def rounds(ctx):
  if not ctx.thorough:
    return [
        dict(name='core_d4', consts=speca.constants(MaxDepth=4, MaxDeliver=2, Kinds=CORE), expect=EXPECT,
             backends={'ram': 1.0, 'sqlmem': 0.25}),
        dict(name='all_d3_two_studies', consts=speca.constants(MaxDepth=3, MaxDeliver=2, Studies={'s1', 's2'}, Cells={'c1'}),
             backends={'ram': 1.0, 'sqlmem': 0.5}),
        dict(name='two_owners_same_study_id_d5', consts=speca.constants(
            MaxDepth=5, MaxDeliver=1, MaxCount=1, MaxId=1, Studies={'s1', 's2'}, Clients={'w1'}, Params={'p1'}, Meas={'m1'}, SharedStudyId=True,
            Kinds={'CreateStudy', 'SuggestTrials', 'CompleteTrial', 'AddMeasurement', 'DeleteTrial', 'StopTrial'}),
             backends={'ram': 1.0, 'sqlmem': 1.0}),
        dict(name='es_recycle_d4', consts=speca.constants(
            MaxDepth=4, MaxDeliver=1, MaxCount=1, Recycle='always', Clients={'w1'}, Params={'p1'}, Meas={'m1'},
            Kinds={'CreateStudy', 'SuggestTrials', 'CheckEarlyStopping', 'StopTrial', 'CompleteTrial', 'SetStudyState'}),
             expect=[('CheckEarlyStopping', 'None'), ('CheckEarlyStopping', 'FailedPrecondition'), ('CheckEarlyStopping', 'Unknown')],
             backends={'ram': 1.0, 'sqlmem': 1.0}),
    ]
  return [
      dict(name='core_d5', consts=speca.constants(MaxDepth=5, MaxDeliver=2, Kinds=CORE - {'DeleteStudy'}), expect=EXPECT,
           backends={'ram': 1.0, 'sqlmem': 0.2}),
      dict(name='all_d4', consts=speca.constants(MaxDepth=4, MaxDeliver=2, Meas={'m1', 'm2', 'mp'}),
           backends={'ram': 1.0, 'sqlmem': 0.3, 'sqlfile': 0.05}),
      dict(name='all_d3_two_studies', consts=speca.constants(MaxDepth=3, MaxDeliver=3, Studies={'s1', 's2'}, Cells={'c1', 'c2'},
                                                              Cfgs={'max1', 'maxmin2'}),
           backends={'ram': 1.0, 'sqlmem': 1.0}),
      dict(name='es_recycle_d5', consts=speca.constants(
          MaxDepth=5, MaxDeliver=1, MaxCount=1, Recycle='always', Clients={'w1'}, Params={'p1'}, Meas={'m1'},
          Kinds={'CreateStudy', 'SuggestTrials', 'CheckEarlyStopping', 'StopTrial', 'CompleteTrial', 'SetStudyState'}),
           backends={'ram': 1.0, 'sqlmem': 1.0}),
      dict(name='two_owners_same_study_id_d6', consts=speca.constants(
          MaxDepth=6, MaxDeliver=1, MaxCount=1, MaxId=2, Studies={'s1', 's2'}, Clients={'w1'}, Params={'p1'}, Meas={'m1'}, SharedStudyId=True,
          Kinds={'CreateStudy', 'SuggestTrials', 'CompleteTrial', 'AddMeasurement', 'DeleteTrial', 'SetStudyState', 'DeleteStudy', 'CreateTrial',
                 'UpdateMetadata', 'StopTrial'}),
           # 803 826 histories: all of them on RAM (3 min), a tenth on SQLite (5 ms per history: the full set took over an hour)
           backends={'ram': 1.0, 'sqlmem': 0.1}),
      dict(name='maxid4_d4', consts=speca.constants(MaxDepth=4, MaxId=4, MaxCount=3, MaxDeliver=3, Params={'p1'}, Meas={'m1'},
                                                    Kinds={'CreateStudy', 'SuggestTrials', 'CreateTrial', 'CompleteTrial',
                                                           'DeleteTrial', 'StopTrial', 'AddMeasurement'}),
           backends={'ram': 1.0}),
  ]


def walks(ctx):
  conf = {'Studies': ['s1', 's2'], 'Clients': ['w1', 'w2'], 'MaxId': 10, 'Cells': ['c1', 'c2'], 'Recycle': 'never'}
  n = 600 if ctx.thorough else 150
  shared = dict(conf, SharedStudyId=True)
  return [dict(name='mixed', conf=conf, n=n, length=40, kinds=speca.ALL_KINDS, opts={'AlgoMeta': True, 'Meas': ['m1', 'm2', 'm3', 'mp']},
               backends=['ram', 'sqlmem'] + (['sqlfile'] if ctx.thorough else [])),
          dict(name='two_owners_same_study_id', conf=shared, n=n // 2, length=40, kinds=[k for k in speca.ALL_KINDS if k != 'ListStudies'],
               opts={'AlgoMeta': True}, backends=['sqlmem', 'ram'])]


def run(ctx):
  ctx.assumptions += [
      'environment shims (in-memory proto compiler, equinox stand-in) are faithful: re-checked by setup self-test',
      'projection drops timestamps, error message texts and list order only (DESIGN 3.1)',
      'the algorithm is scripted through the public PolicyFactory parameter',
  ]
  svc.run_rounds(ctx, 'C01', rounds(ctx), walks(ctx))
  if True:
    # the repository's own service tests, recorded and judged by VizierTraceLite.tla (step predicates of this property)
    import c01_repotests
    import tlc
    with tlc.Scratch('c01_repotests') as d:
      layer = c01_repotests.run(ctx, d)
    ctx.coverage['traces_validated_against_impl'] = ctx.coverage.get('traces_validated_against_impl', 0) + layer['servicers_recorded']


def replay(ctx, case):
  svc.replay_case(ctx, case, 'C01')
