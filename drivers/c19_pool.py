"""C19, seeding of the eagle pool from prior points: spec/EaglePool.tla replayed into
VectorizedEagleStrategy._populate_pool_with_prior_trials, pool compared slot by slot."""
import collections
import os

import verif_boot  # noqa: F401
import numpy as np
import tlc


def rounds(thorough):
  if not thorough:
    return [dict(K=2, NMin=1, NMax=4, P=4, R=2, sample=6000)]
  return [dict(K=2, NMin=1, NMax=5, P=4, R=2, sample=None), dict(K=3, NMin=4, NMax=5, P=3, R=2, sample=None)]


def model_round(r, workdir):
  cfg = os.path.join(workdir, 'EP_K%d_N%d.cfg' % (r['K'], r['NMax']))
  tlc.write_cfg(cfg, constants={k: r[k] for k in ('K', 'NMin', 'NMax', 'P', 'R')},
                invariants=['BestPriorSurvives', 'NoDuplicateSlots'], properties=['SlotRewardsNeverDecrease'], constraints=['Dump'])
  res = tlc.must_ok(tlc.run_tlc('EaglePool', cfg, workdir, workers=1, timeout=3000), 'EaglePool')
  if res.violated:
    raise tlc.MachineryError('EaglePool model violates %s:\n%s' % (res.violated, res.trace_text()[:2000]))
  seen = {}
  for x in res.printed_json():
    seen.setdefault(repr(x['pri']), x)
  return res, list(seen.values())


def make_strategy(K):
  from vizier import pyvizier as vz
  from vizier._src.algorithms.optimizers import eagle_strategy as es
  from vizier.pyvizier import converters
  problem = vz.ProblemStatement()
  problem.search_space.root.add_float_param('x', 0.0, 1.0)
  problem.metric_information.append(vz.MetricInformation('m', goal=vz.ObjectiveMetricGoal.MAXIMIZE))
  conv = converters.TrialToModelInputConverter.from_problem(problem)
  cfg = es.EagleStrategyConfig(pool_size=2 * K, prior_trials_pool_pct=0.5)
  return es.VectorizedEagleStrategyFactory(eagle_config=cfg)(conv, suggestion_batch_size=K)


def replay(recs, K, P):
  """Returns list of (rec, got_positions, expected_positions) for the records whose real pool differs."""
  import jax
  import jax.numpy as jnp
  from vizier._src.jax import types
  strat = make_strategy(K)
  seed = jax.random.PRNGKey(3)
  fns = {}
  bad = []
  n_ok = 0
  for rec in recs:
    pri = rec['pri']
    n = len(pri)
    # the method takes the priors oldest first and flips them itself
    chron = list(reversed(pri))
    pos = np.asarray([[[p['pos'] / 8.0]] for p in chron], dtype=np.float32)
    rew = np.asarray([float(p['rew']) for p in chron], dtype=np.float32)
    if n not in fns:
      fns[n] = jax.jit(lambda c, r: strat._populate_pool_with_prior_trials(
          seed, types.ContinuousAndCategoricalArray(c, jnp.zeros(c.shape[:2] + (0,), dtype=types.INT_DTYPE)), r))
    feats = fns[n](jnp.asarray(pos), jnp.asarray(rew))
    pool = np.asarray(feats.continuous)[:, 0, 0]
    slots = pool[len(pool) - K:]
    exp = [pri[c - 1]['pos'] / 8.0 if c else None for c in rec['chosen']]
    got = [float(v) for v in slots]
    ok = all(e is None or abs(g - np.float32(e)) < 1e-7 for g, e in zip(got, exp))
    if ok:
      n_ok += 1
    else:
      bad.append((rec, got, exp))
  return n_ok, bad


def run(ctx, workdir):
  import random
  rng = random.Random(ctx.seed + 19)
  layer = {'rounds': [], 'states': 0, 'transitions': 0, 'replayed': 0}
  for r in rounds(ctx.thorough):
    res, recs = model_round(r, workdir)
    layer['states'] += res.distinct
    layer['transitions'] += res.generated
    chains = [x for x in recs if len(x['pri']) >= r['K'] + 2]
    use = recs
    if r['sample'] and len(recs) > r['sample']:
      # keep every short sequence, sample the long ones
      short = [x for x in recs if len(x['pri']) < r['K'] + 2]
      use = short + rng.sample(chains, max(0, r['sample'] - len(short)))
    n_ok, bad = replay(use, r['K'], r['P'])
    layer['replayed'] += len(use)
    layer['rounds'].append({'K': r['K'], 'NMax': r['NMax'], 'prior_sequences_enumerated': len(recs), 'replayed': len(use),
                            'with_overflow_of_two_or_more': len([x for x in use if len(x['pri']) >= r['K'] + 2]), 'pool_differs': len(bad),
                            'distinct_states': res.distinct})
    ctx.log('  eagle pool seeding K=%d: TLC %d states, %d prior sequences, %d replayed, %d differ' % (r['K'], res.distinct, len(recs), len(use), len(bad)))
    by = collections.Counter()
    for rec, got, exp in bad:
      best = max(p['rew'] for p in rec['pri'])
      kept = [p for p in rec['pri'] if any(abs(p['pos'] / 8.0 - g) < 1e-6 for g in got)]
      lost_best = not any(p['rew'] == best for p in kept)
      what = 'best_prior_lost' if lost_best else 'pool_differs'
      by[what] += 1
      if what == 'pool_differs':
        # another way of choosing which priors to keep is not a violation of C19 as long as a best prior is kept
        continue
      if by[what] <= 3:
        ctx.violation({'via': 'eagle-pool', 'verdict': what, 'n_priors': len(rec['pri'])},
                      {'kind': 'eagle-pool', 'K': r['K'], 'P': r['P'], 'priors_most_recent_first': rec['pri'], 'expected_pool_positions': exp,
                       'observed_pool_positions': got})
    layer['rounds'][-1]['differs_but_keeps_a_best_prior'] = by['pool_differs']
    if by['pool_differs']:
      ctx.notes.append('eagle pool seeding differs from EaglePool.tla on %d prior sequences while keeping a best prior (not a violation)' % by['pool_differs'])
  ctx.coverage['eagle_pool_seeding'] = layer
  return layer
