"""C13 - A restarted stateful algorithm continues exactly like one that never stopped."""
import c03

LEVEL = 'model_checking'


def run(ctx):
  c03.run_generic(ctx, 'C13')
  import c13_grid
  c13_grid.run(ctx)


def replay(ctx, case):
  run(ctx)
