"""C12 - Algorithms get each completed trial exactly once, and all active trials."""
import collections
import os

import verif_boot  # noqa: F401
import replay as replay_mod
import tlc

LEVEL = 'model_checking'
PROPS = ['ExactlyOnce', 'NothingMissedForever']
INVS = ['UpdateShape']
ALL_ACTS = {'suggest', 'complete', 'add', 'request', 'delete', 'stop', 'restart', 'bump'}


def configs(ctx):
  base = dict(Studies={'s1'}, Clients={'w1', 'w2'}, MaxId=3, Cells={'c1'}, Recycle='never', MaxCount=2)
  if not ctx.thorough:
    return [('stateful_full', dict(base, Mode='stateful', MaxDepth=12, Acts=ALL_ACTS - {'stop', 'restart', 'bump'}, Clients={'w1'}), ['ram'], 1.0),
            ('stateful_bump_d6', dict(base, Mode='stateful', MaxDepth=6, Acts={'suggest', 'complete', 'add', 'bump'}, Clients={'w1'}), ['ram'], 1.0),
            ('stateful_restart_d5', dict(base, Mode='stateful', MaxDepth=5, Acts=ALL_ACTS - {'bump'}, Clients={'w1'}), ['sqlfile'], 0.15),
            ('fresh_d5', dict(base, Mode='fresh', MaxDepth=5, Acts=ALL_ACTS - {'restart', 'bump'}), ['ram'], 0.3)]
  return [('stateful_full', dict(base, Mode='stateful', MaxDepth=14, Acts=ALL_ACTS - {'restart', 'bump'}), ['ram', 'sqlmem'], 1.0),
          ('stateful_bump_d7', dict(base, Mode='stateful', MaxDepth=7, Acts={'suggest', 'complete', 'add', 'bump', 'delete'}, Clients={'w1'}), ['ram'], 1.0),
          ('stateful_maxid4', dict(base, Mode='stateful', MaxDepth=9, MaxId=4, Acts=ALL_ACTS - {'stop', 'restart'}, Clients={'w1'}), ['ram'], 0.5),
          ('stateful_restart_d6', dict(base, Mode='stateful', MaxDepth=6, Acts=ALL_ACTS - {'bump'}, Clients={'w1'}), ['sqlfile'], 0.1),
          ('fresh_d6', dict(base, Mode='fresh', MaxDepth=6, Acts=ALL_ACTS - {'restart', 'bump'}), ['ram'], 0.3)]


FORMAT = [0]


def make_factory(mode, log):
  from vizier import algorithms as vza
  from vizier import pyvizier as vz
  from vizier._src.algorithms.policies import designer_policy

  class RecordingDesigner(vza.PartiallySerializableDesigner):
    """Implements the designer interface; remembers nothing itself: the policy's cache is what is under test."""

    def __init__(self, problem, **kwargs):
      del kwargs
      self._problem = problem

    def update(self, completed, all_active):
      log.append({'completed': sorted(t.id for t in completed.trials), 'active': sorted(t.id for t in all_active.trials)})

    def suggest(self, count=None):
      return [vz.TrialSuggestion({'x': 0.25}) for _ in range(count or 1)]

    def dump(self):
      md = vz.Metadata()
      md['recording'] = 'format-%d' % FORMAT[0]
      return md

    def load(self, md):
      # state written by another format version is undecodable (model action "Bump")
      if md.get('recording') != 'format-%d' % FORMAT[0]:
        from vizier.interfaces import serializable
        raise serializable.HarmlessDecodeError('no state / other format')

  class Factory:

    def __call__(self, problem, algo, supporter, name):
      if mode == 'fresh':
        return designer_policy.DesignerPolicy(supporter, RecordingDesigner, use_seeding=False)
      return designer_policy.PartiallySerializableDesignerPolicy(problem, supporter, RecordingDesigner)

  return Factory()


def run_history(hist, conf, mode, backend, scratch):
  import world
  from vizier._src.service import pythia_service
  log = []
  FORMAT[0] = 0
  factory = make_factory(mode, log)
  url = world.backend_url(backend, scratch)
  svc = world.make_servicer(url, 'never', factory)
  w = world.World(conf, svc=svc, backend=backend)
  w.run({'rpc': 'CreateStudy', 's': 's1', 'cfg': 'max1'})
  before = 0
  for c in hist:
    before = len(log)
    if c['rpc'] == 'Bump':
      FORMAT[0] += 1
      continue
    if c['rpc'] == 'Restart':
      if backend == 'sqlfile':
        svc.datastore._engine.dispose()  # pylint: disable=protected-access
        svc = world.make_servicer(url, 'never', factory)
        w = world.World(conf, svc=svc, backend=backend, owner=w.owner_id)
      else:
        svc.default_pythia_service = pythia_service.PythiaServicer(svc, policy_factory=factory)
      continue
    resp = w.run(c)
  new = log[before:]
  if len(new) > 1:
    upd = {'consulted': True, 'completed': ['MULTIPLE-UPDATES'], 'active': []}
  elif new:
    upd = {'consulted': True, 'completed': new[0]['completed'], 'active': new[0]['active']}
  else:
    upd = {'consulted': False, 'completed': [], 'active': []}
  trials = w.project()['trial']['s1']
  if backend == 'sqlfile':
    try:
      svc.datastore._engine.dispose()  # pylint: disable=protected-access
      os.unlink(url[len('sqlite:///'):])
    except OSError:
      pass
  return upd, trials


def classify(hist):
  """Does this history delete the largest id and let a later trial reuse it (F14's precondition)?"""
  ids = set()
  reuse = False
  maxseen = 0
  for c in hist:
    pass
  return reuse


_CFG = {}


def _init(conf, mode, backend, scratch):
  _CFG.update(conf=conf, mode=mode, backend=backend, scratch=scratch)


def _chunk(recs):
  out = []
  for i, r in recs:
    upd, trials = run_history(r['hist'], _CFG['conf'], _CFG['mode'], _CFG['backend'], _CFG['scratch'])
    out.append((i, upd, trials))
  return out


def racing_completion(ctx):
  """A stateful policy reads the study twice inside one SuggestTrials (newly completed trials, then ACTIVE ones) with
  nothing but the order of the two reads between it and a concurrent CompleteTrial.  The completion is injected right
  after the k-th listing of the racing call; whatever k, no update may hold a trial both as completed and as active, and
  over the following requests the trial is delivered as completed exactly once."""
  import world
  conf = {'Studies': ['s1'], 'Clients': ['w1', 'w2'], 'MaxId': 4, 'Cells': ['c1'], 'Recycle': 'never'}

  def sug(w):
    return {'rpc': 'SuggestTrials', 's': 's1', 'w': w, 'n': 1, 'env': {'raise': False, 'ps': ['p1'], 'md': {'c1': 'None'}}}
  n = 0
  for mode in ('stateful', 'fresh'):
    for k in (1, 2, 3, 4):
      log = []
      FORMAT[0] = 0
      svc = world.make_servicer(None, 'never', make_factory(mode, log))
      w = world.World(conf, svc=svc, backend='ram')
      w.run({'rpc': 'CreateStudy', 's': 's1', 'cfg': 'max1'})
      w.run(sug('w1'))                      # trial 1, ACTIVE, held by w1
      orig = svc.ListTrials
      state = {'count': 0, 'fired': False}

      def listing(request, context=None, orig=orig, state=state, w=w, k=k):
        r = orig(request, context)
        state['count'] += 1
        if not state['fired'] and state['count'] == k:
          state['fired'] = True
          w.run({'rpc': 'CompleteTrial', 's': 's1', 't': 1, 'f': 'm1', 'inf': False, 'reason': ''})
        return r
      svc.ListTrials = listing
      first = len(log)
      w.run(sug('w2'))                      # the racing call
      svc.ListTrials = orig
      w.run(sug('w1'))                      # w1's trial is completed: a fresh consultation
      w.run({'rpc': 'CompleteTrial', 's': 's1', 't': 2, 'f': 'm1', 'inf': False, 'reason': ''})
      w.run(sug('w2'))
      n += 1
      if not state['fired']:
        continue                            # fewer than k listings in that call: nothing was injected
      updates = log[first:]
      both = [u for u in updates if set(u['completed']) & set(u['active'])]
      times = sum(1 for u in updates if 1 in u['completed'])
      what = None
      if both:
        what = 'completed-and-active-in-one-update'
      elif mode == 'stateful' and times != 1:
        what = 'completed-twice' if times > 1 else 'completed-missed'
      elif mode == 'fresh' and not (updates and 1 in updates[-1]['completed']):
        what = 'completed-missed'
      if what:
        ctx.violation({'via': 'racing-completion', 'mode': mode, 'what': what},
                      {'kind': 'racing-completion', 'mode': mode, 'inject_after_listing': k, 'updates': updates})
  ctx.coverage['racing_completion'] = {'scenarios': n, 'modes': ['stateful', 'fresh'], 'injection_points': [1, 2, 3, 4]}
  ctx.log('  racing completion: %d scenarios (CompleteTrial injected after the k-th listing of a SuggestTrials)' % n)


def run(ctx, only=None):
  import concurrent.futures as cf
  import multiprocessing
  import random
  import world  # noqa: F401  (import before fork)
  cov = ctx.coverage
  cov.update({'states': 0, 'transitions': 0, 'traces_validated_against_impl': 0, 'configs': []})
  rng = random.Random(ctx.seed + 31)
  nontrivial = set()
  with tlc.Scratch('c12') as d:
    for name, consts, backends, frac in configs(ctx):
      cfg = os.path.join(d, name + '.cfg')
      tlc.write_cfg(cfg, constants=consts, invariants=INVS, properties=PROPS, constraints=['Dump'], view='View')
      res = tlc.must_ok(tlc.run_tlc('Delivery', cfg, d, workers=1), 'Delivery/' + name)
      if res.violated:
        raise tlc.MachineryError('Delivery model violates %s:\n%s' % (res.violated, res.trace_text()[:2000]))
      recs = [r for r in res.printed_json() if r['hist']]
      if len(recs) != res.generated - 1:
        raise tlc.MachineryError('Delivery dump incomplete: %d vs %d' % (len(recs), res.generated - 1))
      consulted = sum(1 for r in recs if r['upd']['consulted'])
      nonempty = sum(1 for r in recs if r['upd']['completed'])
      if not consulted or not nonempty:
        raise tlc.MachineryError('vacuous Delivery config %s' % name)
      cov['states'] += res.distinct
      cov['transitions'] += len(recs)
      conf = {'Studies': ['s1'], 'Clients': sorted(consts['Clients']), 'MaxId': consts['MaxId'], 'Cells': ['c1'], 'Recycle': 'never'}
      ctx.log('config %s: TLC %d distinct / %d transitions (%d consult the algorithm, %d deliver completed trials), max history %d' % (
          name, res.distinct, len(recs), consulted, nonempty, max(len(r['hist']) for r in recs)))
      entry = {'name': name, 'mode': consts['Mode'], 'distinct_states': res.distinct, 'transitions': len(recs),
               'consulting_transitions': consulted, 'exhaustive_reachable_graph': consts['MaxDepth'] >= 12, 'replay': {}}
      for backend in backends:
        chosen = [(i, r) for i, r in enumerate(recs) if frac >= 1 or rng.random() < frac]
        n = max(1, len(chosen) // 64 + 1)
        chunks = [chosen[k:k + n] for k in range(0, len(chosen), n)]
        bad = 0
        with cf.ProcessPoolExecutor(max_workers=16, mp_context=multiprocessing.get_context('fork'), initializer=_init,
                                    initargs=(conf, consts['Mode'], backend, d)) as ex:
          for out in ex.map(_chunk, chunks):
            for i, upd, trials in out:
              r = recs[i]
              cov['traces_validated_against_impl'] += 1
              nontrivial.add(replay_mod.canon(r['hist']))
              if upd != r['upd'] or trials != r['trial']:
                bad += 1
                missed = sorted(set(r['upd']['completed']) - set(upd['completed']))
                extra = sorted(set(upd['completed']) - set(r['upd']['completed']))
                # the model's ghost: ids whose previous incarnation had already been delivered (id reuse)
                only_stale = bool(missed) and set(missed) <= set(r.get('stale', []))
                sig = {'via': 'delivery', 'mode': consts['Mode'],
                       'what': ('state' if upd == r['upd'] else 'completed-missed' if missed and not extra else
                                'completed-twice' if extra and not missed else 'active' if upd['completed'] == r['upd']['completed'] else 'other'),
                       'missed_ids_all_reused_after_delivery': only_stale}
                ctx.violation(sig, {'kind': 'delivery', 'mode': consts['Mode'], 'backend': backend, 'conf': conf, 'hist': r['hist'],
                                    'expected_update': r['upd'], 'observed_update': upd, 'expected_trials': r['trial'], 'observed_trials': trials})
        entry['replay'][backend] = {'histories': len(chosen), 'divergences': bad}
        ctx.log('  replay %s: %d histories, %d divergences' % (backend, len(chosen), bad))
      cov['configs'].append(entry)
      ctx.sample({'config': name, 'history': [c['rpc'] + (':%s' % c.get('t', c.get('n', ''))) for c in recs[len(recs) // 2]['hist']],
                  'expected_update': recs[len(recs) // 2]['upd']})
    # the views the delivery rule reads through (spec/TrialView.tla)
    import c12_view
    c12_view.run(ctx, d)
    racing_completion(ctx)
  cov['distinct_nontrivial'] = len(nontrivial)
  cov['evaluations'] = cov['traces_validated_against_impl']
  cov['rule'] = 'a case is one call history on the real service with a recording designer registered through PolicyFactory; distinct by call sequence'
  cov['exhaustive'] = True


def replay(ctx, case):
  c = case['case']
  if c.get('kind') == 'racing-completion':
    racing_completion(ctx)
    ctx.coverage.update({'states': 1, 'transitions': 1, 'traces_validated_against_impl': 1})
    return
  if c.get('kind') == 'trial-view':
    import c12_view
    return c12_view.replay(ctx, c)
  with tlc.Scratch('c12') as d:
    upd, trials = run_history(c['hist'], c['conf'], c['mode'], c['backend'], d)
  if upd != c['expected_update'] or trials != c['expected_trials']:
    ctx.violation({'via': 'delivery', 'mode': c['mode']}, c)
    print('replay: designer.update received %s, model expects %s' % (upd, c['expected_update']))
  else:
    print('replay: delivery now matches the model')
  ctx.coverage.update({'states': 1, 'transitions': 1, 'traces_validated_against_impl': 1})
