"""C11 - Optimal trials are exactly the non-dominated completed trials."""
import speca
import svc

LEVEL = 'model_checking'
OK_ = {'CreateStudy', 'SuggestTrials', 'CompleteTrial', 'CreateTrial', 'ListOptimalTrials', 'DeleteTrial'}
EXPECT = [('ListOptimalTrials', 'None'), ('ListOptimalTrials', 'NotFound'), ('CompleteTrial', 'None'), ('CreateTrial', 'None')]


def rounds(ctx):
  if not ctx.thorough:
    return [
        dict(name='optimal_added_d4', consts=speca.constants(
            MaxDepth=4, MaxId=3, Clients={'w1'}, Params={'p1'}, Meas={'m1', 'm2', 'm3', 'mp', 'mn', 'mi', 'mj'}, Cfgs={'max1', 'min1', 'maxmin2'},
            Kinds={'CreateStudy', 'CreateTrial', 'ListOptimalTrials'}),
             expect=EXPECT[:2], backends={'ram': 1.0, 'sqlmem': 0.3}, relevant={'ListOptimalTrials'}),
        dict(name='optimal_lifecycle_d5', consts=speca.constants(
            MaxDepth=5, MaxId=2, MaxCount=2, MaxDeliver=2, Clients={'w1'}, Params={'p1'}, Meas={'m1', 'm2', 'mp'}, Cfgs={'maxmin2'},
            Kinds={'CreateStudy', 'SuggestTrials', 'CompleteTrial', 'ListOptimalTrials'}),
             expect=EXPECT[:3], backends={'ram': 1.0, 'sqlmem': 0.2}, relevant={'ListOptimalTrials'}),
    ]
  return [
      dict(name='optimal_added_d5', consts=speca.constants(
          MaxDepth=5, MaxId=4, Clients={'w1'}, Params={'p1'}, Meas={'m1', 'm2', 'm3', 'mp', 'mn'}, Cfgs={'max1', 'min1', 'maxmin2'},
          Kinds={'CreateStudy', 'CreateTrial', 'ListOptimalTrials'}),
           expect=EXPECT[:2], backends={'ram': 1.0, 'sqlmem': 0.3}, relevant={'ListOptimalTrials'}),
      dict(name='optimal_lifecycle_d5', consts=speca.constants(
          MaxDepth=5, MaxId=3, MaxCount=2, MaxDeliver=2, Clients={'w1'}, Params={'p1'}, Meas={'m1', 'm2', 'mp', 'mn'}, Cfgs={'maxmin2', 'min1'},
          Kinds=OK_),
           expect=EXPECT, backends={'ram': 1.0, 'sqlmem': 0.2}, relevant={'ListOptimalTrials'}),
  ]


def walks(ctx):
  conf = {'Studies': ['s1'], 'Clients': ['w1', 'w2'], 'MaxId': 12, 'Cells': ['c1'], 'Recycle': 'never'}
  kinds = ['ListOptimalTrials'] * 3 + ['CreateTrial'] * 3 + ['SuggestTrials'] * 2 + ['CompleteTrial'] * 3 + ['DeleteTrial', 'AddMeasurement']
  n = 400 if ctx.thorough else 100
  out = []
  for cfg in ('max1', 'min1', 'maxmin2'):
    out.append(dict(name='optimal_' + cfg, conf=conf, n=n // 3 + 1, length=40, kinds=kinds,
                    opts={'Cfgs': [cfg], 'Meas': ['m1', 'm2', 'm3', 'mp', 'mn', 'mi', 'mj']}, backends=['ram'] + (['sqlmem'] if cfg == 'maxmin2' else [])))
  return out


def run(ctx):
  import c11_pareto
  ctx.assumptions += [
      'measurement tokens: m1=(a1,b2) m2=(a2,b1) m3=(a1,b1) mp=(a2, b missing) mn=(a NaN, b1); goals max1/min1/maxmin2',
      'library routines are fed every ordered arrangement (sampled above 6 per multiset in quick) of every point multiset of the grid',
  ]
  svc.run_rounds(ctx, 'C11', rounds(ctx), walks(ctx))
  c11_pareto.run(ctx)
  import c11_survival
  import tlc
  with tlc.Scratch('c11s') as d:
    sl = c11_survival.run(ctx, d)
  ctx.coverage['states'] = ctx.coverage.get('states', 0) + sl['states']
  ctx.coverage['traces_validated_against_impl'] = ctx.coverage.get('traces_validated_against_impl', 0) + sl['replayed']
  c11_best.run(ctx)


def replay(ctx, case):
  k = case['case'].get('kind')
  if k == 'survival':
    import c11_survival
    return c11_survival.replay(ctx, case['case'])
  if k == 'pareto':
    import c11_pareto
    c11_pareto.run(ctx, only=case['case'])
    return
  if k == 'best':
    c11_best.run(ctx)
    ctx.coverage.update({'states': 1, 'transitions': 1, 'traces_validated_against_impl': 1})
    return
  svc.replay_case(ctx, case, 'C11')


import c11_best  # noqa: E402
