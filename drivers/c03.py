"""C03 - Every suggestion lies inside the search space, for every algorithm."""
import collections

import designers

LEVEL = 'exploration'
IDX = {'C03': 0, 'C13': 1, 'C14': 2}


def run_generic(ctx, which):
  obs, meta, verdicts, res, jres = designers.collect(ctx, which)
  counts = collections.Counter()
  refusals = collections.Counter()
  nsug = 0
  for o, m, v in zip(obs, meta, verdicts):
    verdict = v[IDX[which]]
    counts[verdict] += 1
    nsug += sum(len(o['runs'][r]) for r in 'ABCD')
    if m['refusal']:
      refusals['%s/%s' % (m['algorithm'], m['shape'])] += 1
    if verdict != 'ok':
      ctx.violation({'via': 'designer-session', 'algorithm': m['algorithm'], 'verdict': verdict, 'shape': m['shape']},
                    {'kind': 'designer', 'algorithm': m['algorithm'], 'shape': m['shape'], 'schedule': m['schedule'], 'seed': m['seed'], 'verdict': verdict,
                     'first_suggestions_A': o['runs']['A'][:3], 'first_suggestions_B': o['runs']['B'][:3]})
  by_algo = collections.Counter(m['algorithm'] for m in meta)
  ctx.log('  %d sessions (%s); verdicts %s; refusals %s' % (len(obs), dict(by_algo), dict(counts), dict(refusals)))
  ctx.coverage.update({'evaluations': len(obs), 'distinct_nontrivial': len({(m['algorithm'], m['shape'], tuple(m['schedule'])) for m in meta}),
                       'states': res.distinct, 'transitions': res.generated, 'traces_validated_against_impl': len(obs),
                       'rule': 'one case = (algorithm, space shape, schedule, seed) run on the real designer (live / restarted / perturbed / other seed); '
                               'schedules enumerated by TLC (DesignerSession.tla), sampled per (algorithm, shape); distinct by that triple; all non-trivial (>= 2 suggest steps)',
                       'sessions_per_algorithm': dict(by_algo), 'suggestions_judged': nsug, 'verdicts': dict(counts), 'refusals': dict(refusals), 'exhaustive': False})
  for m in meta[:3]:
    ctx.sample({k: m[k] for k in ('algorithm', 'shape', 'schedule', 'seed')})
  ctx.assumptions += ['GP designers (DEFAULT, GAUSSIAN_PROCESS_BANDIT) and BOCS/HARMONICA are not run in this tier (minutes per suggestion under the equinox stand-in; BOCS broken by the image numpy)',
                      'magnitudes come from the shape catalog (12 shapes), not from a solver']


def run(ctx):
  run_generic(ctx, 'C03')


def replay(ctx, case):
  run(ctx)
