"""C15 - Numeric encoding of trials is invertible and always decodes into the space."""
import collections
import json
import os
import random
import re

import verif_boot  # noqa: F401
import fkey
import numpy as np
import tlc

LEVEL = 'exploration'
CV = re.compile(r'<<"CV", (\d+), "(\w+)">>')


MAG = {'unit': 1.0, 'big': 1e6, 'huge': 1e30, 'tiny': 1e-9}


def class_bounds(cls, rng):
  """Concrete bounds inside a class of Converter.tla (seeded)."""
  base = MAG[cls['mag']]
  lo = base * rng.uniform(0.1, 1.0)
  hi = lo * (rng.uniform(3.0, 100.0) if cls['width'] == 'wide' else 1.0 + 3e-7 * rng.uniform(1.0, 3.0))
  if cls['sign'] == 'pos':
    return lo, hi
  if cls['sign'] == 'neg':
    return -hi, -lo
  return (-lo, hi - lo) if cls['width'] == 'wide' else (-(hi - lo), (hi - lo) * rng.uniform(0.5, 2.0))


def make_param(name, cls=None, rng=None):
  from vizier import pyvizier as vz
  sp = vz.SearchSpace()
  r = sp.root
  if name == 'D_class':
    lo, hi = class_bounds(cls, rng)
    r.add_float_param('p', lo, hi, scale_type=getattr(vz.ScaleType, cls['st']))
  elif name == 'I_class':
    # magnitudes up to 1e6 only: float32 represents integers exactly up to 2^24
    lo = int(round(MAG['big'] * rng.uniform(0.1, 1.0))) if cls['mag'] == 'big' else 1
    lo = {'pos': lo, 'neg': -(lo + 5), 'cross': -2}[cls['sign']]
    r.add_int_param('p', lo, lo + 5, scale_type=getattr(vz.ScaleType, cls['st']))
  elif name == 'S_class':
    lo, hi = class_bounds(cls, rng)
    vals = sorted({lo, lo + (hi - lo) * 1e-4, (lo + hi) / 2.0, hi})
    r.add_discrete_param('p', vals)
  elif name == 'D_unit':
    r.add_float_param('p', 0.0, 1.0)
  elif name == 'D_neg':
    r.add_float_param('p', -5.0, -1.0)
  elif name == 'D_log':
    r.add_float_param('p', 1e-3, 10.0, scale_type=vz.ScaleType.LOG)
  elif name == 'D_revlog':
    r.add_float_param('p', 0.1, 1.0, scale_type=vz.ScaleType.REVERSE_LOG)
  elif name == 'D_shift1':
    r.add_float_param('p', 2.0, 3.0)          # range exactly 1, lower bound not 0
  elif name == 'D_sym1':
    r.add_float_param('p', -0.5, 0.5)
  elif name == 'D_f32hi':
    r.add_float_param('p', 1000000.1, 1000000.3)
  elif name == 'D_f32lo':
    r.add_float_param('p', -0.3, 0.3)
  elif name == 'D_single':
    r.add_float_param('p', 2.0, 2.0)
  elif name == 'I_small':
    r.add_int_param('p', -3, 2)
  elif name == 'I_wide':
    r.add_int_param('p', 0, 40)
  elif name == 'S_three':
    r.add_discrete_param('p', [0.5, 1, 10])
  elif name == 'S_decimal':
    r.add_discrete_param('p', [0.1, 0.2, 0.3, 0.7])
  elif name == 'S_twelve':
    r.add_discrete_param('p', [float(v) * 1.5 for v in range(12)])
  elif name == 'C_three':
    r.add_categorical_param('p', ['a', 'b', 'c'])
  elif name == 'C_single':
    r.add_categorical_param('p', ['a'])
  elif name == 'B':
    r.add_bool_param('p')
  return sp


def points_of(pc, rng):
  if pc.type.name == 'DOUBLE':
    lo, hi = pc.bounds
    if lo == hi:
      return [lo]
    inner = sorted(lo + (hi - lo) * t for t in (0.25, 0.5, rng.random(), 0.9))
    return [lo] + inner + [hi]
  if pc.type.name == 'INTEGER':
    return list(range(pc.bounds[0], pc.bounds[1] + 1))
  return list(pc.feasible_values)


def observe(case, expected, rng):
  from vizier import pyvizier as vz
  from vizier.pyvizier import converters
  shape = case['shape']['name']
  sp = make_param(shape, case['shape'].get('cls'), rng)
  pc = sp.get('p')
  dtype = np.float32 if case['dtype'] == 'float32' else np.float64
  conv = converters.DefaultModelInputConverter(pc, scale=case['scale'], onehot_embed=case['onehot'], pad_oovs=case['pad'],
                                               max_discrete_indices=case['thr'], float_dtype=dtype)
  pts = points_of(pc, rng)
  trials = [vz.Trial(parameters={'p': v}) for v in pts]
  feats = np.asarray(conv.convert(trials))
  back = conv.to_parameter_values(feats)
  tol = 1e-4 if case['dtype'] == 'float32' else 1e-9
  rows = []
  for i, (v, f, b) in enumerate(zip(pts, feats, back)):
    if b is None:
      ok = False
    elif pc.type.name == 'DOUBLE':
      ok = abs(b.value - v) <= tol * max(1.0, abs(v), abs(pc.bounds[0]), abs(pc.bounds[1]))
    else:
      ok = b.value == v and (isinstance(v, str) == isinstance(b.value, str))
    f64 = [float(x) for x in np.atleast_1d(f)]
    rows.append({'feat': [fkey.key(x) for x in f64], 'index': i, 'back_ok': bool(ok),
                 'near0': abs(f64[0]) <= 1e-5, 'near1': abs(f64[0] - 1.0) <= 1e-5})
  # arbitrary arrays through TrialToArrayConverter (always one-hot): whatever an optimiser produces must decode into the space
  prob = vz.ProblemStatement(sp, metric_information=[vz.MetricInformation('m', goal=vz.ObjectiveMetricGoal.MAXIMIZE)])
  t2a = converters.TrialToArrayConverter.from_study_config(prob, scale=case['scale'], pad_oovs=case['pad'], max_discrete_indices=case['thr'], dtype=dtype)
  ncol = t2a.to_features([trials[0]]).shape[1]
  probes = [np.full((1, ncol), x, dtype=dtype) for x in (-1e9, -0.5, 0.0, 0.3, 0.5, 1.0, 1.5, 1e9)]
  probes += [np.asarray([[rng.uniform(-2, 3) for _ in range(ncol)]], dtype=dtype) for _ in range(4)]
  decoded = []
  for arr in probes:
    try:
      params = t2a.to_parameters(arr)[0]
      if 'p' in params:
        decoded.append({'present': True, 'v': fkey.value_record(params['p'].value)})
      else:
        decoded.append({'present': False, 'v': fkey.value_record(0)})
    except Exception as e:  # pylint: disable=broad-except
      decoded.append({'present': False, 'v': fkey.value_record(0), 'error': type(e).__name__})
  # slack of the unit interval = what the arithmetic can resolve: a log-scaled range of relative width 3e-7 at |log x| ~ 70
  # is resolved by float64 to 2.2e-16 * 70 / 3e-7 ~ 5e-8 of the unit interval (seed 11 hit 4.7e-8 with a slack of 1e-8)
  cls = case['shape'].get('cls') if isinstance(case.get('shape'), dict) else None
  fine = 1e-6 if (cls and cls.get('width') == 'narrow' and cls.get('st') != 'LINEAR') else 1e-8
  slack = 1e-4 if case['dtype'] == 'float32' else fine
  return {'case': case, 'expected': expected, 'refused': False, 'ncols': int(feats.shape[1]), 'rows': rows, 'decoded': decoded,
          'param': fkey.space_record(sp)[0], 'zero': fkey.key(0.0), 'one': fkey.key(1.0),
          'lo01': fkey.key(-slack), 'hi01': fkey.key(1.0 + slack)}



def observe_model_input(case, expected, rng):
  """The same case through the model-input converters (jnp_converters: continuous block + integer-coded categorical block,
  optionally padded): the parameter p sits between a categorical and a continuous neighbour, so that routing a column to the
  wrong block or the wrong parameter shows."""
  from vizier import pyvizier as vz
  from vizier.pyvizier import converters
  from vizier.pyvizier.converters import padding
  from vizier._src.jax import types as vt
  shape = case['shape']['name']
  sp1 = make_param(shape, case['shape'].get('cls'), rng)
  pc = sp1.get('p')
  prob = vz.ProblemStatement()
  prob.search_space.root.add_categorical_param('a0', ['u', 'v', 'w'])
  prob.search_space.add(pc)
  prob.search_space.root.add_float_param('z9', 2.0, 3.0)
  prob.metric_information.append(vz.MetricInformation('m', goal=vz.ObjectiveMetricGoal.MAXIMIZE))
  dtype = np.float32 if case['dtype'] == 'float32' else np.float64
  kw = {}
  if case['pad']:          # here: feature / trial padding (the OOV padding of the one-hot converters does not exist)
    kw['padding_schedule'] = padding.PaddingSchedule(num_trials=padding.PaddingType.POWERS_OF_2, num_features=padding.PaddingType.POWERS_OF_2)
  conv = converters.TrialToModelInputConverter.from_problem(prob, scale=case['scale'], max_discrete_indices=case['thr'], dtype=dtype, **kw)
  pts = points_of(pc, rng)
  trials = [vz.Trial(parameters={'a0': 'uvw'[i % 3], 'p': v, 'z9': 2.0 + (i % 5) / 4.0}) for i, v in enumerate(pts)]
  feats = conv.to_features(trials)
  back = conv.to_parameters(feats)
  tol = 1e-4          # the padded arrays are float32 unless JAX runs in x64 mode
  rows = []
  for i, (v, b) in enumerate(zip(pts, back)):
    ok = set(b) == {'a0', 'p', 'z9'} and b['a0'].value == 'uvw'[i % 3] and abs(b['z9'].value - (2.0 + (i % 5) / 4.0)) < 1e-4
    if ok and pc.type.name == 'DOUBLE':
      ok = abs(b['p'].value - v) <= tol * max(1.0, abs(v), abs(pc.bounds[0]), abs(pc.bounds[1]))
    elif ok:
      ok = b['p'].value == v and (isinstance(v, str) == isinstance(b['p'].value, str))
    rows.append({'feat': [fkey.key(0.0)], 'index': i, 'back_ok': bool(ok), 'near0': True, 'near1': True})
  # arbitrary continuous values, every valid index in the integer-coded block
  cont = np.asarray(feats.continuous.padded_array)
  cat = np.asarray(feats.categorical.padded_array)
  decoded = []
  n_real_cat = len(conv.output_specs.categorical)
  sizes = [int(spec.bounds[1]) - int(spec.bounds[0]) + 1 for spec in conv.output_specs.categorical]
  for x in (-1e9, -0.5, 0.0, 0.3, 1.0, 1.5, 1e9, rng.uniform(-2, 3)):
    c2 = np.full_like(cont, x)
    k2 = np.zeros_like(cat)
    for j in range(n_real_cat):
      k2[:, j] = rng.randrange(0, max(1, sizes[j] - conv.output_specs.categorical[j].num_oovs))
    import jax.numpy as jnp
    arr = vt.ModelInput(feats.continuous.replace_array(jnp.asarray(c2)), feats.categorical.replace_array(jnp.asarray(k2)))
    try:
      params = conv.to_parameters(arr)[0]
      if 'p' in params:
        decoded.append({'present': True, 'v': fkey.value_record(params['p'].value)})
      else:
        decoded.append({'present': False, 'v': fkey.value_record(0)})
    except Exception as e:  # pylint: disable=broad-except
      decoded.append({'present': False, 'v': fkey.value_record(0), 'error': '%s: %s' % (type(e).__name__, str(e)[:80])})
  return {'case': dict(case, onehot=False), 'expected': expected, 'refused': False, 'ncols': expected['ncols'], 'rows': rows, 'decoded': decoded,
          'param': fkey.space_record(sp1)[0], 'zero': fkey.key(0.0), 'one': fkey.key(1.0), 'lo01': fkey.key(-1.0), 'hi01': fkey.key(2.0), 'model_input': True}


def labels(ctx):
  """Objective labels converted to model form and back return the original values under either sign convention."""
  from vizier import pyvizier as vz
  from vizier.pyvizier import converters
  bad = 0
  n = 0
  for goal in ('MAXIMIZE', 'MINIMIZE'):
    for flip in (False, True):
      for dtype in (np.float32, np.float64):
        mi = vz.MetricInformation('m', goal=getattr(vz.ObjectiveMetricGoal, goal))
        conv = converters.DefaultModelOutputConverter(mi, flip_sign_for_minimization_metrics=flip, dtype=dtype)
        vals = [0.0, -1.5, 2.25, 1e6, -0.0, 3.0]
        ms = [vz.Measurement(metrics={'m': v}) for v in vals]
        arr = conv.convert(ms)
        back = conv.to_metrics(arr)
        n += 1
        got = [b.value if b is not None else None for b in back]
        if got != vals:
          bad += 1
          ctx.violation({'via': 'labels', 'goal': goal, 'flip': flip}, {'kind': 'labels', 'values': vals, 'came_back': got})
        if flip and goal == 'MINIMIZE' and not np.allclose(arr[:, 0], [-v for v in vals]):
          ctx.violation({'via': 'labels', 'what': 'sign_not_flipped', 'goal': goal}, {'kind': 'labels', 'values': vals, 'array': arr[:, 0].tolist()})
  # the model-input converters build their label converters themselves: with dtype=float64 the labels must be exact
  prob = vz.ProblemStatement()
  prob.search_space.root.add_float_param('x', 0.0, 1.0)
  vals = [0.1, 16777217.0, -1.5, 0.0, 1e-9]
  for goal in ('MAXIMIZE', 'MINIMIZE'):
    for flip in (False, True):
      pr = vz.ProblemStatement(prob.search_space, metric_information=[vz.MetricInformation('m', goal=getattr(vz.ObjectiveMetricGoal, goal))])
      cc = converters.TrialToContinuousAndCategoricalConverter.from_study_config(pr, flip_sign_for_minimization_metrics=flip, dtype=np.float64)
      ts = []
      for v in vals:
        t = vz.Trial(parameters={'x': 0.5})
        t.complete(vz.Measurement(metrics={'m': v}))
        ts.append(t)
      lab = np.asarray(cc.to_labels(ts))
      n += 1
      sign = -1.0 if (flip and goal == 'MINIMIZE') else 1.0
      back = [t.final_measurement.metrics['m'].value for t in cc.to_trials(cc.to_features(ts), lab)]
      if lab.dtype != np.float64 or [float(x) for x in lab[:, 0]] != [sign * v for v in vals] or back != vals:
        ctx.violation({'via': 'labels', 'converter': 'TrialToContinuousAndCategoricalConverter', 'goal': goal, 'flip': flip},
                      {'kind': 'labels', 'values': vals, 'labels': [float(x) for x in lab[:, 0]], 'dtype': str(lab.dtype), 'came_back': back})
  n += merged_conditional(ctx)
  return n


def merged_conditional(ctx):
  """A parameter name that occurs under several parent values with different domains is encoded over the UNION of its
  domains: every valid trial encodes into the unit interval / a valid category and decodes to itself."""
  from vizier import pyvizier as vz
  from vizier.pyvizier import converters
  n = 0
  for order in ([0, 1, 2], [1, 0, 2], [2, 1, 0], [0, 2, 1]):          # the widest domain first, in the middle, last
    branches = [('a', (0.1, 0.5), ['x', 'y']), ('b', (0.01, 2.0), ['x', 'y', 'z']), ('c', (0.2, 0.3), ['y'])]
    p = vz.ProblemStatement()
    m = p.search_space.root.add_categorical_param('model', ['a', 'b', 'c'])
    for k in order:
      val, (lo, hi), cats = branches[k]
      sub = m.select_values([val])
      sub.add_float_param('lr', lo, hi)
      sub.add_categorical_param('opt', cats)
    p.metric_information.append(vz.MetricInformation('m', goal=vz.ObjectiveMetricGoal.MAXIMIZE))
    pts = [{'model': 'b', 'lr': 2.0, 'opt': 'z'}, {'model': 'b', 'lr': 0.01, 'opt': 'y'}, {'model': 'a', 'lr': 0.1, 'opt': 'x'}, {'model': 'a', 'lr': 0.5, 'opt': 'y'},
           {'model': 'c', 'lr': 0.25, 'opt': 'y'}]
    for dtype in (np.float32, np.float64):
      n += 1
      try:
        conv = converters.TrialToArrayConverter.from_study_config(p, scale=True, dtype=dtype)
        feats = np.asarray(conv.to_features([vz.Trial(parameters=q) for q in pts]))
        back = [{k: v.value for k, v in d.items()} for d in conv.to_parameters(feats)]
        in01 = bool(np.all(feats >= -1e-6) and np.all(feats <= 1 + 1e-6))
        same = all(b.get('model') == q['model'] and b.get('opt') == q['opt'] and abs(b.get('lr', 1e9) - q['lr']) <= 1e-4 * max(1.0, q['lr']) for b, q in zip(back, pts))
      except Exception as e:  # pylint: disable=broad-except
        in01, same, back = False, False, '%s: %s' % (type(e).__name__, str(e)[:100])
      if not (in01 and same):
        ctx.violation({'via': 'merged-conditional', 'what': 'outside_unit_interval' if not in01 else 'round_trip', 'branch_order': ''.join(map(str, order))},
                      {'kind': 'merged-conditional', 'branch_order': order, 'points': pts, 'came_back': back})
  return n


def run(ctx):
  rng = random.Random(ctx.seed + 73)
  with tlc.Scratch('c15') as d:
    cfg = os.path.join(d, 'CV_enum.cfg')
    tlc.write_cfg(cfg, constants={'Mode': 'enumerate'}, constraints=['Dump'])
    res = tlc.must_ok(tlc.run_tlc('Converter', cfg, d, workers=4), 'Converter/enumerate')
    cases = list({json.dumps(r['case'], sort_keys=True): r for r in res.printed_json()}.values())
    if len(cases) != res.distinct:
      raise tlc.MachineryError('Converter enumeration incomplete')
    obs = []
    for r in cases:
      try:
        obs.append(observe(r['case'], r['expected'], rng))
      except Exception as e:  # pylint: disable=broad-except
        obs.append({'case': r['case'], 'expected': r['expected'], 'refused': True, 'ncols': 0, 'rows': [], 'decoded': [],
                    'param': {'type': 'NONE'}, 'zero': fkey.key(0.0), 'one': fkey.key(1.0), 'lo01': fkey.key(0.0), 'hi01': fkey.key(1.0), 'error': '%s: %s' % (type(e).__name__, str(e)[:120])})
    # the same cases through the model-input converters (no one-hot; 'pad' = feature / trial padding)
    # (without JAX's x64 mode the padded arrays are float32 whatever dtype is asked for: a LOG-scaled integer range of
    # length 5 at magnitude 1e6 is below float32's resolution of log(x); such classes stay with the numpy converters)
    mi_cases = [r for r in cases if not r['case']['onehot']
                and not (r['case']['shape']['name'] == 'I_class' and r['case']['shape']['cls']['mag'] == 'big' and r['case']['shape']['cls']['st'] == 'LOG')]
    if not ctx.thorough:
      mi_cases = [r for r in mi_cases if r['case']['shape']['name'] != 'D_class' or rng.random() < 0.3]
    n_core = len(obs)
    for r in mi_cases:
      try:
        obs.append(observe_model_input(r['case'], r['expected'], rng))
      except Exception as e:  # pylint: disable=broad-except
        obs.append({'case': r['case'], 'expected': r['expected'], 'refused': True, 'ncols': 0, 'rows': [], 'decoded': [],
                    'param': {'type': 'NONE'}, 'zero': fkey.key(0.0), 'one': fkey.key(1.0), 'lo01': fkey.key(0.0), 'hi01': fkey.key(1.0), 'model_input': True,
                    'error': '%s: %s' % (type(e).__name__, str(e)[:120])})
    path = os.path.join(d, 'cv_obs.json')
    with open(path, 'w') as f:
      json.dump([{k: v for k, v in o.items() if k != 'model_input'} for o in obs], f)
    cfg2 = os.path.join(d, 'CV_judge.cfg')
    tlc.write_cfg(cfg2, spec='JSpec', constants={'Mode': 'judge'})
    res2 = tlc.must_ok(tlc.run_tlc('Converter', cfg2, d, workers=1, env={'TRACE_FILE': path}), 'Converter/judge')
    verdicts = {int(m.group(1)): m.group(2) for m in CV.finditer(res2.out)}
    if len(verdicts) != len(obs):
      raise tlc.MachineryError('Converter judge incomplete: %d of %d\n%s' % (len(verdicts), len(obs), res2.out[-1500:]))
  counts = collections.Counter()
  for i, o in enumerate(obs):
    v = verdicts[i + 1]
    counts[v] += 1
    if v != 'ok':
      c = o['case']
      ctx.violation({'via': 'model-input-converter' if o.get('model_input') else 'converter', 'verdict': v, 'shape': c['shape']['name'], 'scale': c['scale']},
                    {'kind': 'converter', 'case': c, 'expected': o['expected'], 'ncols': o['ncols'], 'error': o.get('error'),
                     'decoded_missing': [k for k, x in enumerate(o['decoded']) if not x['present']]})
  nlab = labels(ctx)
  ctx.log('  %d converter configurations, verdicts %s; %d label round trips' % (len(obs), dict(counts), nlab))
  ctx.coverage.update({'evaluations': len(obs) + nlab, 'distinct_nontrivial': len(obs), 'states': res.distinct, 'transitions': len(obs),
                       'traces_validated_against_impl': len(obs),
                       'rule': 'one case = one converter configuration (12 parameter shapes x scale x one-hot x OOV padding x continuify threshold x dtype) enumerated by TLC, '
                               'exercised on every feasible point (6 probe points for DOUBLE) and 12 arbitrary arrays; all distinct and non-trivial',
                       'verdicts': dict(counts), 'exhaustive': True})
  ctx.sample(obs[len(obs) // 2]['case'])
  ctx.assumptions += ['discrete structure (continuified?, column count, hot column) is computed by TLC; continuous clauses are relations over observed order keys',
                      'round-trip tolerance for DOUBLE: 1e-4 relative in float32, 1e-9 in float64; padding converters (jnp_converters) not covered']


def replay(ctx, case):
  run(ctx)
