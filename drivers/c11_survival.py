"""C11, where dominance decides what an algorithm remembers: spec/Survival.tla evaluated by TLC for every small population,
each replayed into NSGA2Survival.select."""
import collections
import json
import os

import verif_boot  # noqa: F401
import numpy as np
import tlc

INVS = ['SizeIsExact', 'RespectsOrder', 'NonDominatedFirst', 'NothingToDoIsNoOp']


def configs(thorough):
  free = dict(NSafe=0, NUnsafe=0)
  out = [('plain', dict(free, G=2, NMax=4, Targets={1, 2, 3}, Viols={0}, Ages={0}, Limits={99})),
         ('safety_eviction', dict(free, G=1, NMax=3, Targets={1, 2}, Viols={0, 1}, Ages={0, 1}, Limits={1, 99})),
         # a cut inside the class of unsafe genes, below safe genes that dominate some of them: the dominated-count must be
         # taken inside the class (seeded change C11 round 4: ranks computed before the safety step)
         ('two_safe_three_unsafe', dict(G=2, NMax=5, Targets={4}, Viols={0, 1}, Ages={0}, Limits={99}, NSafe=2, NUnsafe=3))]
  if thorough:
    out.append(('plain_5', dict(free, G=1, NMax=5, Targets={2, 3, 4}, Viols={0}, Ages={0}, Limits={99})))
    out.append(('safety_4', dict(free, G=1, NMax=4, Targets={1, 2, 3}, Viols={0, 1}, Ages={0}, Limits={99})))
    out.append(('one_safe_three_unsafe', dict(G=2, NMax=4, Targets={2, 3}, Viols={0, 1}, Ages={0}, Limits={99}, NSafe=1, NUnsafe=3)))
  return out


def select(case, safety):
  from vizier._src.algorithms.evolution import nsga2
  from vizier._src.algorithms.evolution import numpy_populations as npop
  pop = case['pop']
  n = len(pop)
  ys = np.asarray([[float(g['y'][0]), float(g['y'][1])] for g in pop], dtype=np.float64).reshape(n, 2)
  cs = np.asarray([[-1.0 if g['v'] else 1.0] for g in pop], dtype=np.float64).reshape(n, 1) if safety else np.zeros((n, 0))
  p = npop.Population(xs=np.arange(1, n + 1, dtype=np.float64).reshape(n, 1), ys=ys, cs=cs, ages=np.asarray([g['age'] for g in pop], dtype=np.int64),
                      generations=np.zeros(n, dtype=np.int64), ids=np.arange(n, dtype=np.int64), trial_ids=np.arange(1, n + 1, dtype=np.int64))
  before = (p.xs.copy(), p.ys.copy(), p.ages.copy())
  s = nsga2.NSGA2Survival(case['target'], eviction_limit=None if case['limit'] == 99 else case['limit'])
  out = s.select(p)
  kept = [int(round(float(x))) for x in np.asarray(out.xs).reshape(-1)]
  rows_ok = all(np.array_equal(np.asarray(out.ys)[k], ys[i - 1]) for k, i in enumerate(kept) if 1 <= i <= n)
  ages_ok = all(int(np.asarray(out.ages)[k]) == pop[i - 1]['age'] + 1 for k, i in enumerate(kept) if 1 <= i <= n)
  input_untouched = np.array_equal(p.xs, before[0]) and np.array_equal(p.ys, before[1]) and np.array_equal(p.ages, before[2])
  return kept, rows_ok, ages_ok, input_untouched


def judge(case, kept, rows_ok, ages_ok, input_untouched):
  must, border = set(case['must']), set(case['border'])
  ks = set(kept)
  if len(ks) != len(kept):
    return 'gene_survives_twice'
  if not ks <= set(case['alive']):
    return 'evicted_or_unknown_gene_survives'
  if len(kept) != len(must) + case['need']:
    return 'wrong_size'
  if not must <= ks:
    return 'better_gene_dropped'
  if not (ks - must) <= border:
    return 'worse_gene_kept'
  if not rows_ok:
    return 'gene_changed'
  if not ages_ok:
    return 'age_not_advanced_by_one'
  if not input_untouched:
    return 'input_population_modified'
  return None


def _judge_chunk(job):
  safety, cases = job
  out = []
  for c in cases:
    try:
      out.append(judge(c, *select(c, safety)))
    except Exception as e:  # pylint: disable=broad-except
      out.append('raised:' + type(e).__name__)
  return out


def run(ctx, workdir):
  from vizier._src.algorithms.evolution import nsga2  # noqa: F401  (import before fork)
  layer = {'configs': [], 'states': 0, 'replayed': 0}
  for name, consts in configs(ctx.thorough):
    cfg = os.path.join(workdir, 'SV_%s.cfg' % name)
    tlc.write_cfg(cfg, constants=consts, invariants=INVS, constraints=['Dump'])
    res = tlc.must_ok(tlc.run_tlc('Survival', cfg, workdir, workers=4, timeout=3000), 'Survival/' + name)
    if res.violated:
      raise tlc.MachineryError('Survival model violates %s:\n%s' % (res.violated, res.trace_text()[:1500]))
    cases = list({json.dumps(x, sort_keys=True): x for x in res.printed_json()}.values())
    if len(cases) != res.distinct:
      raise tlc.MachineryError('Survival dump incomplete: %d vs %d' % (len(cases), res.distinct))
    safety = consts['Viols'] != {0}
    counts = collections.Counter()
    with_choice = sum(1 for c in cases if c['need'] and c['need'] < len(c['border']))
    import concurrent.futures as cf
    import multiprocessing
    k = max(1, len(cases) // 64)
    chunks = [(safety, cases[i:i + k]) for i in range(0, len(cases), k)]
    with cf.ProcessPoolExecutor(max_workers=16, mp_context=multiprocessing.get_context('fork')) as ex:
      verdicts = [v for part in ex.map(_judge_chunk, chunks) for v in part]
    for c, v in zip(cases, verdicts):
      counts[v or 'ok'] += 1
      if v and counts[v] <= 2:
        ctx.violation({'via': 'survival', 'verdict': v, 'safety_metrics': safety, 'eviction': c['limit'] != 99},
                      {'kind': 'survival', 'config': name, 'safety': safety, 'case': c})
    layer['configs'].append({'name': name, 'populations': len(cases), 'with_open_choice': with_choice, 'verdicts': dict(counts)})
    layer['states'] += res.distinct
    layer['replayed'] += len(cases)
    ctx.log('  survival %s: %d populations (%d leave the crowding choice open), verdicts %s' % (name, len(cases), with_choice, dict(counts)))
  ctx.coverage['survival'] = layer
  return layer


def replay(ctx, c):
  v = judge(c['case'], *select(c['case'], c['safety']))
  if v:
    ctx.violation({'via': 'survival', 'verdict': v}, c)
    print('replay: NSGA2Survival.select still answers wrongly: %s' % v)
  else:
    print('replay: select now agrees with Survival.tla on this population')
  ctx.coverage.update({'states': 1, 'transitions': 1, 'traces_validated_against_impl': 1})
