"""C16 - Search-space definitions are validated and membership is decided correctly."""
import json
import random

import verif_boot  # noqa: F401
import ssutil
import tlc

LEVEL = 'model_checking'


def proj_config(pc):
  from vizier import pyvizier as vz
  t = pc.type.name
  out = {'type': t, 'lo': 0, 'hi': 0, 'boundsPy': 'any', 'feasH': [], 'feasS': [], 'dflt': ssutil.typed(pc.default_value)}
  if t in ('DOUBLE', 'INTEGER', 'DISCRETE'):
    lo, hi = pc.bounds
    out['lo'], out['hi'] = ssutil.typed(lo)['h'], ssutil.typed(hi)['h']
    if t in ('DOUBLE', 'INTEGER'):
      out['boundsPy'] = ssutil.typed(lo)['py'] if ssutil.typed(lo)['py'] == ssutil.typed(hi)['py'] else 'mixed'
  if t == 'DISCRETE':
    out['feasH'] = [ssutil.typed(float(v))['h'] for v in pc.feasible_values]
  if t == 'CATEGORICAL':
    out['feasS'] = list(pc.feasible_values)
  return out


def definitions(ctx, d, stats):
  from vizier import pyvizier as vz
  res, recs = ssutil.run_mode('definitions', d)
  if len(recs) != res.distinct:
    raise tlc.MachineryError('definitions dump incomplete')
  n_valid = 0
  for r in recs:
    a = r['args']
    kw = {}
    if a['hasBounds']:
      kw['bounds'] = (ssutil.pyval(a['lo']), ssutil.pyval(a['hi']))
    if a['fv']:
      kw['feasible_values'] = [ssutil.pyval(v) for v in a['fv']]
    if a['dflt']['py'] != 'none':
      kw['default_value'] = ssutil.pyval(a['dflt'])
    try:
      pc = vz.ParameterConfig.factory(a['name'], **kw)
      got_valid, got = True, proj_config(pc)
      err = None
    except (ValueError, TypeError) as e:
      got_valid, got, err = False, None, '%s: %s' % (type(e).__name__, str(e)[:120])
    except Exception as e:  # pylint: disable=broad-except
      got_valid, got, err = False, None, 'UNEXPECTED %s: %s' % (type(e).__name__, str(e)[:120])
    stats['definitions'] += 1
    n_valid += r['valid']
    if got_valid != r['valid'] or (err and err.startswith('UNEXPECTED')):
      ctx.violation({'via': 'definition', 'what': 'accepted-invalid' if got_valid else 'rejected-valid',
                     'has_bounds': a['hasBounds'], 'type': r['norm'].get('type')},
                    {'kind': 'definition', 'args': repr(kw), 'name': a['name'], 'model_valid': r['valid'], 'observed': err or got})
    elif r['valid'] and got != r['norm']:
      diff = sorted(k for k in got if got[k] != r['norm'][k])
      ctx.violation({'via': 'definition', 'what': 'normalisation', 'fields': ','.join(diff), 'type': r['norm']['type']},
                    {'kind': 'definition', 'args': repr(kw), 'name': a['name'], 'expected': r['norm'], 'observed': got})
  stats['valid_definitions'] = n_valid
  ctx.sample({'definition_args': recs[len(recs) // 3]['args'], 'valid': recs[len(recs) // 3]['valid']})
  return res.distinct


def builders(ctx, d, stats):
  from vizier import pyvizier as vz
  res, recs = ssutil.run_mode('builders', d)
  for r in recs:
    p = r['prog']
    space = vz.SearchSpace()
    try:
      ssutil.add_kind(space.root, p['first']['kind'], p['first']['name'])
      if p['second']['where'] == 'root':
        ssutil.add_kind(space.root, p['second']['kind'], p['second']['name'])
      else:
        pv = p['second']['pval']
        k1 = p['first']['kind']
        if k1 in ('C', 'B'):
          val = pv
        else:
          try:
            val = ssutil.value_of(k1, pv)
          except ValueError:
            val = pv       # a string offered to a numeric parent
        ssutil.add_kind(space.root.select(p['first']['name'], [val]), p['second']['kind'], p['second']['name'])
      got, err = True, None
    except (ValueError, TypeError, KeyError) as e:
      got, err = False, '%s: %s' % (type(e).__name__, str(e)[:100])
    stats['builder_programs'] += 1
    if got != r['valid']:
      ctx.violation({'via': 'builder', 'what': 'accepted-invalid' if got else 'rejected-valid', 'where': p['second']['where'],
                     'parent_kind': p['first']['kind']},
                    {'kind': 'builder', 'program': p, 'model_valid': r['valid'], 'observed_error': err})
  return res.distinct


def membership(ctx, d, stats):
  from vizier import pyvizier as vz
  from vizier._src.pyvizier.shared import parameter_config as pcfg
  res, recs = ssutil.run_mode('membership', d)
  if len(recs) != res.distinct:
    raise tlc.MachineryError('membership dump incomplete')
  rng = random.Random(ctx.seed + 41)
  if not ctx.thorough:
    recs = [r for r in recs if len(r['sp']) == 1 or rng.random() < 0.35]
  spaces = {}
  for r in recs:
    if isinstance(r['asg'], list):      # TLC prints the empty function as []
      r['asg'] = {}
    key = json.dumps(r['sp'], sort_keys=True)
    if key not in spaces:
      sp = vz.SearchSpace()
      for n in sorted(r['sp']):
        ssutil.add_kind(sp.root, r['sp'][n], n)
      spaces[key] = sp
    sp = spaces[key]
    raw = {n: ssutil.pyval(v) for n, v in r['asg'].items()}
    stats['membership_cases'] += 1
    exp = r['contains']
    try:
      params = vz.ParameterDict(raw)
    except Exception as e:  # pylint: disable=broad-except
      if exp == 'T':
        ctx.violation({'via': 'membership', 'what': 'ParameterDict refused a contained assignment', 'exc': type(e).__name__},
                      {'kind': 'membership', 'space': r['sp'], 'assignment': repr(raw)})
      continue
    try:
      got = 'T' if sp.contains(params) else 'F'
    except Exception as e:  # pylint: disable=broad-except
      got = 'RAISED:' + type(e).__name__
    kinds = sorted(set(r['sp'].values()))
    vclass = sorted({v['py'] + ('' if v['sp'] == 'fin' else ':' + v['sp']) for v in r['asg'].values()})
    if exp != 'U' and got != exp:
      ctx.violation({'via': 'membership', 'fn': 'SearchSpace.contains', 'got': got, 'exp': exp,
                     'kinds': ','.join(kinds), 'values': ','.join(vclass)},
                    {'kind': 'membership', 'space': r['sp'], 'assignment': repr(raw), 'expected': exp, 'observed': got})
      continue
    if exp != 'U':
      try:
        sp.assert_contains(params)
        got2 = 'T'
      except pcfg.InvalidParameterError:
        got2 = 'F'
      except Exception as e:  # pylint: disable=broad-except
        got2 = 'RAISED:' + type(e).__name__
      if got2 != exp:
        ctx.violation({'via': 'membership', 'fn': 'SearchSpace.assert_contains', 'got': got2, 'exp': exp},
                      {'kind': 'membership', 'space': r['sp'], 'assignment': repr(raw), 'expected': exp, 'observed': got2})
    # near misses: the closest float on the far side of a contained value that lies on a boundary / is a feasible point is
    # NOT contained (membership is exact, not approximate)
    if exp == 'T':
      import math
      for n, k in sorted(r['sp'].items()):
        v = raw.get(n)
        if k not in ('D', 'S', 'Si', 'Sn') or isinstance(v, bool) or not isinstance(v, (int, float)):
          continue
        if k == 'D' and float(v) not in (0.0, 2.5):
          continue
        miss = math.nextafter(float(v), -math.inf if (k == 'D' and float(v) == 0.0) else math.inf)
        if k != 'D' and miss == float(v) * 1.0 and False:
          continue
        near = dict(raw)
        near[n] = miss
        stats['membership_cases'] += 1
        try:
          g = 'T' if sp.contains(vz.ParameterDict(near)) else 'F'
        except Exception as e:  # pylint: disable=broad-except
          g = 'RAISED:' + type(e).__name__
        if g != 'F':
          ctx.violation({'via': 'membership', 'fn': 'SearchSpace.contains', 'got': g, 'exp': 'F', 'kinds': k, 'values': 'near-miss'},
                        {'kind': 'membership', 'space': r['sp'], 'assignment': repr(near), 'expected': 'F', 'observed': g,
                         'note': 'one ulp away from the contained value %r' % (v,)})
        break
    # per-parameter membership
    if set(r['asg']) == set(r['sp']) and len(r['sp']) == 1:
      (n, k), = r['sp'].items()
      # the model's own per-parameter verdict is the single-parameter space verdict
      try:
        g = 'T' if sp.get(n).contains(raw[n]) else 'F'
      except Exception as e:  # pylint: disable=broad-except
        g = 'RAISED:' + type(e).__name__
      if exp != 'U' and g != exp:
        ctx.violation({'via': 'membership', 'fn': 'ParameterConfig.contains', 'got': g, 'exp': exp, 'kinds': k, 'values': ','.join(vclass)},
                      {'kind': 'membership', 'space': r['sp'], 'assignment': repr(raw), 'expected': exp, 'observed': g})
  ctx.sample({'space': recs[len(recs) // 2]['sp'], 'assignment': recs[len(recs) // 2]['asg'], 'contains': recs[len(recs) // 2]['contains']})
  return res.distinct, recs


def add_trial_refusal(ctx, recs, stats):
  """clients.Study.add_trial is refused exactly when the trial is outside the space (sampled)."""
  import world
  from vizier import pyvizier as vz
  from vizier._src.service import clients
  from vizier._src.service import vizier_client
  from vizier.service import pyvizier as svz
  rng = random.Random(ctx.seed + 43)
  sample = [r for r in recs if r['contains'] in ('T', 'F')]
  sample = rng.sample(sample, min(len(sample), 600 if ctx.thorough else 150))
  svc = world.make_servicer(None)
  studies = {}
  for i, r in enumerate(sample):
    key = json.dumps(r['sp'], sort_keys=True)
    if key not in studies:
      sc = svz.StudyConfig()
      for n in sorted(r['sp']):
        ssutil.add_kind(sc.search_space.root, r['sp'][n], n)
      sc.metric_information.append(vz.MetricInformation('a', goal=vz.ObjectiveMetricGoal.MAXIMIZE))
      sc.algorithm = 'RANDOM_SEARCH'
      from vizier._src.service import study_pb2
      from vizier._src.service import vizier_service_pb2 as vs
      st = svc.CreateStudy(vs.CreateStudyRequest(parent='owners/c16', study=study_pb2.Study(display_name='s%d' % len(studies), study_spec=sc.to_proto())))
      studies[key] = clients.Study(vizier_client.VizierClient(st.name, 'c', svc))
    raw = {n: ssutil.pyval(v) for n, v in r['asg'].items()}
    try:
      # a completed trial, a plain (pending) one, or a user-built REQUESTED one: the space check applies to all of them
      form = ('completed', 'pending', 'requested')[i % 3]
      t = vz.Trial(parameters=raw, is_requested=(form == 'requested'))
      if form == 'completed':
        t.complete(vz.Measurement(metrics={'a': 1.0}))
    except Exception:  # pylint: disable=broad-except
      continue
    stats['add_trial_cases'] += 1
    before = len(list(studies[key].trials().get()))
    try:
      studies[key].add_trial(t)
      got = 'T'
    except (ValueError, TypeError):
      got = 'F'
    except Exception as e:  # pylint: disable=broad-except
      got = 'RAISED:' + type(e).__name__
    after = len(list(studies[key].trials().get()))
    if after != before + (1 if got == 'T' else 0):
      # a refused trial must leave nothing behind
      ctx.violation({'via': 'add_trial', 'what': 'refused-trial-was-stored' if got != 'T' else 'accepted-trial-not-stored'},
                    {'kind': 'membership', 'space': r['sp'], 'assignment': repr(raw), 'trials_before': before, 'trials_after': after})
    if got != r['contains']:
      ctx.violation({'via': 'add_trial', 'got': got, 'exp': r['contains'], 'trial': form},
                    {'kind': 'membership', 'space': r['sp'], 'assignment': repr(raw), 'trial': form, 'expected': r['contains'], 'observed': got})


def traversal(ctx, d, stats):
  from vizier import pyvizier as vz
  from vizier._src.pyvizier.shared import parameter_iterators as pi
  res, recs = ssutil.run_mode('traversal', d, invariants=['TraversalExact', 'TraversalSound'])
  recs = [r for r in recs if r is not True]
  spaces = {}
  seen_contains = set()
  for r in recs:
    key = json.dumps(r['tree'], sort_keys=True)
    if key not in spaces:
      try:
        spaces[key] = ssutil.build_space(r['tree'])
      except Exception as e:  # pylint: disable=broad-except
        # a valid conditional definition (enumerated by the model) could not even be built
        spaces[key] = None
        ctx.violation({'via': 'traversal', 'what': 'valid-definition-refused', 'error': type(e).__name__},
                      {'kind': 'traversal', 'tree': r['tree'], 'error': '%s: %s' % (type(e).__name__, str(e)[:200])})
    if spaces[key] is None:
      continue
    if key not in seen_contains:
      seen_contains.add(key)
      # membership in a conditional space is refused as unsupported, never answered
      if any(n['parent'] for n in r['tree']):
        try:
          ans = spaces[key].contains(vz.ParameterDict({}))
          ctx.violation({'via': 'conditional-contains', 'what': 'answered'}, {'kind': 'traversal', 'tree': r['tree'], 'answer': ans})
        except NotImplementedError:
          pass
    tree = r['tree']
    b = pi.SequentialParameterBuilder(spaces[key], traverse_order=r['order'])
    names = []
    ok = True
    detail = None
    try:
      for idx in r['yielded']:
        pc = next(b)
        names.append(pc.name)
        node = tree[idx - 1]
        if pc.name != ssutil.real_name(node['name']):
          ok = False
          detail = 'yielded %s where the model yields %s' % (pc.name, ssutil.real_name(node['name']))
          break
        dec = r['chosen'][idx - 1]
        if dec == '':
          b.skip()
        else:
          b.choose_value(ssutil.value_of(node['kind'], dec))
      if ok:
        try:
          extra = next(b)
          ok = False
          detail = 'builder yields %s after the model finished' % extra.name
        except StopIteration:
          pass
      if ok:
        got = {k: v.value for k, v in b.parameters.items()}
        exp = {ssutil.real_name(tree[i]['name']): ssutil.value_of(tree[i]['kind'], c) for i, c in enumerate(r['chosen']) if c != ''}
        if got != exp:
          ok = False
          detail = 'final parameters %r, model %r' % (got, exp)
    except StopIteration:
      ok = False
      detail = 'builder stopped after %r; model yields %d parameters' % (names, len(r['yielded']))
    except Exception as e:  # pylint: disable=broad-except
      ok = False
      detail = 'raised %s: %s' % (type(e).__name__, str(e)[:100])
    stats['traversals'] += 1
    if not ok:
      ctx.violation({'via': 'traversal', 'order': r['order']},
                    {'kind': 'traversal', 'tree': tree, 'order': r['order'], 'yielded': r['yielded'], 'chosen': r['chosen'], 'detail': detail})
  ctx.sample({'traversal_order': recs[0]['order'], 'yielded_nodes': recs[len(recs) // 2]['yielded'], 'chosen': recs[len(recs) // 2]['chosen']})
  return res.distinct


def run(ctx):
  import collections
  stats = collections.Counter()
  with tlc.Scratch('c16') as d:
    s1 = definitions(ctx, d, stats)
    s2 = builders(ctx, d, stats)
    s3, mrecs = membership(ctx, d, stats)
    add_trial_refusal(ctx, mrecs, stats)
    s4 = traversal(ctx, d, stats)
  total = stats['definitions'] + stats['builder_programs'] + stats['membership_cases'] + stats['traversals'] + stats['add_trial_cases']
  ctx.coverage.update({'states': s1 + s2 + s3 + s4, 'transitions': s1 + s2 + s3 + s4, 'traces_validated_against_impl': total,
                       'evaluations': total, 'distinct_nontrivial': total, 'exhaustive': True,
                       'rule': 'one case = one factory argument combination / builder program / (space, assignment) pair / traversal decision sequence, '
                               'each enumerated once by TLC; all are non-trivial (each exercises a validation or membership decision)',
                       'counts': dict(stats)})
  ctx.log('  %s' % dict(stats))
  ctx.assumptions += ['universes: bounds over {-1,0,2 ints; 0.0,2.5,inf,nan floats}, feasible values sequences <= 3 over {0,1,0.5,1.0,"a","b",inf}, '
                      'catalog D[0,2.5] I[-1,2] S{0.5,1,2} Si{1,2,3} C{a,b} B; Python bool offered to a parameter is Unspecified (TODO in source)']


def replay(ctx, case):
  run(ctx)
