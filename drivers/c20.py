"""C20 - Benchmark experimenters evaluate faithfully and leave suggestions intact."""
import collections
import copy
import json
import os
import random
import re

import verif_boot  # noqa: F401
import fkey
import numpy as np
import tlc

LEVEL = 'exploration'
EV = re.compile(r'<<"EV", (\d+), "(\w+)">>')


def base_exptr(name):
  from vizier._src.benchmarks.experimenters import numpy_experimenter
  from vizier._src.benchmarks.experimenters.synthetic import bbob
  from vizier._src.benchmarks.experimenters.synthetic import branin
  if name == 'Branin':
    return branin.Branin2DExperimenter()
  if name == 'SphereBox':
    ps = bbob.DefaultBBOBProblemStatement(2)
    box = copy.deepcopy(ps)
    from vizier import pyvizier as vz
    box.search_space = vz.SearchSpace()
    for p, (lo, hi) in zip(ps.search_space.parameters, [(2.0, 3.0), (-0.5, 0.5)]):
      box.search_space.root.add_float_param(p.name, lo, hi)
    return numpy_experimenter.NumpyExperimenter(bbob.Sphere, box)
  if name == 'MultiObjective':
    from vizier._src.benchmarks.experimenters import multiobjective_experimenter
    return multiobjective_experimenter.MultiObjectiveExperimenter({
        'f1': numpy_experimenter.NumpyExperimenter(bbob.Sphere, bbob.DefaultBBOBProblemStatement(2)),
        'f2': numpy_experimenter.NumpyExperimenter(bbob.BuecheRastrigin, bbob.DefaultBBOBProblemStatement(2))})
  return numpy_experimenter.NumpyExperimenter(getattr(bbob, name), bbob.DefaultBBOBProblemStatement(2))


NOISE_TYPES = ['MODERATE_GAUSSIAN', 'SEVERE_GAUSSIAN', 'MODERATE_UNIFORM', 'SEVERE_UNIFORM', 'MODERATE_SELDOM_CAUCHY', 'SEVERE_SELDOM_CAUCHY',
               'LIGHT_ADDITIVE_GAUSSIAN', 'MODERATE_ADDITIVE_GAUSSIAN', 'SEVERE_ADDITIVE_GAUSSIAN']


def wrap(inner, w, seed):
  from vizier._src.benchmarks.experimenters import discretizing_experimenter
  from vizier._src.benchmarks.experimenters import infeasible_experimenter
  from vizier._src.benchmarks.experimenters import noisy_experimenter
  from vizier._src.benchmarks.experimenters import normalizing_experimenter
  from vizier._src.benchmarks.experimenters import permuting_experimenter
  from vizier._src.benchmarks.experimenters import shifting_experimenter
  from vizier._src.benchmarks.experimenters import sign_flip_experimenter
  ps = inner.problem_statement()
  names = [p.name for p in ps.search_space.parameters]
  if w == 'ShiftPos':
    return shifting_experimenter.ShiftingExperimenter(inner, shift=np.array([1.0, 0.5])[:len(names)])
  if w == 'ShiftNeg':
    return shifting_experimenter.ShiftingExperimenter(inner, shift=np.array([-0.75, -2.0])[:len(names)])
  if w == 'SignFlip':
    return sign_flip_experimenter.SignFlipExperimenter(inner)
  if w == 'Noisy':
    return noisy_experimenter.NoisyExperimenter.from_type(inner, NOISE_TYPES[seed % len(NOISE_TYPES)], seed=seed)
  if w == 'HyperCube':
    return normalizing_experimenter.HyperCubeExperimenter(inner)
  if w == 'Discretize':
    disc = {}
    for p in ps.search_space.parameters:
      lo, hi = p.bounds
      disc[p.name] = [lo + (hi - lo) * t for t in (0.0, 0.25, 0.5, 1.0)]
    return discretizing_experimenter.DiscretizingExperimenter(inner, disc)
  if w == 'Permute':
    return permuting_experimenter.PermutingExperimenter(inner, names, seed=seed)
  if w == 'Normalize':
    return normalizing_experimenter.NormalizingExperimenter(inner, num_normalization_samples=20)
  if w == 'HashInfeasible':
    return infeasible_experimenter.HashingInfeasibleExperimenter(inner, infeasible_prob=0.4, seed=seed)
  raise KeyError(w)


def sample_points(ps, rng, n=5):
  pts = []
  params = ps.search_space.parameters
  for cls in ['lo', 'hi', 'centre'] + ['random'] * (n - 3):
    pt = {}
    for p in params:
      if p.type.name == 'DOUBLE':
        lo, hi = p.bounds
        pt[p.name] = {'lo': lo, 'hi': hi, 'centre': (lo + hi) / 2.0}.get(cls, rng.uniform(lo, hi))
      else:
        fv = list(p.feasible_values)
        pt[p.name] = {'lo': fv[0], 'hi': fv[-1], 'centre': fv[len(fv) // 2]}.get(cls, rng.choice(fv))
    pts.append(pt)
  return pts


def evaluate(exptr, pts):
  from vizier import pyvizier as vz
  trials = [vz.Trial(parameters=dict(p)) for p in pts]
  exptr.evaluate(trials)
  return trials


def value_of(t, name):
  if t.infeasible or t.final_measurement is None or name not in t.final_measurement.metrics:
    return None
  return t.final_measurement.metrics[name].value


def interval(v, tol=1e-9):
  d = tol * max(1.0, abs(v))
  return fkey.key(v - d), fkey.key(v + d)


def observe(term, rng):
  seed = rng.randrange(1, 10 ** 6)
  rec = {'term': term, 'refused': False, 'outer': term['ws'][-1] if term['ws'] else 'Base', 'law': 'none', 'extra_ok': True, 'statement_by_value': True, 'trials': [], 'batch_equals_single': True}
  try:
    def build(sd):
      e = base_exptr(term['base'])
      for w in term['ws'][:-1]:
        e = wrap(e, w, sd)
      return e
    inner = build(seed)
    outer_name = rec['outer']
    exptr = wrap(inner, outer_name, seed) if term['ws'] else inner
    ps = exptr.problem_statement()
    mnames = [m.name for m in ps.metric_information]
    mname = mnames[0]
    # problem statement by value
    p1 = exptr.problem_statement()
    p1.search_space.root.add_float_param('hack', 0.0, 1.0)
    first_mi = list(p1.metric_information)[0]
    p1.metric_information.append(type(first_mi)('extra', goal=first_mi.goal))
    p2 = exptr.problem_statement()
    rec['statement_by_value'] = ('hack' not in [p.name for p in p2.search_space.parameters]) and len(list(p2.metric_information)) == len(mnames) and p2 == ps
    pts = sample_points(ps, rng)
    trials = evaluate(exptr, pts)
    # the inner experimenter at the mapped point (law-specific)
    inner_ps = inner.problem_statement()
    iname = [m.name for m in inner_ps.metric_information][0]
    mapped = []
    for p in pts:
      q = dict(p)
      if outer_name in ('ShiftPos', 'ShiftNeg'):
        shift = np.array([1.0, 0.5]) if outer_name == 'ShiftPos' else np.array([-0.75, -2.0])
        for j, ip in enumerate(inner_ps.search_space.parameters):
          lo, hi = ip.bounds
          # every point of the space the wrapper ADVERTISES corresponds to the base point x - shift (no clipping in the oracle:
          # a wrapper that advertises points whose shifted image lies outside the base space is evaluating something else)
          q[ip.name] = float(p[ip.name] - shift[j])
      elif outer_name == 'Discretize':
        q = {k: float(v) for k, v in p.items()}
      elif outer_name == 'HyperCube':
        # the cube coordinate h_j stands for the point lo_j + h_j * (hi_j - lo_j) of the wrapped (linear-scale) space
        q = {}
        for j, ip in enumerate(inner_ps.search_space.parameters):
          lo, hi = ip.bounds
          q[ip.name] = float(lo + p['h%d' % j] * (hi - lo))
      mapped.append(q)
    inner_trials = evaluate(build(seed), mapped) if outer_name != 'Permute' else None
    law = {'ShiftPos': 'pointwise', 'ShiftNeg': 'pointwise', 'SignFlip': 'pointwise', 'Discretize': 'pointwise', 'HashInfeasible': 'pointwise',
           'Normalize': 'order', 'Noisy': 'none', 'Permute': 'none', 'Base': 'none', 'HyperCube': 'pointwise'}[outer_name]
    if 'Noisy' in term['ws'][:-1]:
      law = 'none'      # a noisy inner experimenter draws from a stateful stream: the pointwise oracle does not apply, only the protocol
    rec['law'] = law
    for i, (p, t) in enumerate(zip(pts, trials)):
      v = value_of(t, mname)
      kept = {k: x.value for k, x in t.parameters.items()} == p and all(type(t.parameters[k].value) is type(p[k]) for k in p)
      row = {'status': 'INFEASIBLE' if t.infeasible else t.status.name, 'metrics_ok': bool(t.infeasible or (t.final_measurement is not None and set(t.final_measurement.metrics) >= set(mnames))),
             'params_kept': bool(kept), 'val': fkey.key(v if v is not None else 0.0), 'inner': fkey.key(0.0), 'lo': fkey.key(0.0), 'hi': fkey.key(0.0), 'inner_infeasible': False, 'inner_marked_infeasible': False}
      if inner_trials is not None:
        iv = value_of(inner_trials[i], iname)
        row['inner_marked_infeasible'] = bool(inner_trials[i].infeasible)
        if iv is None or iv != iv:
          # no value to predict from: the inner evaluation is infeasible, or (two wrappers up from an infeasibility
          # wrapper) it is the NaN an infeasible evaluation leaves behind in a wrapper that copies measurements only
          row['inner_infeasible'] = True
        else:
          row['inner'] = fkey.key(iv)
          pred = -iv if outer_name == 'SignFlip' else iv
          row['lo'], row['hi'] = interval(pred)
      rec['trials'].append(row)
    # every trial gets ITS metrics whatever the batch size: the same points evaluated one at a time by a fresh instance
    if 'Noisy' not in term['ws']:
      fresh = wrap(build(seed), outer_name, seed) if term['ws'] else build(seed)
      single = []
      for p in pts:
        t1 = evaluate(fresh, [p])[0]
        single.append([value_of(t1, m) for m in mnames] + [t1.infeasible])
      batch = [[value_of(t, m) for m in mnames] + [t.infeasible] for t in trials]
      def same(a, b):     # NaN is the value an infeasible evaluation carries: equal to itself here
        return a == b or (isinstance(a, float) and isinstance(b, float) and a != a and b != b)
      rec['batch_equals_single'] = bool(len(batch) == len(single) and all(len(x) == len(y) and all(same(u, w) for u, w in zip(x, y)) for x, y in zip(batch, single)))
    # wrapper-specific extras
    if 'Noisy' in term['ws'][:-1]:
      pass
    elif outer_name == 'SignFlip':
      g_in, g_out = inner_ps.metric_information.item().goal, ps.metric_information.item().goal
      twice = wrap(exptr, 'SignFlip', seed)
      back = [value_of(t, twice.problem_statement().metric_information.item().name) for t in evaluate(twice, pts)]
      orig = [value_of(t, iname) for t in evaluate(build(seed), pts)]
      def same_v(a, b):
        return a == b or (isinstance(a, float) and isinstance(b, float) and a != a and b != b)
      rec['extra_ok'] = bool(g_in != g_out and twice.problem_statement().metric_information.item().goal == g_in
                             and len(back) == len(orig) and all(same_v(a, b) for a, b in zip(back, orig)))
    elif outer_name == 'Noisy':
      # the second run happens with every global random stream in another state, and many evaluations (rare noise events)
      np.random.seed(rng.randrange(2 ** 31))
      random.seed(rng.random())
      np.random.standard_cauchy(7)
      many = pts * 12
      first = [value_of(t, mname) for t in evaluate(wrap(build(seed), 'Noisy', seed), many)]
      np.random.seed(rng.randrange(2 ** 31))
      second = [value_of(t, mname) for t in evaluate(wrap(build(seed), 'Noisy', seed), many)]
      again = [value_of(t, mname) for t in evaluate(wrap(build(seed), 'Noisy', seed), pts)] if first == second else None
      other = [value_of(t, mname) for t in evaluate(wrap(build(seed), 'Noisy', seed + 1), pts)]
      mine = [value_of(t, mname) for t in trials]
      noiseless = [value_of(t, iname) for t in evaluate(build(seed), pts)]
      # reproducible with the same seed; another seed gives another stream wherever the noise acts at all
      rec['extra_ok'] = bool(again == mine and (other != mine or mine == noiseless))
    elif outer_name == 'Permute':
      # evaluating every feasible assignment through the wrapper yields a permutation of the inner values (a bijection of the feasible values)
      import itertools
      grid = [dict(zip([p.name for p in ps.search_space.parameters], vals)) for vals in itertools.product(*[list(p.feasible_values) for p in ps.search_space.parameters])]
      def k(v):           # infeasible evaluations carry no value (None) or NaN: they are compared as such
        return (2, 0.0) if v is None else (1, 0.0) if v != v else (0, v)
      a = sorted(k(value_of(t, mname)) for t in evaluate(exptr, grid))
      b = sorted(k(value_of(t, iname)) for t in evaluate(build(seed), grid))
      rec['extra_ok'] = bool(a == b)
  except Exception as e:  # pylint: disable=broad-except
    rec['refused'] = True
    rec['error'] = '%s: %s' % (type(e).__name__, str(e)[:200])
  return rec


def run(ctx):
  rng = random.Random(ctx.seed + 89)
  depth = 2 if not ctx.thorough else 3
  with tlc.Scratch('c20') as d:
    cfg = os.path.join(d, 'E_enum.cfg')
    tlc.write_cfg(cfg, constants={'Mode': 'enumerate', 'MaxDepth': depth}, constraints=['Dump'])
    res = tlc.must_ok(tlc.run_tlc('Experimenter', cfg, d, workers=4), 'Experimenter/enumerate')
    terms = list({json.dumps(t, sort_keys=True): t for t in res.printed_json()}.values())
    if len(terms) != res.distinct:
      raise tlc.MachineryError('Experimenter enumeration incomplete')
    if ctx.thorough and len(terms) > 600:
      terms = [t for t in terms if len(t['ws']) <= 2] + rng.sample([t for t in terms if len(t['ws']) == 3], 300)
    obs = [observe(t, rng) for t in terms]
    path = os.path.join(d, 'e_obs.json')
    with open(path, 'w') as f:
      json.dump([{k: v for k, v in o.items() if k not in ('term', 'error')} for o in obs], f)
    cfg2 = os.path.join(d, 'E_judge.cfg')
    tlc.write_cfg(cfg2, spec='JSpec', constants={'Mode': 'judge', 'MaxDepth': depth})
    res2 = tlc.must_ok(tlc.run_tlc('Experimenter', cfg2, d, workers=1, env={'TRACE_FILE': path}), 'Experimenter/judge')
    verdicts = {int(m.group(1)): m.group(2) for m in EV.finditer(res2.out)}
    if len(verdicts) != len(obs):
      raise tlc.MachineryError('Experimenter judge incomplete: %d of %d\n%s' % (len(verdicts), len(obs), res2.out[-1500:]))
  counts = collections.Counter()
  for i, o in enumerate(obs):
    v = verdicts[i + 1]
    counts[v] += 1
    if v != 'ok':
      ctx.violation({'via': 'experimenter', 'verdict': v, 'outer': o['outer'], 'inner': '>'.join(o['term']['ws'][:-1]) or o['term']['base']},
                    {'kind': 'experimenter', 'term': o['term'], 'verdict': v, 'error': o.get('error'),
                     'trials': [{k: t[k] for k in ('status', 'metrics_ok', 'params_kept', 'inner_infeasible')} for t in o['trials']]})
  ctx.log('  %d wrapper terms (depth <= %d), verdicts %s' % (len(obs), depth, dict(counts)))
  ctx.coverage.update({'evaluations': len(obs), 'distinct_nontrivial': len(obs), 'states': res.distinct, 'transitions': len(obs), 'traces_validated_against_impl': len(obs),
                       'rule': 'one case = one wrapper term (base x valid stacking of <= depth wrappers) enumerated by TLC, evaluated on 5 points (corners, centre, random) '
                               'of its own search space together with its inner experimenter at the mapped points; all terms distinct',
                       'verdicts': dict(counts), 'exhaustive': depth == 2})
  ctx.sample(obs[len(obs) // 2]['term'])
  ctx.assumptions += ['the mapped point (x - k with clipping, float(x)) is computed by the driver from the wrapper\'s declared arguments; TLC judges equality of the two evaluations and the protocol',
                      'bases: BBOB Sphere / Rastrigin (2-d) and Branin; multi-objective and surrogate experimenters not covered']


def replay(ctx, case):
  run(ctx)
