"""C06 - A failing algorithm is reported and never wedges the study."""
import random

import speca
import svc

LEVEL = 'model_checking'
FK = {'CreateStudy', 'SuggestTrials', 'CheckEarlyStopping', 'CompleteTrial', 'CreateTrial', 'GetOperation', 'StopTrial'}
EXPECT = [('SuggestTrials', 'None'), ('CheckEarlyStopping', 'None'), ('CheckEarlyStopping', 'Unknown'),
          ('CheckEarlyStopping', 'FailedPrecondition'), ('GetOperation', 'None'), ('CompleteTrial', 'None')]


def rounds(ctx):
  base = dict(MaxId=3, MaxCount=2, MaxDeliver=3, Params={'p1'}, Meas={'m1'}, Kinds=FK)
  if not ctx.thorough:
    return [
        dict(name='faults_never_d4', consts=speca.constants(MaxDepth=4, Recycle='never', **base), expect=EXPECT,
             backends={'ram': 1.0, 'sqlmem': 0.3}, relevant={'SuggestTrials', 'CheckEarlyStopping'}),
        dict(name='faults_always_d4', consts=speca.constants(MaxDepth=4, Recycle='always', **dict(base, Clients={'w1'})), expect=EXPECT,
             backends={'ram': 1.0, 'sqlmem': 0.3}, relevant={'SuggestTrials', 'CheckEarlyStopping'}),
        # the early-stopping algorithm decides about other trials as well, or not about the requested one at all
        dict(name='es_other_trials_d4', consts=speca.constants(MaxDepth=4, Recycle='always', EsAlso=True, MaxId=2, MaxCount=2, MaxDeliver=2, Params={'p1'},
                                                              Meas={'m1'}, Clients={'w1'}, Kinds={'CreateStudy', 'SuggestTrials', 'CheckEarlyStopping', 'StopTrial'}),
             backends={'ram': 1.0, 'sqlmem': 1.0}, relevant={'CheckEarlyStopping'}),
    ]
  return [
      dict(name='faults_never_d5', consts=speca.constants(MaxDepth=5, Recycle='never', **dict(base, Kinds=FK - {'CreateTrial'})), expect=EXPECT,
           backends={'ram': 1.0, 'sqlmem': 0.3}, relevant={'SuggestTrials', 'CheckEarlyStopping'}),
      dict(name='faults_always_d5', consts=speca.constants(MaxDepth=5, Recycle='always', **dict(base, Clients={'w1'}, Kinds=FK - {'CreateTrial'})),
           expect=EXPECT, backends={'ram': 1.0, 'sqlmem': 0.3}, relevant={'SuggestTrials', 'CheckEarlyStopping'}),
      dict(name='es_other_trials_d5', consts=speca.constants(MaxDepth=5, Recycle='always', EsAlso=True, MaxId=2, MaxCount=2, MaxDeliver=2, Params={'p1'},
                                                            Meas={'m1'}, Clients={'w1'}, Kinds={'CreateStudy', 'SuggestTrials', 'CheckEarlyStopping', 'StopTrial', 'CompleteTrial'}),
           backends={'ram': 1.0, 'sqlmem': 1.0}, relevant={'CheckEarlyStopping'}),
      dict(name='es_other_trials_never_d4', consts=speca.constants(MaxDepth=4, Recycle='never', EsAlso=True, MaxId=2, MaxCount=2, MaxDeliver=2, Params={'p1'},
                                                                  Meas={'m1'}, Clients={'w1'}, Kinds={'CreateStudy', 'SuggestTrials', 'CheckEarlyStopping', 'StopTrial'}),
           backends={'ram': 1.0, 'sqlmem': 1.0}, relevant={'CheckEarlyStopping'}),
      dict(name='faults_never_d4_wide', consts=speca.constants(MaxDepth=4, Recycle='never', **dict(base, MaxId=4, MaxCount=3, MaxDeliver=4, Params={'p1', 'p2'})),
           # 337 826 histories: all on RAM, a sample on SQLite (5 ms per history)
           expect=EXPECT, backends={'ram': 1.0, 'sqlmem': 0.15, 'sqlfile': 0.03}, relevant={'SuggestTrials', 'CheckEarlyStopping'}),
  ]


def walks(ctx):
  conf = {'Studies': ['s1'], 'Clients': ['w1', 'w2'], 'MaxId': 12, 'Cells': ['c1'], 'Recycle': 'always'}
  kinds = ['SuggestTrials'] * 4 + ['CheckEarlyStopping'] * 3 + ['CompleteTrial', 'CompleteTrial', 'StopTrial', 'GetOperation', 'CreateTrial']
  n = 480 if ctx.thorough else 120
  return [dict(name='faulty_algorithm', conf=conf, n=n, length=40, kinds=kinds, opts={'MaxCount': 3, 'EsAlso': True}, backends=['ram', 'sqlmem']),
          dict(name='faulty_algorithm_cached_es', conf=dict(conf, Recycle='never'), n=n // 2, length=40, kinds=kinds, opts={'MaxCount': 3},
               backends=['ram'])]


# exception types a policy may raise (the property says "raises": any of them must be reported, never escape or wedge)
def _exc_types():
  import grpc

  class CustomRpcError(grpc.RpcError):
    pass

  class DerivedError(Exception):
    pass

  return [ValueError, RuntimeError, KeyError, ZeroDivisionError, CustomRpcError, DerivedError, NotImplementedError, MemoryError]


def deployments(ctx):
  """The same fault scenarios in the three deployments; judged by the trace spec (VizierTrace) like any walk.

  Scenario: suggest with a raising/short/over-delivering algorithm, then the TLC-style continuations:
  same worker suggests again, other worker suggests, complete, early-stop with raising policy, early-stop again.
  """
  import grpc
  import record
  import tlc
  import world
  from vizier import pythia
  from vizier._src.service import vizier_client
  conf = {'Studies': ['s1'], 'Clients': ['w1', 'w2'], 'MaxId': 10, 'Cells': ['c1'], 'Recycle': 'always'}
  rng = random.Random(ctx.seed + 11)
  excs = _exc_types()
  state = {'exc': ValueError}

  class Policy(world.ScriptedPolicy):

    def suggest(self, request):
      if world.current_env()['raise']:
        raise state['exc']('scripted failure')
      return super().suggest(request)

    def early_stop(self, request):
      if world.current_env()['raise']:
        raise state['exc']('scripted failure')
      return super().early_stop(request)

  class Factory:

    def __call__(self, problem, algo, supporter, name):
      return Policy(supporter)

  none_md = {'c1': 'None'}
  n_per = 24 if ctx.thorough else 8
  total = 0
  with tlc.Scratch('c06') as d:
    for dep in world.DEPLOYMENTS:
      for backend in (['ram', 'sqlmem'] if ctx.thorough else ['ram']):
        svc_, api = world.make_deployment(dep, world.backend_url(backend, d), 'always', Factory())
        traces = []
        meta = []
        for i in range(n_per):
          state['exc'] = excs[i % len(excs)]
          w = world.World(conf, svc=svc_, backend=backend, stub=api)
          fail_first = rng.random() < 0.7
          n = rng.randint(1, 2)
          prog = [{'rpc': 'CreateStudy', 's': 's1', 'cfg': 'max1'}]
          env1 = {'raise': True, 'ps': [], 'md': none_md} if fail_first else {'raise': False, 'ps': ['p1'] * rng.choice([0, n - 1, n + 1]), 'md': none_md}
          prog.append({'rpc': 'SuggestTrials', 's': 's1', 'w': 'w1', 'n': n, 'env': env1})
          prog.append({'rpc': 'GetOperation', 's': 's1', 'w': 'w1', 'i': 1})
          prog.append({'rpc': 'SuggestTrials', 's': 's1', 'w': 'w1', 'n': n, 'env': {'raise': False, 'ps': ['p1'] * n, 'md': none_md}})
          prog.append({'rpc': 'SuggestTrials', 's': 's1', 'w': 'w2', 'n': 1, 'env': {'raise': rng.random() < 0.3, 'ps': ['p2'], 'md': none_md}})
          prog.append({'rpc': 'CheckEarlyStopping', 's': 's1', 't': 1, 'env': {'raise': True, 'stop': False}})
          prog.append({'rpc': 'CheckEarlyStopping', 's': 's1', 't': 1, 'env': {'raise': False, 'stop': True}})
          prog.append({'rpc': 'CompleteTrial', 's': 's1', 't': 1, 'f': 'm1', 'inf': False, 'reason': ''})
          prog.append({'rpc': 'SuggestTrials', 's': 's1', 'w': 'w1', 'n': 2, 'env': {'raise': True, 'ps': [], 'md': none_md}})
          prog.append({'rpc': 'SuggestTrials', 's': 's1', 'w': 'w1', 'n': 2, 'env': {'raise': False, 'ps': ['p2', 'p1'], 'md': none_md}})
          events = []
          for c in prog:
            resp = w.run(c)
            resp.pop('exc', None)
            events.append({'call': c, 'resp': resp, 'post': w.project()})
          traces.append(events)
          meta.append({'deployment': dep, 'backend': backend, 'exception': state['exc'].__name__})
          # client layer: a failed operation surfaces as RuntimeError within a bounded number of polls
          world.set_env({'raise': True, 'ps': [], 'md': none_md})
          vizier_client.environment_variables.new_suggestion_polling_secs = 0.0
          vc = vizier_client.VizierClient(w.sname('s1'), 'w9', api)
          try:
            vc.get_suggestions(3)
            ctx.violation({'layer': 'VizierClient.get_suggestions', 'deployment': dep, 'what': 'failing algorithm not reported'},
                          {'kind': 'deploy', 'deployment': dep, 'backend': backend, 'exception': state['exc'].__name__})
          except RuntimeError:
            pass
          except Exception as e:  # pylint: disable=broad-except
            ctx.violation({'layer': 'VizierClient.get_suggestions', 'deployment': dep, 'what': 'unexpected exception class', 'exc': type(e).__name__},
                          {'kind': 'deploy', 'deployment': dep, 'backend': backend, 'exception': state['exc'].__name__})
        verdicts, res = record.validate(traces, conf, d, name='T_dep_%s_%s' % (dep, backend))
        total += len(traces)
        ok = sum(1 for v in verdicts if v[0] == 'ok')
        ctx.log('  deployment %s/%s: %d fault programs, %d accepted by VizierTrace' % (dep, backend, len(traces), ok))
        ctx.coverage.setdefault('deployments', []).append({'deployment': dep, 'backend': backend, 'programs': len(traces), 'accepted': ok})
        for i, (clause, pos) in enumerate(verdicts):
          if clause != 'ok':
            ev = traces[i][pos - 1]
            ctx.violation({'via': 'deployment-trace', 'deployment': dep, 'rpc': ev['call']['rpc'], 'clause': clause, 'got': ev['resp']['err'],
                           'env_raise': bool(ev['call'].get('env', {}).get('raise'))},
                          {'kind': 'trace', 'backend': backend, 'deployment': dep, 'conf': conf, 'clause': clause, 'position': pos,
                           'exception': meta[i]['exception'], 'events': traces[i][:pos]})
        if dep == 'split' and traces:
          ctx.sample({'deployment': dep, 'calls': [e['call'] for e in traces[0]]})
  ctx.coverage['traces_validated_against_impl'] += total


def run(ctx):
  ctx.assumptions += [
      'algorithm failures are injected through the public PolicyFactory parameter (exceptions of 8 classes incl. grpc.RpcError subclass)',
      'deployments: local PythiaServicer, DefaultVizierServer, DistributedPythiaVizierServer on localhost',
  ]
  svc.run_rounds(ctx, 'C06', rounds(ctx), walks(ctx))
  deployments(ctx)


def replay(ctx, case):
  if case['case'].get('kind') == 'deploy' or case['case'].get('deployment') not in (None, 'local'):
    deployments(ctx)
    ctx.coverage.update({'states': 1, 'transitions': 1})
    return
  svc.replay_case(ctx, case, 'C06')
