"""Shared engine of the Spec-A based checks (C01 C02 C06 C07 C10 C11).

One round = one configuration of VizierService.tla:
  1. TLC checks every property of the reference model exhaustively and prints every transition;
  2. vacuity gate on the printed transitions (every enabled RPC kind reached, success and error outcomes);
  3. the transition-covering histories are replayed on the real servicer (RAM, SQLite) and compared
     with TLC's response and state;
  4. seeded random walks of the real servicer are recorded and validated by VizierTrace.tla.
A divergence is attributed to a property (by failing clause, else by the diverging call) and each
check reports the divergences attributed to it.
"""
import collections
import concurrent.futures as cf
import json
import multiprocessing
import random

import verif_boot  # noqa: F401
import record
import replay as replay_mod
import speca
import tlc
import world

K = set(speca.ALL_KINDS)
READS = {'GetStudy', 'ListStudies', 'GetTrial', 'ListTrials', 'GetOperation', 'ListOptimalTrials'}


def attribute_sig(sig):
  """Which property a replay divergence speaks about."""
  rpc = sig['rpc']
  if sig.get('meta_only'):
    return 'C10'
  if rpc in ('SuggestTrials', 'GetOperation'):
    if sig.get('env_raise') or (sig.get('delivered') is not None and sig.get('n') is not None and sig['delivered'] != sig['n']):
      # the algorithm raised or delivered too few: C06.  Too many: C06 when the call itself failed (the failure of the
      # algorithm to deliver exactly n must not surface as an error / wedge the study), C02 when the surplus is mishandled.
      if sig.get('env_raise') or sig['delivered'] < sig['n'] or sig.get('got', 'None') != 'None':
        return 'C06'
      return 'C02'
    return 'C02'
  if rpc == 'CheckEarlyStopping':
    # what is stored about early-stopping operations and what a check answers is C06's; which error class an illegal
    # check gets is C01's
    if sig.get('env_raise') or sig.get('what') in ('state', 'val') or sig.get('clause') in ('A_state', 'A_resp'):
      return 'C06'
    return 'C01'
  if rpc == 'UpdateMetadata':
    return 'C10'
  if rpc == 'ListOptimalTrials':
    return 'C11'
  return 'C01'


def attribute_verdict(clause, call, got='None'):
  if clause.startswith('C'):
    return clause[:3]
  if clause == 'A_state_meta':
    return 'C10'        # the observed state differs from the model's only in metadata cells
  sig = {'rpc': call['rpc'], 'got': got, 'clause': clause}
  sig.update(replay_mod.env_tags(call))
  return attribute_sig(sig)


def vacuity_gate(name, consts, recs, expect):
  """Every enabled kind occurs, and every (rpc, outcome class) pair the round promises is reached."""
  seen = collections.defaultdict(set)
  for r in recs:
    seen[r['hist'][-1]['rpc']].add(r['resp']['err'])
  missing = [k for k in consts['Kinds'] if k not in seen]
  missing += [(k, e) for k, e in expect if e not in seen[k]]
  if missing:
    raise tlc.MachineryError('vacuous config %s: never reached: %s' % (name, missing))
  return {k: sorted(v) for k, v in seen.items()}


def tlc_round(name, consts, workdir, expect=()):
  res, recs = speca.check_and_dump(consts, workdir, dump=True, coverage=False, name=name)
  if res.violated:
    raise tlc.MachineryError('reference model violates %s in config %s:\n%s' % (res.violated, name, res.trace_text()[:3000]))
  if res.left != 0:
    raise tlc.MachineryError('TLC did not finish config %s' % name)
  if len(recs) != res.generated - 1:
    raise tlc.MachineryError('dump of %s incomplete: %d records for %d generated states' % (name, len(recs), res.generated))
  outcomes = vacuity_gate(name, consts, recs, expect)
  return res, recs, outcomes


def _walk_chunk(job):
  conf, backend, scratch, seed, n, length, kinds, opts = job
  rng = random.Random(seed)
  out = []
  svc = None
  for _ in range(n):
    if backend == 'sqlmem':
      svc = svc or world.make_servicer(world.backend_url('sqlmem'), conf['Recycle'])
      w = world.World(conf, svc=svc, backend=backend)
    else:
      w = world.World(conf, backend=backend, scratch=scratch)
    out.append(record.walk(w, rng, length, kinds, opts))
  return out


def run_rounds(ctx, own, rounds, walks=None, report_all=False):
  """rounds: list of dict(name, consts, backends={'ram':1.0,'sqlmem':0.3}).  own: property id this check reports."""
  cov = ctx.coverage
  cov.setdefault('states', 0)
  cov.setdefault('transitions', 0)
  cov.setdefault('traces_validated_against_impl', 0)
  cov['configs'] = []
  other = collections.Counter()
  nontrivial = set()
  with tlc.Scratch('svc') as d:
    # quick: all configurations are model-checked concurrently (they are small); thorough: a pipeline that holds at most
    # two configurations' transitions in memory (the next one is model-checked while this one is replayed)
    ex = cf.ThreadPoolExecutor(max_workers=6 if not ctx.thorough else 1)
    futs = {}

    def start(i):
      if i < len(rounds) and i not in futs:
        r0 = rounds[i]
        futs[i] = ex.submit(tlc_round, r0['name'], r0['consts'], d, r0.get('expect', ()))
    if not ctx.thorough:
      for i0 in range(len(rounds)):
        start(i0)
    start(0)
    for i_r, r in enumerate(rounds):
      start(i_r + 1)
      res, recs, outcomes = futs.pop(i_r).result()
      consts = r['consts']
      conf = speca.conf_of(consts)
      cov['states'] += res.distinct
      cov['transitions'] += res.generated - 1
      entry = {'name': r['name'], 'distinct_states': res.distinct, 'transitions': res.generated - 1,
               'depth': consts['MaxDepth'], 'exhaustive_within_depth': True, 'tlc_s': round(res.wall, 1),
               'constants': {k: (sorted(v) if isinstance(v, (set, frozenset)) else v) for k, v in consts.items()},
               'outcome_classes': outcomes, 'replay': {}}
      ctx.log('config %s: TLC %d distinct / %d transitions in %.0fs; model properties hold' % (
          r['name'], res.distinct, res.generated - 1, res.wall))
      for backend, frac in r.get('backends', {'ram': 1.0}).items():
        rr = replay_mod.replay(recs, conf, backend=backend, scratch=d, relevant=r.get('relevant'),
                               sample=None if frac >= 1.0 else frac, seed=ctx.seed)
        entry['replay'][backend] = rr.summary()
        cov['traces_validated_against_impl'] += rr.histories
        nontrivial |= rr.nontrivial
        ctx.log('  replay %s: %s' % (backend, rr.summary()))
        for dv in rr.divergences:
          prop = attribute_sig(dv['sig'])
          sig = dict(dv['sig'], backend=backend, via='replay')
          if prop == own or report_all:
            ctx.violation(sig, {'kind': 'replay', 'backend': backend, 'conf': conf, 'hist': dv['hist'],
                                'expected': {'resp': dv['exp_resp'], 'st': dv['exp_state']},
                                'observed': {'resp': dv['got_resp'], 'st': dv['got_state']}, 'diff': dv['diff']})
          else:
            other[prop] += 1
        if recs:
          ctx.sample({'config': r['name'], 'history': recs[min(len(recs) - 1, 1 + (ctx.seed * 7919) % len(recs))]['hist']})
      cov['configs'].append(entry)
      del recs
      import gc
      gc.collect()
    ex.shutdown(wait=True)
    # ---- direction 1: recorded random walks validated by the trace spec
    for wk in walks or []:
      conf = wk['conf']
      for backend in wk.get('backends', ['ram']):
        jobs = [(conf, backend, d, ctx.seed * 1000003 + 17 + 7919 * j, wk['n'] // 16 + (1 if j < wk['n'] % 16 else 0),
                 wk['length'], wk['kinds'], wk.get('opts', {})) for j in range(16)]
        traces = []
        with cf.ProcessPoolExecutor(max_workers=16, mp_context=multiprocessing.get_context('fork')) as pex:
          for chunk in pex.map(_walk_chunk, jobs):
            traces += chunk
        verdicts, res = record.validate(traces, conf, d, name='T_%s_%s' % (wk['name'], backend))
        okc = sum(1 for v in verdicts if v[0] == 'ok')
        cov['traces_validated_against_impl'] += len(traces)
        cov.setdefault('walks', []).append({'name': wk['name'], 'backend': backend, 'traces': len(traces),
                                            'events': sum(len(t) for t in traces), 'accepted': okc,
                                            'tlc_states': res.distinct})
        ctx.log('  walks %s/%s: %d traces, %d events, %d accepted' % (wk['name'], backend, len(traces), sum(len(t) for t in traces), okc))
        for t in traces:
          nontrivial.add(replay_mod.canon([e['call'] for e in t]))
        for i, (clause, pos) in enumerate(verdicts):
          if clause == 'ok':
            continue
          ev = traces[i][pos - 1]
          prop = attribute_verdict(clause, ev['call'], ev['resp']['err'])
          sig = {'rpc': ev['call']['rpc'], 'clause': clause, 'got': ev['resp']['err'], 'backend': backend, 'via': 'trace'}
          sig.update(replay_mod.env_tags(ev['call']))
          if prop == own or report_all:
            ctx.violation(sig, {'kind': 'trace', 'backend': backend, 'conf': conf, 'clause': clause, 'position': pos,
                                'events': traces[i][:pos]})
          else:
            other[prop] += 1
        if traces:
          ctx.sample({'walk': wk['name'], 'backend': backend, 'calls': [e['call'] for e in traces[0][:8]]})
  cov['distinct_nontrivial'] = len(nontrivial)
  cov['evaluations'] = cov['traces_validated_against_impl']
  cov['rule'] = ('a case is one call history executed on the real servicer (a TLC-printed transition history or a recorded '
                 'random walk); non-trivial = contains a state-changing call; distinct by the abstract call sequence')
  cov['exhaustive'] = True
  cov['exhaustive_note'] = 'every transition of the reachable state graph within the stated depth and constants'
  if other:
    cov['divergences_attributed_to_other_properties'] = dict(other)
    for p, n in other.items():
      ctx.log('NOTE: %d divergence(s) attributed to %s (reported by that check)' % (n, p))


def replay_case(ctx, case, own):
  """--replay: re-executes one stored case against the current tree."""
  c = case['case']
  with tlc.Scratch('svc') as d:
    if c['kind'] == 'replay':
      w = world.World(c['conf'], backend=c['backend'], scratch=d)
      resp = None
      for call in c['hist']:
        resp = w.run(call)
      got = w.project()
      dv = replay_mod.compare({'hist': c['hist'], 'resp': c['expected']['resp'], 'st': c['expected']['st']}, resp, got)
      if dv:
        ctx.violation(dict(dv['sig'], backend=c['backend'], via='replay'), c)
        print(json.dumps({'observed_resp': resp, 'expected_resp': c['expected']['resp'], 'diff': dv['diff']}, indent=1))
      else:
        print('replay: implementation now agrees with the model on this history')
    else:
      w = world.World(c['conf'], backend=c['backend'], scratch=d)
      events = []
      for e in c['events']:
        resp = w.run(e['call'])
        resp.pop('exc', None)
        events.append({'call': e['call'], 'resp': resp, 'post': w.project()})
      verdicts, _ = record.validate([events], c['conf'], d)
      if verdicts[0][0] != 'ok':
        ctx.violation({'rpc': events[verdicts[0][1] - 1]['call']['rpc'], 'clause': verdicts[0][0], 'via': 'trace'}, c)
        print('replay: trace rejected at %d by clause %s' % (verdicts[0][1], verdicts[0][0]))
      else:
        print('replay: trace accepted')
  ctx.coverage.update({'states': 1, 'transitions': 1, 'traces_validated_against_impl': 1})
