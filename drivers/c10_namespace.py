"""C10, namespace half: Namespace.encode / decode against Namespace.tla."""
import json
import os
import re

import verif_boot  # noqa: F401
import tlc

CH = {'a': 'a', ':': ':', '\\': '\\', 'e': 'é'}
RCH = {v: k for k, v in CH.items()}


def to_str(chars):
  return ''.join(CH[c] for c in chars)


def to_chars(s):
  return [RCH[c] for c in s]


def run(ctx, only=None):
  from vizier._src.pyvizier.shared import common as vcommon
  max_comp, max_len = (3, 2) if ctx.thorough else (2, 2)
  with tlc.Scratch('ns') as d:
    cfg = os.path.join(d, 'NS_enum.cfg')
    tlc.write_cfg(cfg, constants={'MaxComp': max_comp, 'MaxLen': max_len, 'Mode': 'enumerate'}, constraints=['Enumerate'])
    res = tlc.must_ok(tlc.run_tlc('Namespace', cfg, d, workers=4), 'Namespace/enumerate')
    model = list({json.dumps(m['ns']): m for m in res.printed_json()}.values())
    if len(model) != res.distinct or not model:
      raise tlc.MachineryError('namespace enumeration incomplete: %d printed, %d states' % (len(model), res.distinct))
    obs = []
    for m in model:
      tup = tuple(to_str(c) for c in m['ns'])
      enc = vcommon.Namespace(tup).encode()
      dec = tuple(vcommon.Namespace.decode(enc))
      try:
        obs.append({'ns': m['ns'], 'enc': to_chars(enc), 'dec': [to_chars(c) for c in dec]})
      except KeyError:
        obs.append({'ns': m['ns'], 'enc': ['?'], 'dec': []})   # characters outside the alphabet: a conformance failure
    path = os.path.join(d, 'ns_obs.json')
    with open(path, 'w') as f:
      json.dump(obs, f)
    cfg2 = os.path.join(d, 'NS_judge.cfg')
    tlc.write_cfg(cfg2, constants={'MaxComp': max_comp, 'MaxLen': max_len, 'Mode': 'judge'}, constraints=['Judge'])
    res2 = tlc.must_ok(tlc.run_tlc('Namespace', cfg2, d, workers=16, env={'TRACE_FILE': path}), 'Namespace/judge')
    verdicts = {}
    for m in re.finditer(r'<<"NSV", (\d+), "(\w+)">>', res2.out):
      verdicts[int(m.group(1))] = m.group(2)
    if len(verdicts) != len(obs):
      raise tlc.MachineryError('namespace judge incomplete: %d verdicts for %d observations' % (len(verdicts), len(obs)))
  bad_model = sum(1 for m in model if not m['ok'])
  counts = {}
  for i, o in enumerate(obs):
    v = verdicts[i + 1]
    counts[v] = counts.get(v, 0) + 1
    if v != 'ok':
      tup = [to_str(c) for c in o['ns']]
      cause = 'component-ends-with-backslash' if any(c.endswith('\\') for c in tup) else 'other'
      if v == 'collision':
        # a collision is between two namespaces; it is the listed defect if the partner has the trailing backslash
        partners = [p for p in obs if p['enc'] == o['enc'] and p['ns'] != o['ns']]
        if any(any(to_str(c).endswith('\\') for c in p['ns']) for p in partners):
          cause = 'component-ends-with-backslash'
      ctx.violation({'via': 'namespace', 'verdict': v, 'cause': cause},
                    {'kind': 'namespace', 'namespace': tup, 'encoded': to_str(o['enc']) if '?' not in o['enc'] else '?',
                     'decoded': [to_str(c) for c in o['dec']]})
  ctx.coverage['namespace'] = {'namespaces': len(obs), 'max_components': max_comp, 'max_component_length': max_len,
                               'alphabet': ['a', ':', '\\', 'é'], 'verdicts': counts,
                               'transcription_roundtrip_failures_on_model': bad_model, 'exhaustive': True}
  ctx.coverage['states'] = ctx.coverage.get('states', 0) + res.distinct
  ctx.coverage['transitions'] = ctx.coverage.get('transitions', 0) + res2.distinct
  ctx.coverage['traces_validated_against_impl'] = ctx.coverage.get('traces_validated_against_impl', 0) + len(obs)
  ctx.sample({'namespace': [to_str(c) for c in obs[len(obs) // 2]['ns']], 'encoded': to_str(obs[len(obs) // 2]['enc'])})
  ctx.log('  namespaces: %d enumerated, verdicts %s (transcription fails round trip on %d)' % (len(obs), counts, bad_model))
