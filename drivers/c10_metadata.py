"""C10 at the level of the class algorithms and users hold: spec/MetadataStore.tla (one shared table, handles that differ in
their current namespace) model-checked, every transition replayed into vz.Metadata and every observer compared."""
import collections
import os

import verif_boot  # noqa: F401
import tlc

PROPS = ['SetIsLocal', 'DelIsLocal', 'HandlesArePure', 'AttachStaysBelow']
_G = {}


def configs(thorough):
  base = dict(Comps={'a', 'b'}, Keys={'k1'}, Vals={'v1', 'v2'}, MaxNs=2)
  if not thorough:
    return [('one_key_d5', dict(base, MaxDepth=5), 1.0), ('two_keys_d4', dict(base, Keys={'k1', 'k2'}, MaxDepth=4), 1.0)]
  return [('one_key_d7', dict(base, MaxDepth=7), 0.5), ('two_keys_d5', dict(base, Keys={'k1', 'k2'}, MaxDepth=5), 0.5)]


def tup(x):
  return tuple(tup(y) for y in x) if isinstance(x, list) else x


def execute(hist):
  from vizier import pyvizier as vz
  md = vz.Metadata()
  h = {'h1': md, 'h2': md.abs_ns([])}
  out = 'ok'
  for op in hist:
    out = 'ok'
    try:
      if op['op'] == 'ns':
        h['h2'] = h[op['src']].ns(op['c'])
      elif op['op'] == 'abs_ns':
        h['h2'] = h['h1'].abs_ns(list(op['ns']))
      elif op['op'] == 'set':
        h[op['h']][op['k']] = op['v']
      elif op['op'] == 'del':
        del h[op['h']][op['k']]
      elif op['op'] == 'clear':
        h[op['h']].clear()
      elif op['op'] == 'attach':
        other = vz.Metadata()
        for ns, k, v in op['items']:
          other.abs_ns(list(ns))[k] = v
        h[op['h']].attach(other.abs_ns(list(op['at'])))
    except KeyError:
      out = 'KeyError'
    except Exception as e:  # pylint: disable=broad-except
      out = 'raised:' + type(e).__name__
    # every observer is asked after every step: observing must change nothing (a handle taken on a still-empty namespace
    # keeps writing into the shared table after namespaces() / all_items() / subnamespaces() were called)
    for x in (md, h['h1'], h['h2']):
      list(x.all_items()), x.namespaces(), x.subnamespaces(), bool(x), len(x), list(x.items())
  def obs(x):
    return {'len': len(x), 'items': sorted((k, v) for k, v in x.items()), 'cur': tuple(x.current_ns()), 'sub': sorted(tuple(ns) for ns in x.subnamespaces())}
  return {'out': out, 'table': sorted((tuple(ns), k, v) for ns, k, v in md.all_items()), 'namespaces': sorted(tuple(ns) for ns in md.namespaces()),
          'truthy': bool(md), 'h1': obs(h['h1']), 'h2': obs(h['h2'])}


def expected(rec):
  def obs(o):
    return {'len': o['len'], 'items': sorted(tup(o['items'])), 'cur': tup(o['cur']), 'sub': sorted(tup(o['sub']))}
  return {'out': rec['out'], 'table': sorted(tup(rec['table'])), 'namespaces': sorted(tup(rec['namespaces'])), 'truthy': rec['truthy'],
          'h1': obs(rec['h1']), 'h2': obs(rec['h2'])}


def _chunk(recs):
  bad = []
  for r in recs:
    exp = expected(r)
    try:
      got = execute(r['hist'])
    except Exception as e:  # pylint: disable=broad-except
      got = {'out': 'driver:' + type(e).__name__ + ':' + str(e)[:80]}
    if got != exp:
      diff = sorted(k for k in exp if got.get(k) != exp[k])
      bad.append({'hist': r['hist'], 'expected': exp, 'observed': got, 'differs': diff})
  return len(recs), bad


def run(ctx, workdir):
  import concurrent.futures as cf
  import multiprocessing
  import random
  from vizier import pyvizier as vz  # noqa: F401  (import before fork)
  rng = random.Random(ctx.seed + 110)
  layer = {'configs': [], 'states': 0, 'transitions': 0, 'replayed': 0}
  for name, consts, frac in configs(ctx.thorough):
    cfg = os.path.join(workdir, 'MS_%s.cfg' % name)
    tlc.write_cfg(cfg, constants=consts, properties=PROPS, constraints=['Dump'], view='View')
    res = tlc.must_ok(tlc.run_tlc('MetadataStore', cfg, workdir, workers=1, timeout=3000), 'MetadataStore/' + name)
    if res.violated:
      raise tlc.MachineryError('MetadataStore model violates %s:\n%s' % (res.violated, res.trace_text()[:1500]))
    recs = list(res.printed_json())
    if len(recs) != res.generated - 1:
      raise tlc.MachineryError('MetadataStore dump incomplete: %d vs %d' % (len(recs), res.generated - 1))
    ops = collections.Counter(r['hist'][-1]['op'] for r in recs)
    if set(ops) != {'ns', 'abs_ns', 'set', 'del', 'clear', 'attach'} or not any(r['out'] == 'KeyError' for r in recs):
      raise tlc.MachineryError('vacuous MetadataStore config %s: %s' % (name, dict(ops)))
    chosen = [r for r in recs if frac >= 1 or rng.random() < frac]
    k = max(1, len(chosen) // 64)
    chunks = [chosen[i:i + k] for i in range(0, len(chosen), k)]
    nbad = collections.Counter()
    n = 0
    with cf.ProcessPoolExecutor(max_workers=16, mp_context=multiprocessing.get_context('fork')) as ex:
      for cnt, bad in ex.map(_chunk, chunks):
        n += cnt
        for b in bad:
          key = (b['hist'][-1]['op'], ','.join(b['differs']))
          nbad[key] += 1
          if nbad[key] <= 2:
            ctx.violation({'via': 'metadata-object', 'op': key[0], 'differs': key[1]}, dict(b, kind='metadata-object'))
    layer['configs'].append({'name': name, 'distinct_states': res.distinct, 'transitions': len(recs), 'replayed': n, 'last_ops': dict(ops),
                             'disagreements': {'%s:%s' % k2: v for k2, v in nbad.items()}})
    layer['states'] += res.distinct
    layer['transitions'] += len(recs)
    layer['replayed'] += n
    ctx.log('  metadata object %s: TLC %d states / %d transitions, %d replayed, disagreements %s' % (name, res.distinct, len(recs), n, dict(nbad)))
  ctx.coverage['metadata_object'] = layer
  delta_through_supporters(ctx)
  return layer


def delta_through_supporters(ctx):
  """An algorithm hands its metadata back as a MetadataDelta whose Metadata objects may be HANDLES at any namespace; what
  is applied is the delta's table, at the absolute namespaces of its cells - by the in-RAM supporter and by the service
  alike (the table of a delta is read with the class validated above)."""
  import world
  from vizier import pythia
  from vizier import pyvizier as vz
  from vizier._src.pythia import local_policy_supporters
  from vizier._src.service import pythia_service
  from vizier._src.service import study_pb2
  from vizier._src.service import vizier_service_pb2 as vs
  from vizier.service import pyvizier as svz
  n = 0
  for at in ((), ('a',), ('a', 'b')):
    for rel in ((), ('b',)):
      def make(tag):
        root = vz.Metadata()
        hnd = root.abs_ns(list(at))
        x = hnd
        for c in rel:
          x = x.ns(c)
        x['k1'] = tag
        root.abs_ns(['other'])['k2'] = tag + '-abs'
        return root, hnd

      class DeltaPolicy(pythia.Policy):
        calls = 0

        def __init__(self, supporter=None):
          self._supporter = supporter

        def suggest(self, request):
          DeltaPolicy.calls += 1
          delta = vz.MetadataDelta()
          root, hnd = make('s%d' % DeltaPolicy.calls)
          delta.on_study.attach(vz.Metadata())            # a no-op on the default object
          delta = vz.MetadataDelta(on_study=hnd)
          if DeltaPolicy.calls >= 2:
            _, h2 = make('t%d' % DeltaPolicy.calls)
            delta.on_trials[1] = h2
          return pythia.SuggestDecision(suggestions=[vz.TrialSuggestion({'x': 0.5})], metadata=delta)

        def early_stop(self, request):
          return pythia.EarlyStopDecisions()

      def expected_tables():
        study = {((), 'k1'): 'user'}
        root2, _ = make('s1')
        for ns, k, v in root2.all_items():
          study[(tuple(ns), k)] = v
        root3, _ = make('s2')
        for ns, k, v in root3.all_items():
          study[(tuple(ns), k)] = v
        roott, _ = make('t2')
        trial = {(tuple(ns), k): v for ns, k, v in roott.all_items()}
        return study, trial
      exp_study, exp_trial = expected_tables()
      prob = vz.ProblemStatement()
      prob.search_space.root.add_float_param('x', 0.0, 1.0)
      prob.metric_information.append(vz.MetricInformation('m', goal=vz.ObjectiveMetricGoal.MAXIMIZE))
      prob.metadata['k1'] = 'user'
      # ---- in-RAM supporter
      DeltaPolicy.calls = 0
      sup = local_policy_supporters.InRamPolicySupporter(prob)
      pol = DeltaPolicy()
      got = {}
      try:
        sup.SuggestTrials(pol, 1)
        sup.SuggestTrials(pol, 1)
        got['in-RAM supporter'] = ({(tuple(ns), k): v for ns, k, v in sup.study_config.metadata.all_items()},
                                   {(tuple(ns), k): v for ns, k, v in sup.GetTrials(trial_ids=[1])[0].metadata.all_items()})
      except Exception as e:  # pylint: disable=broad-except
        got['in-RAM supporter'] = ('raised %s: %s' % (type(e).__name__, str(e)[:80]), None)
      # ---- the service
      DeltaPolicy.calls = 0
      try:
        svc = world.make_servicer(None, 'never', lambda problem, algo, supporter, name: DeltaPolicy(supporter))
        sc = svz.StudyConfig.from_problem(prob)
        sc.algorithm = 'RANDOM_SEARCH'
        name = svc.CreateStudy(vs.CreateStudyRequest(parent='owners/Delta', study=study_pb2.Study(display_name='d%d' % n, study_spec=sc.to_proto()))).name
        for wkr in ('w1', 'w2'):
          op = svc.SuggestTrials(vs.SuggestTrialsRequest(parent=name, suggestion_count=1, client_id=wkr))
          if op.HasField('error'):
            raise RuntimeError(op.error.message[:100])
        cfg = svz.StudyConfig.from_proto(svc.GetStudy(vs.GetStudyRequest(name=name)).study_spec)
        t1 = svz.TrialConverter.from_proto(svc.GetTrial(vs.GetTrialRequest(name=name + '/trials/1')))
        got['service'] = ({(tuple(ns), k): v for ns, k, v in cfg.metadata.all_items()}, {(tuple(ns), k): v for ns, k, v in t1.metadata.all_items()})
      except Exception as e:  # pylint: disable=broad-except
        got['service'] = ('raised %s: %s' % (type(e).__name__, str(e)[:80]), None)
      for where, (gs, gt) in got.items():
        n += 1
        if gs != exp_study or gt != exp_trial:
          ctx.violation({'via': 'metadata-delta', 'where': where, 'handle_at_root': at == (), 'what': 'study' if gs != exp_study else 'trial'},
                        {'kind': 'metadata-delta', 'where': where, 'handle_namespace': list(at), 'written_relative_to_handle': list(rel),
                         'expected_study': sorted(map(str, exp_study.items())), 'observed_study': sorted(map(str, gs.items())) if isinstance(gs, dict) else gs,
                         'expected_trial': sorted(map(str, exp_trial.items())), 'observed_trial': sorted(map(str, gt.items())) if isinstance(gt, dict) else gt})
  ctx.coverage.setdefault('metadata_object', {})['deltas_through_supporters'] = n
  ctx.log('  metadata deltas built from namespaced handles: %d applications (in-RAM supporter, service)' % n)


def replay(ctx, c):
  if c.get('kind') == 'metadata-delta':
    delta_through_supporters(ctx)
    ctx.coverage.update({'states': 1, 'transitions': 1, 'traces_validated_against_impl': 1})
    return
  got = execute(c['hist'])
  if got != c['expected'] and got != {k: (tup(v) if isinstance(v, list) else v) for k, v in c['expected'].items()}:
    import json
    if json.loads(json.dumps(got)) != json.loads(json.dumps(c['expected'])):
      ctx.violation({'via': 'metadata-object', 'op': c['hist'][-1]['op']}, c)
      print('replay: vz.Metadata still differs from MetadataStore.tla: %s' % got)
      ctx.coverage.update({'states': 1, 'transitions': 1, 'traces_validated_against_impl': 1})
      return
  print('replay: vz.Metadata now agrees with MetadataStore.tla on this history')
  ctx.coverage.update({'states': 1, 'transitions': 1, 'traces_validated_against_impl': 1})
