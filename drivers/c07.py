"""C07 - RAM and SQL datastores are observationally equivalent behind the service."""
import collections
import json

import c07_datastore
import speca
import svc
import replay as replay_mod
import tlc

LEVEL = 'model_checking'
K = svc.K
BACKENDS = ['ram', 'sqlmem', 'sqlfile']


def rounds(ctx):
  dk = {'CreateStudy', 'DeleteStudy', 'SuggestTrials', 'GetOperation', 'CheckEarlyStopping', 'UpdateMetadata', 'ListStudies', 'CreateTrial'}
  if not ctx.thorough:
    return [
        dict(name='delete_recreate_d4', consts=speca.constants(
            MaxDepth=4, MaxId=2, MaxCount=1, MaxDeliver=1, Clients={'w1'}, Params={'p1'}, Meas={'m1'}, Vals={'v1'}, Kinds=dk),
             expect=[('DeleteStudy', 'None'), ('DeleteStudy', 'NotFound'), ('UpdateMetadata', 'None'), ('GetOperation', 'None'),
                     ('GetOperation', 'NotFound'), ('ListStudies', 'NotFound')],
             backends={'ram': 1.0, 'sqlmem': 1.0, 'sqlfile': 0.08}),
        dict(name='all_kinds_d3', consts=speca.constants(MaxDepth=3, MaxDeliver=2, Meas={'m1', 'mp'}),
             backends={'ram': 1.0, 'sqlmem': 1.0, 'sqlfile': 0.05}),
        dict(name='two_owners_same_study_id_d4', consts=speca.constants(
            MaxDepth=4, MaxDeliver=1, MaxCount=1, MaxId=2, Studies={'s1', 's2'}, Clients={'w1'}, Params={'p1'}, Meas={'m1'}, SharedStudyId=True,
            Kinds={'CreateStudy', 'SuggestTrials', 'CompleteTrial', 'DeleteTrial', 'DeleteStudy', 'CreateTrial', 'UpdateMetadata'}),
             backends={'ram': 1.0, 'sqlmem': 1.0}),
        dict(name='es_other_trials_d4', consts=speca.constants(
            MaxDepth=4, Recycle='always', EsAlso=True, MaxId=2, MaxCount=2, MaxDeliver=2, Params={'p1'}, Meas={'m1'}, Clients={'w1'},
            Kinds={'CreateStudy', 'SuggestTrials', 'CheckEarlyStopping', 'StopTrial'}),
             backends={'ram': 1.0, 'sqlmem': 1.0, 'sqlfile': 0.1}),
        dict(name='recreate_numbering_d5', consts=speca.constants(
            MaxDepth=5, MaxId=2, MaxCount=1, MaxDeliver=1, Clients={'w1'}, Params={'p1'}, Meas={'m1'}, Vals={'v1'},
            Kinds={'CreateStudy', 'DeleteStudy', 'SuggestTrials', 'GetOperation', 'CheckEarlyStopping'}),
             backends={'ram': 1.0, 'sqlmem': 1.0}),
    ]
  return [
      dict(name='delete_recreate_d5', consts=speca.constants(
          MaxDepth=5, MaxId=2, MaxCount=1, MaxDeliver=1, Clients={'w1'}, Params={'p1'}, Meas={'m1'}, Vals={'v1'}, Kinds=dk - {'ListStudies'}),
           backends={'ram': 1.0, 'sqlmem': 1.0, 'sqlfile': 0.02}),
      dict(name='all_kinds_d4', consts=speca.constants(MaxDepth=4, MaxDeliver=2, Meas={'m1', 'mp'}),
           backends={'ram': 1.0, 'sqlmem': 1.0, 'sqlfile': 0.02}),
      dict(name='two_studies_d3', consts=speca.constants(MaxDepth=3, MaxDeliver=2, Studies={'s1', 's2'}, Cells={'c1', 'c2'}),
           backends={'ram': 1.0, 'sqlmem': 1.0, 'sqlfile': 0.1}),
  ]


def _ordered_walk(job):
  """One seeded random walk on one backend, keeping what the model abstracts away: the order of every listing and of the
  trials in every suggestion response."""
  import random
  import record
  import world
  seed, backend, conf, kinds, length, scratch = job
  rng = random.Random(seed)
  w = world.World(conf, backend=backend, scratch=scratch)
  obs = []
  state = None
  pending = [{'rpc': 'CreateStudy', 's': conf['Studies'][0], 'cfg': 'max1'}]
  while len(obs) < length:
    c = pending.pop(0) if pending else record.random_call(rng, conf, state, kinds, {'AlgoMeta': False})
    if c is None:
      continue
    del world.RAW_ORDER[:]
    resp = w.run(c)
    resp.pop('exc', None)
    order = list(world.RAW_ORDER) if c['rpc'] in ('SuggestTrials', 'GetOperation') else []
    state = w.project()
    obs.append({'call': c, 'resp': resp, 'suggestion_order': order, 'listings': w.raw_listings()})
  return seed, backend, obs


def ordered_differential(ctx, d):
  """Layer 2: the same seeded walks on every backend, compared with each other directly - including what the model leaves
  open (order of ListTrials / ListStudies, which queued or active trials a suggestion hands back and in which order): the
  model allows several answers there, but RAM and SQL must give the same one."""
  import concurrent.futures as cf
  import multiprocessing
  conf = {'Studies': ['s1', 's2'], 'Clients': ['w1', 'w2'], 'MaxId': 8, 'Cells': ['c1'], 'Recycle': 'never'}
  kinds = ['SuggestTrials', 'SuggestTrials', 'CreateTrial', 'CreateTrial', 'CompleteTrial', 'AddMeasurement', 'StopTrial', 'DeleteTrial', 'DeleteTrial',
           'UpdateMetadata', 'CreateStudy', 'DeleteStudy', 'SetStudyState', 'CheckEarlyStopping']
  n = 120 if ctx.thorough else 40
  length = 30
  jobs = [(ctx.seed * 1000 + i, b, conf, kinds, length, d) for i in range(n) for b in BACKENDS]
  by = {}
  with cf.ProcessPoolExecutor(max_workers=16, mp_context=multiprocessing.get_context('fork')) as ex:
    for seed, backend, obs in ex.map(_ordered_walk, jobs, chunksize=2):
      by.setdefault(seed, {})[backend] = obs
  bad = 0
  reordered = 0
  for seed, per in sorted(by.items()):
    ref_b = BACKENDS[0]
    for b in BACKENDS[1:]:
      for k, (x, y) in enumerate(zip(per[ref_b], per[b])):
        if x != y:
          bad += 1
          what = ('call' if x['call'] != y['call'] else 'response' if x['resp'] != y['resp'] else
                  'suggestion_order' if x['suggestion_order'] != y['suggestion_order'] else 'listing_order')
          if bad <= 3:
            ctx.violation({'via': 'differential', 'what': what, 'rpc': x['call']['rpc'], 'backends': '%s/%s' % (ref_b, b)},
                          {'kind': 'differential', 'seed': seed, 'step': k, 'conf': conf, 'calls': [o['call'] for o in per[ref_b][:k + 1]],
                           ref_b: {kk: x[kk] for kk in ('resp', 'suggestion_order', 'listings')}, b: {kk: y[kk] for kk in ('resp', 'suggestion_order', 'listings')}})
          break
    for o in per[ref_b]:
      for v in o['listings'].values():
        if isinstance(v, list) and v and isinstance(v[0], int) and v != sorted(v):
          reordered += 1
  layer = {'walks': n, 'length': length, 'backends': list(BACKENDS), 'first_differences': bad, 'listings_not_in_id_order_seen': reordered}
  ctx.log('  differential walks: %d seeds x %d backends x %d calls, raw order compared; differences: %d' % (n, len(BACKENDS), length, bad))
  ctx.coverage['ordered_differential'] = layer
  ctx.coverage['traces_validated_against_impl'] += n * len(BACKENDS)
  return layer


def run(ctx):
  ctx.assumptions += [
      'equivalence is decided through the model: the model is deterministic given the environment choices in the call record, so '
      'acceptance of a history on every backend is step-by-step equality of their abstract outcomes and states',
      'sqlfile = SQLite file in a scratch directory, fresh per history',
  ]
  cov = ctx.coverage
  cov.update({'states': 0, 'transitions': 0, 'traces_validated_against_impl': 0, 'configs': []})
  nontrivial = set()
  import concurrent.futures as cf
  with tlc.Scratch('c07') as d:
    layer = c07_datastore.run(ctx, d)           # layer 0: each backend against the datastore contract (DataStore.tla)
    cov['states'] += layer['states']
    cov['transitions'] += layer['transitions']
    cov['traces_validated_against_impl'] += layer['replayed']
    rs = rounds(ctx)
    # thorough: at most two configurations' transitions in memory at a time (see svc.run_rounds)
    ex = cf.ThreadPoolExecutor(max_workers=4 if not ctx.thorough else 1)
    futs = {}

    def start(i):
      if i < len(rs) and i not in futs:
        futs[i] = ex.submit(svc.tlc_round, rs[i]['name'], rs[i]['consts'], d, rs[i].get('expect', ()))
    for i0 in range(len(rs) if not ctx.thorough else 1):
      start(i0)
    for i_r, r in enumerate(rs):
      start(i_r + 1)
      res, recs, outcomes = futs.pop(i_r).result()
      conf = speca.conf_of(r['consts'])
      cov['states'] += res.distinct
      cov['transitions'] += res.generated - 1
      entry = {'name': r['name'], 'distinct_states': res.distinct, 'transitions': res.generated - 1, 'depth': r['consts']['MaxDepth'],
               'outcome_classes': outcomes, 'replay': {}}
      ctx.log('config %s: TLC %d distinct / %d transitions' % (r['name'], res.distinct, res.generated - 1))
      per = {}
      for backend, frac in r['backends'].items():
        rr = replay_mod.replay(recs, conf, backend=backend, scratch=d, sample=None if frac >= 1 else frac, seed=ctx.seed)
        entry['replay'][backend] = rr.summary()
        cov['traces_validated_against_impl'] += rr.histories
        nontrivial |= rr.nontrivial
        per[backend] = {replay_mod.canon(dv['hist']): dv for dv in rr.divergences}
        ctx.log('  replay %s: %s' % (backend, rr.summary()))
      cov['configs'].append(entry)
      # a divergence on one backend that another backend (replayed on the same history) does not share, or shares with a
      # different observation, breaks the equivalence
      keys = set().union(*[set(v) for v in per.values()])
      agree_all = 0
      for k in keys:
        obs = {b: (per[b][k]['got_resp'], per[b][k]['got_state']) for b in per if k in per[b]}
        full = [b for b, f in r['backends'].items() if f >= 1]
        differing = any(b not in obs for b in full) or len({replay_mod.canon(o) for o in obs.values()}) > 1
        dv = next(iter(per[b][k] for b in per if k in per[b]))
        if differing:
          sig = dict(dv['sig'], via='replay', backends_diverging=','.join(sorted(obs)))
          ctx.violation(sig, {'kind': 'replay', 'backend': sorted(obs)[0], 'conf': conf, 'hist': dv['hist'],
                              'expected': {'resp': dv['exp_resp'], 'st': dv['exp_state']},
                              'observed': {b: {'resp': o[0], 'st': o[1]} for b, o in obs.items()}, 'diff': dv['diff']})
        else:
          agree_all += 1
      if agree_all:
        ctx.log('NOTE: %d histor(ies) diverge from the model identically on all backends (equivalence holds; see C01/C02/C06/C10)' % agree_all)
        cov['identical_divergences_all_backends'] = cov.get('identical_divergences_all_backends', 0) + agree_all
      if recs:
        ctx.sample({'config': r['name'], 'history': recs[(ctx.seed * 7919 + 3) % len(recs)]['hist']})
      del recs
    ex.shutdown(wait=True)
  with tlc.Scratch('c07d') as d2:
    ordered_differential(ctx, d2)
  # recorded walks: the same seeds on every backend, each validated by the trace spec
  conf = {'Studies': ['s1', 's2'], 'Clients': ['w1', 'w2'], 'MaxId': 8, 'Cells': ['c1', 'c2'], 'Recycle': 'never'}
  kinds = speca.ALL_KINDS + ['DeleteStudy', 'CreateStudy', 'UpdateMetadata', 'UpdateMetadata', 'SuggestTrials', 'SuggestTrials']
  sub = common_ctx(ctx)
  svc.run_rounds(sub, 'C07', [], [dict(name='mixed_delete', conf=conf, n=300 if ctx.thorough else 90, length=40, kinds=kinds,
                                       opts={'AlgoMeta': True}, backends=BACKENDS)], report_all=True)
  for k in ('traces_validated_against_impl',):
    cov[k] += sub.coverage[k]
  cov['walks'] = sub.coverage.get('walks')
  ctx.violations += sub.violations
  for k, v in sub.known_hits.items():
    ctx.known_hits[k] = ctx.known_hits.get(k, 0) + v
  ctx.samples += sub.samples
  cov['distinct_nontrivial'] = len(nontrivial) + sub.coverage.get('distinct_nontrivial', 0) + cov['datastore_contract']['distinct_nontrivial']
  cov['evaluations'] = cov['traces_validated_against_impl']
  cov['rule'] = 'a case is one call history executed on a backend; non-trivial = contains a state-changing call; distinct by abstract call sequence'
  cov['exhaustive'] = True


def common_ctx(ctx):
  import common
  c = common.Ctx(ctx.prop, ctx.tier, ctx.seed, ctx.level, ctx.replay_path)
  c.t0 = ctx.t0
  return c


def replay(ctx, case):
  c = case['case']
  if c.get('kind') == 'datastore':
    import dsworld
    with tlc.Scratch('c07') as d:
      w = dsworld.World(c['conf'], backend=c['backend'], scratch=d)
      resp = None
      for call in c['hist']:
        resp = w.run(call)
      resp.pop('exc', None)
      st = w.project()
      w.close()
    if resp != c['expected']['resp'] or st != c['expected']['st']:
      ctx.violation(dict(case['sig']), c)
      print('replay: %s still deviates from the datastore contract: got %s' % (c['backend'], resp))
    else:
      print('replay: %s now follows the datastore contract on this history' % c['backend'])
    ctx.coverage.update({'states': 1, 'transitions': 1, 'traces_validated_against_impl': 1})
    return
  if c.get('kind') == 'differential':
    import world
    obs = {}
    with tlc.Scratch('c07') as d:
      for b in BACKENDS:
        w = world.World(c['conf'], backend=b, scratch=d)
        for call in c['calls']:
          del world.RAW_ORDER[:]
          resp = w.run(call)
          resp.pop('exc', None)
        obs[b] = {'resp': resp, 'suggestion_order': list(world.RAW_ORDER) if c['calls'][-1]['rpc'] in ('SuggestTrials', 'GetOperation') else [],
                  'listings': w.raw_listings()}
    if any(obs[b] != obs[BACKENDS[0]] for b in BACKENDS):
      ctx.violation(dict(case['sig']), c)
      print('replay: backends still differ: %s' % json.dumps(obs)[:600])
    else:
      print('replay: all backends now give the same raw observations on this history')
    ctx.coverage.update({'states': 1, 'transitions': 1, 'traces_validated_against_impl': len(BACKENDS)})
    return
  if c.get('kind') == 'replay':
    import world
    obs = {}
    with tlc.Scratch('c07') as d:
      for b in BACKENDS:
        w = world.World(c['conf'], backend=b, scratch=d)
        resp = None
        for call in c['hist']:
          resp = w.run(call)
        resp.pop('exc', None)
        obs[b] = (resp, w.project())
    if len({replay_mod.canon(o) for o in obs.values()}) > 1:
      ctx.violation({'rpc': c['hist'][-1]['rpc'], 'via': 'replay'}, c)
      print('replay: backends still differ on this history')
    else:
      print('replay: all three backends agree on this history')
    ctx.coverage.update({'states': 1, 'transitions': 1, 'traces_validated_against_impl': 3})
    return
  svc.replay_case(ctx, case, 'C07')
