"""C19 - Acquisition optimiser returns in-bounds candidates, the best it evaluated."""
import collections
import itertools
import json
import os
import random
import re
import time

import verif_boot  # noqa: F401
import fkey
import numpy as np
import tlc

LEVEL = 'exploration'
VV = re.compile(r'<<"VV", (\d+), "(\w+)">>')
G = 4            # cells per continuous dimension
NEG = -1000      # the model's -inf


def configs(ctx, rng):
  # (continuous, categorical sizes); with power-of-two padding 3 -> 4 and 5 -> 8 continuous columns, 3 -> 4 categorical columns
  layouts = [(1, ()), (2, ()), (0, (3,)), (1, (2,)), (2, (3, 2)), (0, (2, 3)), (3, ()), (5, ()), (3, (2,)), (0, (2, 2, 2)), (1, (2, 3, 2))]
  tables = ['interior', 'corner', 'categorical', 'plateau', 'neginf']
  allc = []
  for (nc, cats), count, batch, evals, prior, strat, table, pad in itertools.product(
      layouts, (1, 2, 3), (5, 25), (1, 4), (False, True), ('eagle', 'random'), tables, (False, True)):
    if table == 'categorical' and not cats:
      continue
    allc.append(dict(nc=nc, cats=list(cats), count=count, batch=batch, max_eval=batch * evals, prior=prior, strategy=strat, table=table, pad=pad))
  k = 30 if not ctx.thorough else 220
  chosen = rng.sample(allc, k)
  # stratum: every layout that really gets padded columns, under both strategies (padding must never leak)
  padded = [c for c in allc if c['pad'] and (c['nc'] in (3, 5) or len(c['cats']) == 3)]
  for lay in [(3, []), (5, []), (3, [2]), (0, [2, 2, 2]), (1, [2, 3, 2])]:
    for strat in ('eagle', 'random'):
      pool = [c for c in padded if (c['nc'], c['cats']) == lay and c['strategy'] == strat and (ctx.thorough or c['max_eval'] <= 25)]
      chosen += rng.sample(pool, 1 if not ctx.thorough else 3)
  return chosen, len(allc)


def make_table(cfg, rng):
  """Integer score per cell: cells = G^nc * prod(cats)."""
  ncell = (G ** cfg['nc']) * int(np.prod(cfg['cats'])) if (cfg['nc'] or cfg['cats']) else 1
  t = [rng.randrange(0, 5) for _ in range(ncell)]
  if cfg['table'] == 'interior':
    t[rng.randrange(ncell)] = 50
  elif cfg['table'] == 'corner':
    t[0] = 50
  elif cfg['table'] == 'categorical':
    t[ncell - 1] = 50
  elif cfg['table'] == 'plateau':
    t = [3] * ncell
  elif cfg['table'] == 'neginf':
    t = [NEG if rng.random() < 0.5 else v for v in t]
    t[rng.randrange(ncell)] = 7
  return t


def cell_index(cfg, cont, cat):
  idx = 0
  for j in range(cfg['nc']):
    c = min(G - 1, max(0, int(np.floor(float(cont[j]) * G))))
    idx = idx * G + c
  for j, m in enumerate(cfg['cats']):
    idx = idx * m + int(min(m - 1, max(0, cat[j])))
  return idx


def run_opt(cfg, table, seed):
  import jax
  import jax.numpy as jnp
  from vizier import pyvizier as vz
  from vizier._src.algorithms.optimizers import eagle_strategy as es
  from vizier._src.algorithms.optimizers import random_vectorized_optimizer as rvo
  from vizier._src.algorithms.optimizers import vectorized_base as vb
  from vizier._src.jax import types
  from vizier.pyvizier import converters
  from vizier.pyvizier.converters import padding
  problem = vz.ProblemStatement()
  for j in range(cfg['nc']):
    problem.search_space.root.add_float_param('x%d' % j, 0.0, 1.0)
  for j, m in enumerate(cfg['cats']):
    problem.search_space.root.add_categorical_param('c%d' % j, [chr(97 + i) for i in range(m)])
  problem.metric_information.append(vz.MetricInformation('m', goal=vz.ObjectiveMetricGoal.MAXIMIZE))
  kw = {}
  if cfg['pad']:
    kw['padding_schedule'] = padding.PaddingSchedule(num_trials=padding.PaddingType.POWERS_OF_2, num_features=padding.PaddingType.POWERS_OF_2)
  conv = converters.TrialToModelInputConverter.from_problem(problem, **kw)
  tab = jnp.asarray([float(v) if v != NEG else -np.inf for v in table])
  evaluated = []
  needle = {'on': False}

  def score(x, seed=None):
    c = x.continuous.padded_array
    k = x.categorical.padded_array
    idx = jnp.zeros(c.shape[:-1], dtype=jnp.int32)
    for j in range(cfg['nc']):
      cj = jnp.clip(jnp.floor(c[..., j] * G), 0, G - 1).astype(jnp.int32)
      idx = idx * G + cj
    for j, m in enumerate(cfg['cats']):
      idx = idx * m + jnp.clip(k[..., j], 0, m - 1).astype(jnp.int32)
    s = tab[idx]
    if needle['on']:
      # a measure-zero cell: the exact prior point scores higher than anything else (its index is len(table) + 1 in the model)
      hit = jnp.ones(s.shape, dtype=bool)
      for j in range(cfg['nc']):
        hit = hit & (c[..., j] == needle['cont'][j])
      for j in range(len(cfg['cats'])):
        hit = hit & (k[..., j] == needle['cat'][j])
      s = jnp.where(hit, 60.0, s)
      idx = jnp.where(hit, len(table), idx)
    evaluated.append((np.asarray(idx).reshape(-1), np.asarray(s).reshape(-1), None, None))
    return s

  fac = es.VectorizedEagleStrategyFactory() if cfg['strategy'] == 'eagle' else rvo.random_strategy_factory
  opt = vb.VectorizedOptimizerFactory(strategy_factory=fac, max_evaluations=cfg['max_eval'], suggestion_batch_size=cfg['batch'], use_fori=False)(converter=conv)
  prior = None
  prior_best = NEG
  if cfg['prior']:
    best_cell = int(np.argmax([v for v in table]))
    # a point inside the best cell
    rem = best_cell
    catv = []
    for m in reversed(cfg['cats']):
      catv.append(rem % m)
      rem //= m
    catv = list(reversed(catv))
    contv = []
    for _ in range(cfg['nc']):
      contv.append((rem % G + 0.5) / G)
      rem //= G
    contv = list(reversed(contv))
    trial = vz.Trial(parameters=dict([('x%d' % j, contv[j]) for j in range(cfg['nc'])] + [('c%d' % j, chr(97 + catv[j])) for j in range(len(cfg['cats']))]))
    prior = conv.to_features([trial])
    needle.update(on=True, cont=[float(v) for v in np.asarray(prior.continuous.padded_array)[0][:cfg['nc']]],
                  cat=[int(v) for v in np.asarray(prior.categorical.padded_array)[0][:len(cfg['cats'])]])
    prior_best = 60
  res = opt(score, count=cfg['count'], prior_features=prior, seed=jax.random.PRNGKey(seed))
  cont = np.asarray(res.features.continuous)
  cat = np.asarray(res.features.categorical)
  rewards = np.asarray(res.rewards)
  rows = []
  for i in range(len(rewards)):
    c = cont[i].reshape(-1)
    k = cat[i].reshape(-1)
    pad_ok = bool(np.all(c[cfg['nc']:] == 0) and np.all(k[len(cfg['cats']):] == 0))
    r = float(rewards[i])
    rows.append({'cont': [fkey.key(v) for v in c[:cfg['nc']]], 'cat': [int(v) for v in k[:len(cfg['cats'])]], 'pad_ok': pad_ok,
                 'cell': (len(table) + 1) if (needle['on'] and [float(v) for v in c[:cfg['nc']]] == needle['cont'] and [int(v) for v in k[:len(cfg['cats'])]] == needle['cat'])
                 else cell_index(cfg, c, k) + 1, 'reward': NEG if r == -np.inf else int(r) if r == int(r) else 99999})
  ev = []
  n_prior = 1 if cfg['prior'] else 0
  for b, (idx, s, c, k) in enumerate(evaluated):
    if b < n_prior and cfg['prior']:
      continue       # the prior batch is scored but is not a candidate of the search itself
    ev += [NEG if v == -np.inf else int(v) for v in s]
  return rows, ev, prior_best


def observe(cfg, rng):
  table = make_table(cfg, rng)
  seed = rng.randrange(1, 10 ** 6)
  rec = {'cfg': cfg, 'count': cfg['count'], 'ncats': cfg['cats'], 'table': table, 'refused': False, 'has_prior': cfg['prior'], 'prior_best': NEG,
         'result': [], 'evaluated': [], 'same_seed_same_result': True, 'zero': fkey.key(0.0), 'one': fkey.key(1.0)}
  try:
    rows, ev, prior_best = run_opt(cfg, table, seed)
    rows2, ev2, _ = run_opt(cfg, table, seed)
  except Exception as e:  # pylint: disable=broad-except
    rec['refused'] = True
    rec['error'] = '%s: %s' % (type(e).__name__, str(e)[:200])
    return rec
  rec['table'] = table + [60]
  rec.update({'result': rows, 'evaluated': ev, 'prior_best': prior_best, 'same_seed_same_result': rows == rows2 and ev == ev2})
  return rec



def run_prior_scenario(job):
  """Eagle seeded with many prior points (each a measure-zero needle with its own score) and a budget that just covers the
  pool: the best prior must be re-evaluated and returned, whatever its age; candidates stay in the unit cube even when a
  prior lies outside it."""
  sc, seed = job
  import jax
  import jax.numpy as jnp
  from vizier import pyvizier as vz
  from vizier._src.algorithms.optimizers import eagle_strategy as es
  from vizier._src.algorithms.optimizers import vectorized_base as vb
  from vizier.pyvizier import converters
  rng = random.Random(seed)
  nc, batch = sc['nc'], sc['batch']
  problem = vz.ProblemStatement()
  for j in range(nc):
    problem.search_space.root.add_float_param('x%d' % j, 0.0, 1.0)
  problem.metric_information.append(vz.MetricInformation('m', goal=vz.ObjectiveMetricGoal.MAXIMIZE))
  conv = converters.TrialToModelInputConverter.from_problem(problem)
  ecfg = es.EagleStrategyConfig(**sc['eagle'])
  fac = es.VectorizedEagleStrategyFactory(eagle_config=ecfg)
  pool = fac(conv, suggestion_batch_size=batch).pool_size
  n_pri = {'few': 3, 'pool': pool, 'pool_plus': pool + 2}[sc['n_priors']]
  budget = {'pool': pool, 'pool_minus_1': max(batch + 1, pool - 1), 'pool_plus': pool + batch - 1}[sc['budget']]
  # prior points: distinct multiples of 1/64 (exact in float32); chronological order, index 0 = oldest
  pts = []
  while len(pts) < n_pri:
    p = [rng.randrange(1, 63) / 64.0 for _ in range(nc)]
    if p not in pts:
      pts.append(p)
  scores = [10 + rng.randrange(0, 20) for _ in pts]
  best_i = {'oldest': 0, 'newest': n_pri - 1, 'middle': n_pri // 2}[sc['best']]
  scores[best_i] = 60
  if sc['oob']:
    pts[best_i] = [1.6] + [-0.25] * (nc - 1)          # the best prior lies outside the (current) bounds
  trials = [vz.Trial(parameters={('x%d' % j): p[j] for j in range(nc)}) for p in pts]
  prior = conv.to_features(trials)
  needles = np.asarray(np.asarray(prior.continuous.padded_array)[:, :nc], dtype=np.float32)
  nscore = jnp.asarray(scores, dtype=jnp.float32)
  evaluated = []

  def score(x, seed=None):
    c = x.continuous.padded_array[..., :nc]
    base = jnp.floor(c[..., 0] * 4.0) % 3.0                       # a dull background: 0, 1, 2
    hit = jnp.all(c[..., None, :] == jnp.asarray(needles)[None, ...], axis=-1) if c.ndim == 2 else jnp.all(c[..., None, :] == jnp.asarray(needles), axis=-1)
    s = jnp.where(jnp.any(hit, axis=-1), jnp.max(jnp.where(hit, nscore, -1.0), axis=-1), base)
    evaluated.append(np.asarray(s).reshape(-1))
    return s.reshape(c.shape[:-1]) if s.shape != c.shape[:-1] else s

  rec = {'scenario': sc, 'pool': pool, 'n_priors': n_pri, 'budget': budget, 'refused': False}
  try:
    opt = vb.VectorizedOptimizerFactory(strategy_factory=fac, max_evaluations=budget, suggestion_batch_size=batch, use_fori=False)(converter=conv)
    res = opt(score, count=sc['count'], prior_features=prior, seed=jax.random.PRNGKey(seed % 1000))
  except Exception as e:  # pylint: disable=broad-except
    rec['refused'] = True
    rec['error'] = '%s: %s' % (type(e).__name__, str(e)[:200])
    return rec
  cont = np.asarray(res.features.continuous).reshape(len(np.asarray(res.rewards)), -1)[:, :nc]
  rewards = [float(r) for r in np.asarray(res.rewards)]
  rec['rewards'] = rewards
  rec['in_bounds'] = bool(np.all(cont >= 0.0) and np.all(cont <= 1.0))
  rec['count_ok'] = len(rewards) == sc['count']
  # the reported reward is the score at the returned candidate
  chk = np.asarray(score(type('X', (), {'continuous': type('P', (), {'padded_array': jnp.asarray(cont)})()})()))
  rec['reward_is_score'] = bool(np.allclose(chk, np.asarray(rewards)))
  rec['best_prior'] = 60 if not sc['oob'] else max(s for i, s in enumerate(scores) if i != best_i)
  rec['best_returned'] = max(rewards) if rewards else None
  # the whole pool can be evaluated once within the budget (rounds are whole batches)
  rec['budget_covers_pool'] = (-(-budget // batch)) * batch >= pool
  return rec



def run_parallel_scenario(job):
  """A parallel acquisition (n_parallel = 2: one score per PAIR of points) seeded with priors whose number is not a
  multiple of 2 and whose arrays carry trial padding: no padding row may be scored as a prior or returned."""
  sc, seed = job
  import jax
  import jax.numpy as jnp
  from vizier import pyvizier as vz
  from vizier._src.algorithms.optimizers import eagle_strategy as es
  from vizier._src.algorithms.optimizers import vectorized_base as vb
  from vizier.pyvizier import converters
  from vizier.pyvizier.converters import padding
  rng = random.Random(seed)
  nc, ncat = 2, 3
  problem = vz.ProblemStatement()
  for j in range(nc):
    problem.search_space.root.add_float_param('x%d' % j, 0.0, 1.0)
  problem.search_space.root.add_categorical_param('c0', ['a', 'b', 'c'])
  problem.metric_information.append(vz.MetricInformation('m', goal=vz.ObjectiveMetricGoal.MAXIMIZE))
  kw = {'padding_schedule': padding.PaddingSchedule(num_trials=padding.PaddingType.POWERS_OF_2)} if sc['pad_trials'] else {}
  conv = converters.TrialToModelInputConverter.from_problem(problem, **kw)
  trials = [vz.Trial(parameters={'x0': rng.randrange(1, 63) / 64.0, 'x1': rng.randrange(1, 63) / 64.0, 'c0': rng.choice('abc')}) for _ in range(sc['n_priors'])]
  prior = conv.to_features(trials)
  seen_bad = []

  def score(x, seed=None):
    c = x.continuous.padded_array
    k = x.categorical.padded_array
    bad = jnp.any(jnp.isnan(c)) | jnp.any(k[..., :1] < 0) | jnp.any(k[..., :1] >= ncat)
    seen_bad.append(bool(bad))
    # "for any score function": this one LIKES padding rows (NaN features), so a padding row that wrongly entered the pool wins
    member = jnp.where(jnp.isnan(c[..., 0]), 5.0, 1.0 - jnp.abs(jnp.nan_to_num(c[..., 0]) - 0.3) + 0.1 * k[..., 0])
    return jnp.sum(member, axis=-1) if member.ndim == 2 else member

  rec = {'scenario': sc, 'refused': False}
  try:
    opt = vb.VectorizedOptimizerFactory(strategy_factory=es.VectorizedEagleStrategyFactory(), max_evaluations=40, suggestion_batch_size=5, use_fori=False)(converter=conv)
    res = opt(score, count=sc['count'], prior_features=prior, n_parallel=2, seed=jax.random.PRNGKey(seed % 1000))
  except Exception as e:  # pylint: disable=broad-except
    rec['refused'] = True
    rec['error'] = '%s: %s' % (type(e).__name__, str(e)[:200])
    return rec
  cont = np.asarray(res.features.continuous)
  cat = np.asarray(res.features.categorical)
  rec['shape_ok'] = cont.shape[:2] == (sc['count'], 2) and cat.shape[:2] == (sc['count'], 2)
  rec['in_bounds'] = bool(np.all(cont[..., :nc] >= 0.0) and np.all(cont[..., :nc] <= 1.0) and np.all(cat[..., :1] >= 0) and np.all(cat[..., :1] < ncat))
  rec['scored_a_padding_row'] = any(seen_bad)
  return rec


def prior_scenarios(ctx, rng):
  import concurrent.futures as cf
  import multiprocessing
  scen = []
  for nc, batch, eagle in ((2, 5, {}), (4, 8, {'max_pool_size': 20}), (3, 4, {'pool_size': 12})):
    for n_priors in ('few', 'pool', 'pool_plus'):
      for best in ('oldest', 'newest', 'middle'):
        for budget in ('pool', 'pool_minus_1', 'pool_plus'):
          for oob in (False, True):
            scen.append(dict(nc=nc, batch=batch, eagle=eagle, n_priors=n_priors, best=best, budget=budget, oob=oob, count=2))
  if not ctx.thorough:
    must = [s for s in scen if s['best'] == 'oldest' and s['n_priors'] != 'few' and not s['oob']]
    rest = [s for s in scen if s not in must]
    scen = rng.sample(must, min(len(must), 10)) + rng.sample(rest, 10)
  jobs = [(s, rng.randrange(10 ** 9)) for s in scen]
  with cf.ProcessPoolExecutor(max_workers=8, mp_context=multiprocessing.get_context('spawn')) as ex:
    out = list(ex.map(run_prior_scenario, jobs))
  counts = collections.Counter()
  for r in out:
    sc = r['scenario']
    if r['refused']:
      v = 'refused'
    elif not r['count_ok']:
      v = 'wrong_count'
    elif not r['in_bounds']:
      v = 'out_of_bounds'
    elif not r['reward_is_score']:
      v = 'reward_is_not_the_score_at_the_candidate'
    elif r['budget_covers_pool'] and r['best_returned'] < r['best_prior']:
      v = 'worse_than_prior'
    else:
      v = 'ok'
    counts[v] += 1
    if v != 'ok':
      ctx.violation({'via': 'vecopt-priors', 'verdict': v, 'strategy': 'eagle', 'best_prior_is': sc['best'], 'prior_out_of_bounds': sc['oob']},
                    {'kind': 'vecopt-priors', 'scenario': sc, 'pool_size': r.get('pool'), 'n_priors': r.get('n_priors'), 'budget': r.get('budget'),
                     'rewards': r.get('rewards'), 'best_prior_score': r.get('best_prior'), 'error': r.get('error')})
  # parallel acquisitions with priors
  pjobs = [(dict(n_priors=n, pad_trials=pad, count=2), rng.randrange(10 ** 9)) for n in ((5, 11, 4) if not ctx.thorough else (3, 4, 5, 6, 7, 10, 11)) for pad in (True, False)]
  with cf.ProcessPoolExecutor(max_workers=8, mp_context=multiprocessing.get_context('spawn')) as ex:
    pout = list(ex.map(run_parallel_scenario, pjobs))
  for r in pout:
    sc = r['scenario']
    # (padding rows of the prior array may be SCORED - the result is masked - but must never be returned)
    v = 'refused' if r['refused'] else 'wrong_shape' if not r['shape_ok'] else 'out_of_bounds' if not r['in_bounds'] else 'ok'
    counts['parallel:' + v] += 1
    if v != 'ok':
      ctx.violation({'via': 'vecopt-parallel', 'verdict': v, 'strategy': 'eagle', 'n_priors': sc['n_priors'], 'trial_padding': sc['pad_trials']},
                    {'kind': 'vecopt-parallel', 'scenario': sc, 'error': r.get('error')})
  ctx.log('  %d eagle prior scenarios, %d parallel-acquisition scenarios; verdicts %s' % (len(out), len(pout), dict(counts)))
  return {'scenarios': len(out) + len(pout), 'verdicts': dict(counts)}


def _observe_job(job):
  cfg, seed = job
  return observe(cfg, random.Random(seed))


def observe_all(chosen, rng):
  """Each configuration in its own worker process (spawned: JAX must not be forked once initialised)."""
  import concurrent.futures as cf
  import multiprocessing
  jobs = [(c, rng.randrange(10 ** 9)) for c in chosen]
  with cf.ProcessPoolExecutor(max_workers=8, mp_context=multiprocessing.get_context('spawn')) as ex:
    return list(ex.map(_observe_job, jobs))


def run(ctx):
  rng = random.Random(ctx.seed + 83)
  with tlc.Scratch('c19') as d:
    # the loop on the model
    cfg = os.path.join(d, 'VO_model.cfg')
    tlc.write_cfg(cfg, constants={'Mode': 'model', 'MaxBatches': 3, 'BatchSize': 2, 'Count': 2, 'MaxScore': 2 if not ctx.thorough else 3},
                  invariants=['ResultIsTopOfEvaluated'])
    res = tlc.must_ok(tlc.run_tlc('VecOpt', cfg, d, workers=4), 'VecOpt/model')
    if res.violated:
      raise tlc.MachineryError('VecOpt model violates %s' % res.violated)
    import c19_pool
    pool_layer = c19_pool.run(ctx, d)
    ctx.coverage['eagle_prior_scenarios'] = prior_scenarios(ctx, rng)
    chosen, total = configs(ctx, rng)
    t0 = time.time()
    obs = observe_all(chosen, rng)
    ctx.log('  %d optimiser configurations (of %d enumerated) run twice each in %.0fs' % (len(obs), total, time.time() - t0))
    path = os.path.join(d, 'vo_obs.json')
    with open(path, 'w') as f:
      json.dump([{k: v for k, v in o.items() if k not in ('cfg', 'error')} for o in obs], f)
    cfg2 = os.path.join(d, 'VO_judge.cfg')
    tlc.write_cfg(cfg2, spec='JSpec', constants={'Mode': 'judge', 'MaxBatches': 0, 'BatchSize': 1, 'Count': 1, 'MaxScore': 1})
    res2 = tlc.must_ok(tlc.run_tlc('VecOpt', cfg2, d, workers=1, env={'TRACE_FILE': path}, timeout=3000), 'VecOpt/judge')
    verdicts = {int(m.group(1)): m.group(2) for m in VV.finditer(res2.out)}
    if len(verdicts) != len(obs):
      raise tlc.MachineryError('VecOpt judge incomplete: %d of %d\n%s' % (len(verdicts), len(obs), res2.out[-1500:]))
  counts = collections.Counter()
  for i, o in enumerate(obs):
    v = verdicts[i + 1]
    counts[v] += 1
    if v != 'ok':
      c = o['cfg']
      ctx.violation({'via': 'vecopt', 'verdict': v, 'strategy': c['strategy']},
                    {'kind': 'vecopt', 'config': c, 'table': o['table'], 'result': [{'cell': r['cell'], 'reward': r['reward'], 'cat': r['cat']} for r in o['result']],
                     'best_evaluated': sorted(o['evaluated'], reverse=True)[:3], 'prior_best': o['prior_best'], 'error': o.get('error')})
  ctx.log('  verdicts %s' % dict(counts))
  ctx.coverage.update({'evaluations': len(obs) * 2 + pool_layer['replayed'], 'distinct_nontrivial': len(obs) + pool_layer['replayed'],
                       'states': res.distinct + pool_layer['states'], 'transitions': res.generated + pool_layer['transitions'],
                       'traces_validated_against_impl': len(obs) + pool_layer['replayed'],
                       'rule': 'one case = (feature layout, count, batch size, evaluations, prior?, strategy, score table, padding) sampled from the enumerated configuration '
                               'space and run twice with the same seed on a piecewise-constant score function that logs every evaluated batch; all distinct and non-trivial',
                       'configurations_enumerated': total, 'verdicts': dict(counts), 'exhaustive': False})
  ctx.sample(obs[0]['cfg'])
  ctx.assumptions += ['score functions are piecewise constant on a 4^d grid x category tuples so that candidates are discrete; smooth-function behaviour and lbfgsb_optimizer are out of scope',
                      'use_fori=False (a constructor option) so that the score function can log each evaluated batch']


def replay(ctx, case):
  run(ctx)
