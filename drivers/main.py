import importlib
import os
import sys

HERE = os.path.dirname(os.path.abspath(__file__))
sys.path.insert(0, HERE)
sys.path.insert(0, os.path.join(os.path.dirname(HERE), 'envshim'))
sys.path.insert(0, os.path.join(os.path.dirname(HERE), 'lib'))


class Lazy(dict):

  def __missing__(self, k):
    m = importlib.import_module(k.lower())
    self[k] = m
    return m


if __name__ == '__main__':
  import common
  common.main(Lazy())
