"""C04, lock identity: the servicer's locks are keyed by raw request strings, the datastores by parsed components, so every
resource needs exactly one accepted spelling.  spec/ResourceNames.tla says, for every well-formed name and every name one
(quick) or two (thorough) segment edits away from one, what each of the five parsers must answer; every (name, kind) pair
is replayed into resources.<Kind>Resource.from_name and accepted names are rendered back."""
import collections
import os

import verif_boot  # noqa: F401
import tlc

INVS = ['KindsDisjoint', 'OneSpelling', 'NoEmptySegment', 'Enclosing']


def parsers():
  from vizier._src.service import resources
  return {
      'owner': (resources.OwnerResource, lambda r: [r.owner_id]),
      'study': (resources.StudyResource, lambda r: [r.owner_id, r.study_id]),
      'trial': (resources.TrialResource, lambda r: [r.owner_id, r.study_id, str(r.trial_id)]),
      'esop': (resources.EarlyStoppingOperationResource, lambda r: [r.owner_id, r.study_id, str(r.trial_id)]),
      'sop': (resources.SuggestionOperationResource, lambda r: [r.owner_id, r.study_id, r.client_id, str(r.operation_number)]),
  }


def judge(seq, parse, table):
  """Returns the list of disagreements for one name."""
  name = '/'.join(seq)
  bad = []
  for kind, (cls, fields) in table.items():
    exp = parse[kind]
    try:
      r = cls.from_name(name)
      got = {'ok': True, 'fields': fields(r), 'rendered': r.name}
    except ValueError:
      got = {'ok': False, 'fields': []}
    except Exception as e:  # pylint: disable=broad-except
      got = {'ok': False, 'fields': [], 'error': type(e).__name__}
    what = None
    if got.get('error'):
      what = 'refused-with-' + got['error']
    elif got['ok'] != exp['ok']:
      what = 'accepted-malformed-name' if got['ok'] else 'refused-well-formed-name'
    elif got['ok'] and got['fields'] != list(exp['fields']):
      what = 'wrong-components'
    elif got['ok'] and got['rendered'] != name:
      what = 'second-spelling'
    if what:
      bad.append({'kind_parser': kind, 'name': name, 'segments': list(seq), 'what': what, 'expected': exp, 'observed': got})
  return bad


def run(ctx, workdir):
  cfg = os.path.join(workdir, 'RN.cfg')
  tlc.write_cfg(cfg, constants={'MaxEdits': 2 if ctx.thorough else 1}, invariants=INVS, constraints=['Dump'])
  res = tlc.must_ok(tlc.run_tlc('ResourceNames', cfg, workdir, workers=4, timeout=3000), 'ResourceNames')
  if res.violated:
    raise tlc.MachineryError('ResourceNames model violates %s:\n%s' % (res.violated, res.trace_text()[:1500]))
  printed = list(res.printed_json())
  if len(printed) != res.generated:
    raise tlc.MachineryError('ResourceNames dump incomplete: %d vs %d' % (len(printed), res.generated))
  recs = list({tuple(x['seq']): x for x in printed}.values())
  table = parsers()
  counts = collections.Counter()
  n_bad = collections.Counter()
  for x in recs:
    for kind in table:
      counts['accepted' if x['parse'][kind]['ok'] else 'refused'] += 1
    for b in judge(x['seq'], x['parse'], table):
      n_bad[(b['kind_parser'], b['what'])] += 1
      if n_bad[(b['kind_parser'], b['what'])] <= 2:
        ctx.violation({'via': 'resource-names', 'parser': b['kind_parser'], 'what': b['what']}, dict(b, kind='resource-name'))
  if not counts['accepted'] or not counts['refused']:
    raise tlc.MachineryError('resource-name replay vacuous: %s' % dict(counts))
  layer = {'distinct_states': res.distinct, 'names': len(recs), 'parses_replayed': sum(counts.values()), 'model_accepts': counts['accepted'],
           'model_refuses': counts['refused'], 'disagreements': {'%s:%s' % k: v for k, v in n_bad.items()}}
  ctx.log('  resource names: TLC %d names (<= %d edits from a well-formed one), %d parses replayed (%d accepted), disagreements %s' % (
      len(recs), 2 if ctx.thorough else 1, sum(counts.values()), counts['accepted'], layer['disagreements']))
  ctx.coverage['resource_names'] = layer
  return layer


def replay(ctx, c):
  table = parsers()
  bad = [b for b in judge(c['segments'], {k: (c['expected'] if k == c['kind_parser'] else None) for k in table}, {c['kind_parser']: table[c['kind_parser']]})]
  if bad:
    ctx.violation({'via': 'resource-names', 'parser': c['kind_parser'], 'what': bad[0]['what']}, c)
    print('replay: %s.from_name(%r) still answers %s' % (c['kind_parser'], c['name'], bad[0]['observed']))
  else:
    print('replay: the parser now agrees with ResourceNames.tla on %r' % c['name'])
  ctx.coverage.update({'states': 1, 'transitions': 1, 'traces_validated_against_impl': 1})
