"""C08 - Local, gRPC and split-Pythia deployments behave identically for clients."""
import collections
import json
import os

import verif_boot  # noqa: F401
import replay as replay_mod
import tlc

LEVEL = 'model_checking'
ALL_OPS = ['from_study_config', 'from_resource_name', 'suggest', 'add_trial', 'request', 'trials', 'get_trial', 'materialize',
           'optimal_trials', 'set_state', 'materialize_state', 'delete_study', 'study_update_metadata', 'trial_update_metadata',
           'complete', 'add_measurement', 'stop', 'check_early_stopping', 'delete_trial']
PROPS = ['NotFoundIsPromised', 'MissingTrialIsPromised', 'FinishedStudySuggestsNothing', 'ExceptionsArePure', 'LifecycleStillHolds']
DEPLOYMENTS = ['local', 'grpc', 'split']
HEAVY = 600


def consts_for(ctx):
  base = dict(Studies={'s1'}, Clients={'w1', 'w2'}, MaxId=3, Cells={'c1'}, Recycle='never', Params={'p1'}, Meas={'m1', 'm2'},
              Vals={'v1'}, MaxCount=2, MaxDeliver=2, Cfgs={'maxmin2'})
  if not ctx.thorough:
    return [('client_d3', dict(base, MaxDepth=3, Ops=set(ALL_OPS)), 1.0),
            ('client_core_d4', dict(base, MaxDepth=4, Clients={'w1'}, MaxCount=1, MaxDeliver=1, Meas={'m1'},
                                    Ops={'from_study_config', 'suggest', 'complete', 'set_state', 'get_trial', 'optimal_trials',
                                         'delete_trial', 'add_trial', 'stop'}), 0.5),
            ('client_heavy_d4', dict(base, MaxDepth=4, Clients={'w1'}, MaxCount=1, MaxDeliver=1, Meas={'m1'},
                                     Ops={'from_study_config', 'suggest', 'complete', 'add_measurement', 'get_trial', 'stop', 'add_trial'}), 0.3)]
  return [('client_d4', dict(base, MaxDepth=4, Ops=set(ALL_OPS)), 0.25),
          ('client_d3_two_studies', dict(base, MaxDepth=3, Studies={'s1', 's2'}, Ops=set(ALL_OPS)), 1.0),
          ('client_core_d5', dict(base, MaxDepth=5, Clients={'w1'}, MaxCount=1, MaxDeliver=1, Meas={'m1'},
                                  Ops={'from_study_config', 'suggest', 'complete', 'set_state', 'get_trial', 'optimal_trials',
                                       'delete_trial', 'add_trial', 'stop'}), 0.25),
          ('client_heavy_d4', dict(base, MaxDepth=4, Clients={'w1'}, MaxCount=1, MaxDeliver=1, Meas={'m1'},
                                   Ops={'from_study_config', 'suggest', 'complete', 'add_measurement', 'get_trial', 'stop', 'add_trial'}), 1.0)]


def norm_out(op, v):
  if op == 'optimal_trials' and isinstance(v, list):
    return sorted(v)
  return v


def compare(rec, out, got_state):
  last = rec['hist'][-1]
  exp = rec['out']
  what = None
  if out['exc'] != exp['exc']:
    what = 'exc'
  elif out['exc'] == 'None' and norm_out(last['op'], out['val']) != norm_out(last['op'], exp['val']):
    what = 'val'
  elif got_state != rec['st']:
    what = 'state'
  if what is None:
    return None
  return {'op': last['op'], 'what': what, 'got': out['exc'], 'exp': exp['exc']}


def run(ctx, only=None):
  import clientworld
  import speca
  import random
  cov = ctx.coverage
  cov.update({'states': 0, 'transitions': 0, 'traces_validated_against_impl': 0, 'configs': []})
  rng = random.Random(ctx.seed + 21)
  nontrivial = set()
  with tlc.Scratch('c08') as d:
    deps = {}
    backends = ['ram', 'sqlmem'] if ctx.thorough else ['ram']
    for dep in DEPLOYMENTS:
      for b in backends:
        deps[(dep, b)] = clientworld.Deployment(dep, b, d)
    # the local deployment is a process-wide singleton in the client library: one backend at a time
    for name, consts, frac in consts_for(ctx):
      cfg = os.path.join(d, name + '.cfg')
      tlc.write_cfg(cfg, constants=consts, properties=PROPS, constraints=['Dump'], view='View')
      res = tlc.must_ok(tlc.run_tlc('ClientApi', cfg, d, workers=1), 'ClientApi/' + name)
      if res.violated:
        raise tlc.MachineryError('client model violates %s:\n%s' % (res.violated, res.trace_text()[:2000]))
      recs = [r for r in res.printed_json() if r['hist']]
      if len(recs) != res.generated - 1:
        raise tlc.MachineryError('client dump incomplete')
      seen_ops = collections.defaultdict(set)
      for r in recs:
        seen_ops[r['hist'][-1]['op']].add(r['out']['exc'])
      missing = [o for o in consts['Ops'] if o not in seen_ops]
      if missing or 'ResourceNotFound' not in (seen_ops['get_trial'] | seen_ops['from_resource_name']):
        raise tlc.MachineryError('vacuous client config %s: %s' % (name, missing))
      cov['states'] += res.distinct
      cov['transitions'] += res.generated - 1
      conf = {'Studies': sorted(consts['Studies']), 'Clients': sorted(consts['Clients']), 'MaxId': consts['MaxId'],
              'Cells': sorted(consts['Cells']), 'Recycle': consts['Recycle']}
      ctx.log('config %s: TLC %d distinct / %d client-level transitions; client contract holds on the model' % (name, res.distinct, len(recs)))
      chosen = [r for r in recs if frac >= 1 or len(r['hist']) == 1 or rng.random() < frac]
      entry = {'name': name, 'distinct_states': res.distinct, 'transitions': len(recs), 'replayed_per_deployment': len(chosen),
               'outcome_classes': {k: sorted(v) for k, v in seen_ops.items()}, 'divergences': {}}
      bad_prefix = {k: set() for k in deps}
      # 'heavy' configurations: the same abstract measurement tokens stand for measurements carrying HEAVY extra metrics
      # (a long record travels in replies and, on some error paths, in status details: sizes are part of "every input")
      ballast = {'zz%03d' % i: float(i) for i in range(HEAVY)} if 'heavy' in name else {}
      import world
      for v in world.MEAS.values():
        v.update(ballast)
      entry['ballast_metrics_per_measurement'] = len(ballast)
      for rec in sorted(chosen, key=lambda r: len(r['hist'])):
        keys = tuple(replay_mod.canon(c) for c in rec['hist'])
        obs = {}
        for dk, dep in deps.items():
          if any(keys[:k] in bad_prefix[dk] for k in range(1, len(keys))):
            continue
          w = clientworld.ClientWorld(conf, dep)
          out = None
          for o in rec['hist']:
            out = w.run_op(o)
          got = w.project()
          cov['traces_validated_against_impl'] += 1
          dv = compare(rec, out, got)
          obs[dk] = (out, dv)
          if dv:
            bad_prefix[dk].add(keys)
            sig = dict(dv, deployment=dk[0], via='client-replay')
            entry['divergences'][dk[0]] = entry['divergences'].get(dk[0], 0) + 1
            ctx.violation(sig, {'kind': 'client', 'deployment': dk[0], 'backend': dk[1], 'conf': conf, 'hist': rec['hist'], 'ballast': len(ballast),
                                'expected': {'out': rec['out'], 'st': rec['st']}, 'observed': {'out': out, 'st': got}})
        nontrivial.add(replay_mod.canon(rec['hist']))
      for v in world.MEAS.values():
        for k in ballast:
          v.pop(k, None)
      cov['configs'].append(entry)
      ctx.log('  replayed %d behaviours x %d deployments; divergences per deployment: %s' % (len(chosen), len(deps), entry['divergences']))
      ctx.sample({'config': name, 'client_program': chosen[len(chosen) // 2]['hist']})
  cov['distinct_nontrivial'] = len(nontrivial)
  cov['evaluations'] = cov['traces_validated_against_impl']
  cov['rule'] = 'a case is one client-level program executed on one deployment; distinct by op sequence'
  cov['exhaustive'] = True


def replay(ctx, case):
  import clientworld
  c = case['case']
  with tlc.Scratch('c08') as d:
    dep = clientworld.Deployment(c['deployment'], c['backend'], d)
    import world
    for v in world.MEAS.values():
      v.update({'zz%03d' % i: float(i) for i in range(c.get('ballast', 0))})
    w = clientworld.ClientWorld(c['conf'], dep)
    out = None
    for o in c['hist']:
      out = w.run_op(o)
    dv = compare({'hist': c['hist'], 'out': c['expected']['out'], 'st': c['expected']['st']}, out, w.project())
    if dv:
      ctx.violation(dict(dv, deployment=c['deployment'], via='client-replay'), c)
      print('replay: still diverges: %s; observed %s' % (dv, out))
    else:
      print('replay: deployment %s now agrees with the client model' % c['deployment'])
  ctx.coverage.update({'states': 1, 'transitions': 1, 'traces_validated_against_impl': 1})
