"""C13: grid search against Grid.tla, direct and hosted in the service across servicer restarts."""
import os
import random

import verif_boot  # noqa: F401
import tlc


def build_problem(dims):
  from vizier import pyvizier as vz
  p = vz.ProblemStatement()
  r = p.search_space.root
  kinds = ['int', 'cat', 'disc']
  for i, n in enumerate(dims):
    k = kinds[i % 3]
    if k == 'int':
      r.add_int_param('p%d' % i, 0, n - 1)
    elif k == 'cat':
      r.add_categorical_param('p%d' % i, [chr(97 + j) for j in range(n)])
    else:
      r.add_discrete_param('p%d' % i, [0.5 + j for j in range(n)])
  p.metric_information.append(vz.MetricInformation('m', goal=vz.ObjectiveMetricGoal.MAXIMIZE))
  return p


def point_of(params, dims):
  """Suggested parameters -> per-parameter grid index (the model's coordinates)."""
  out = []
  for i, n in enumerate(dims):
    v = params['p%d' % i]
    v = v.value if hasattr(v, 'value') else v
    k = ['int', 'cat', 'disc'][i % 3]
    if k == 'int':
      out.append(int(v) if float(v) == int(v) else -1)
    elif k == 'cat':
      out.append(ord(v) - 97 if isinstance(v, str) and len(v) == 1 else -1)
    else:
      out.append(int(v - 0.5) if float(v - 0.5) == int(v - 0.5) else -1)
  return out


def run_direct(dims, steps):
  from vizier._src.algorithms.designers import grid
  prob = build_problem(dims)
  d = grid.GridSearchDesigner.from_problem(prob)
  out = []
  for n in steps:
    if n == 0:
      md = d.dump()
      d = grid.GridSearchDesigner.from_problem(prob)
      d.load(md)
    else:
      out += [point_of(s.parameters, dims) for s in d.suggest(n)]
  return out


def run_service(dims, steps, scratch, algorithm='GRID_SEARCH'):
  """Hosted: every Restart builds a new servicer on the same SQLite file; every batch by a new worker."""
  from vizier._src.service import study_pb2
  from vizier._src.service import vizier_service
  from vizier._src.service import vizier_service_pb2 as vs
  from vizier.service import pyvizier as svz
  path = os.path.join(scratch, 'grid%d_%d.db' % (os.getpid(), random.randrange(10 ** 9)))
  url = 'sqlite:///' + path
  svc = vizier_service.VizierServicer(database_url=url)
  prob = build_problem(dims)
  sc = svz.StudyConfig.from_problem(prob)
  sc.algorithm = algorithm
  def create():     # a fresh request each time: the in-process servicer writes the resource name into the request it is given
    return vs.CreateStudyRequest(parent='owners/g', study=study_pb2.Study(display_name='grid', study_spec=sc.to_proto()))
  name = svc.CreateStudy(create()).name
  out = []
  for k, n in enumerate(steps):
    if n == 0:
      svc.datastore._engine.dispose()  # pylint: disable=protected-access
      svc = vizier_service.VizierServicer(database_url=url)
      continue
    if k % 2 == 1 or (k and steps[k - 1] == 0):
      # a worker that joins, or re-attaches after the restart, does what Study.from_study_config does: CreateStudy with
      # the same configuration, which must hand back the existing study untouched
      try:
        again = svc.CreateStudy(create()).name
      except Exception as e:  # pylint: disable=broad-except
        return out, 're-attaching failed: %s: %s' % (type(e).__name__, str(e)[:120])
      if again != name:
        return out, 're-attaching created another study: %s' % again
    op = svc.SuggestTrials(vs.SuggestTrialsRequest(parent=name, suggestion_count=n, client_id='w%d' % k))
    if not op.done or op.HasField('error'):
      return out, 'operation failed: %s' % str(op.error)[:200]
    for t in vs.SuggestTrialsResponse.FromString(op.response.value).trials:
      params = {p.parameter_id: (p.value.number_value if p.value.HasField('number_value') else p.value.string_value) for p in t.parameters}
      out.append(point_of(params, dims))
      r = vs.CompleteTrialRequest(name=t.name)
      r.final_measurement.metrics.add(metric_id='m', value=1.0)
      svc.CompleteTrial(r)
  svc.datastore._engine.dispose()  # pylint: disable=protected-access
  os.unlink(path)
  return out, None


def batches(points, steps):
  out, i = [], 0
  for n in steps:
    if n:
      out.append(sorted(map(tuple, points[i:i + n])))
      i += n
  return out


def balanced(points, steps, g):
  """After every batch no grid point has been suggested twice while another one has not been suggested at all
  (Grid.tla's each-point-once, at batch granularity, for observed sequences whose order the model does not fix)."""
  import collections
  cnt = collections.Counter()
  i = 0
  for n in steps:
    if not n:
      continue
    for p in points[i:i + n]:
      cnt[tuple(p)] += 1
    i += n
    mn = min(cnt.values()) if len(cnt) == g else 0
    if max(cnt.values()) - mn > 1:
      return False
  return True


def run(ctx):
  rng = random.Random(ctx.seed + 67)
  grids = [((3, 2), 2), ((2, 2, 2), 1)] if not ctx.thorough else [((3, 2), 3), ((2, 2, 2), 2), ((4, 3), 1), ((2, 3, 2), 1)]
  stats = {'sessions_model': 0, 'direct_replays': 0, 'service_replays': 0, 'shuffled_service_sessions': 0}
  states = 0
  with tlc.Scratch('grid') as d:
    for dims, extra in grids:
      cfg = os.path.join(d, 'G_%s.cfg' % '_'.join(map(str, dims)))
      tlc.write_cfg(cfg, constants={'D1': dims[0], 'D2': dims[1], 'D3': dims[2] if len(dims) > 2 else 0, 'MaxBatch': 3, 'Extra': extra}, invariants=['EachPointOnce', 'CoversGrid', 'RepeatsInOrder'],
                    constraints=['Dump'])
      res = tlc.must_ok(tlc.run_tlc('Grid', cfg, d, workers=4), 'Grid %s' % (dims,))
      if res.violated:
        raise tlc.MachineryError('Grid model violates %s' % res.violated)
      sessions = list(res.printed_json())
      states += res.distinct
      stats['sessions_model'] += len(sessions)
      ctx.log('  Grid%s: TLC %d states, %d complete sessions (all batch sequences x restart positions); each-point-once / covers / repeats hold' % (
          dims, res.distinct, len(sessions)))
      # The ORDER in which the grid is visited is the designer's business (Grid.tla states today's mixed-radix order, the
      # property does not): what is judged is (a) the first |grid| suggestions of the live designer are valid, pairwise
      # distinct and cover the grid, (b) a session with restarts equals the live session with the same batch sizes.
      g = 1
      for n in dims:
        g *= n
      live_cache = {}

      def live_of(steps):
        key = tuple(n for n in steps if n != 0)
        if key not in live_cache:
          live_cache[key] = run_direct(dims, list(key))
        return live_cache[key]
      for s in sessions:
        live = live_of(s['steps'])
        got = run_direct(dims, s['steps'])
        stats['direct_replays'] += 1
        first = [tuple(p) for p in live[:g]]
        valid = all(0 <= c < n for p in first for c, n in zip(p, dims))
        if not valid or len(live) != len(s['out']):
          ctx.violation({'via': 'grid', 'hosting': 'direct', 'verdict': 'wrong_point'},
                        {'kind': 'grid', 'dims': dims, 'steps': s['steps'], 'observed': live, 'note': 'a suggestion is not a grid point, or the count is wrong'})
        elif len(live) >= g and len(set(first)) != g:
          ctx.violation({'via': 'grid', 'hosting': 'direct', 'verdict': 'repeats_before_covering'},
                        {'kind': 'grid', 'dims': dims, 'steps': s['steps'], 'observed': live})
        elif got != live:
          ctx.violation({'via': 'grid', 'hosting': 'direct', 'verdict': 'restart_diverges'},
                        {'kind': 'grid', 'dims': dims, 'steps': s['steps'], 'live': live, 'restarted': got})
      sample = rng.sample(sessions, min(len(sessions), 25 if not ctx.thorough else 120))
      for s in sample:
        got, err = run_service(dims, s['steps'], d)
        stats['service_replays'] += 1
        live = live_of(s['steps'])
        # the service hands the suggestions of one batch out in its own order: compare batch by batch as multisets, with the
        # live designer that never stopped
        if err or batches(got, s['steps']) != batches(live[:len(got)], s['steps']) or len(got) < len(live) - 3:
          ctx.violation({'via': 'grid', 'hosting': 'service', 'verdict': 'error' if err else ('restart_diverges' if 0 in s['steps'] else 'wrong_point')},
                        {'kind': 'grid', 'dims': dims, 'steps': s['steps'], 'live_designer': live, 'observed': got, 'error': err})
      # shuffled grid in the service: the shuffle seed is drawn per policy creation; only load() makes it stable.
      # The first |grid| suggestions must still be pairwise distinct and cover the grid.
      for s in sample[:8]:
        got, err = run_service(dims, s['steps'], d, algorithm='SHUFFLED_GRID_SEARCH')
        stats['shuffled_service_sessions'] += 1
        if err or not balanced(got, s['steps'], g):
          ctx.violation({'via': 'grid', 'hosting': 'service-shuffled', 'verdict': 'error' if err else 'repeats_before_covering'},
                        {'kind': 'grid', 'dims': dims, 'steps': s['steps'], 'observed': got, 'error': err})
      ctx.sample({'grid': dims, 'steps (0 = restart)': sessions[len(sessions) // 2]['steps']})
  cov = ctx.coverage
  cov['grid'] = stats
  cov['states'] = cov.get('states', 0) + states
  cov['traces_validated_against_impl'] = cov.get('traces_validated_against_impl', 0) + stats['direct_replays'] + stats['service_replays']
  cov['evaluations'] = cov.get('evaluations', 0) + stats['direct_replays'] + stats['service_replays']
  ctx.log('  grid: %s' % stats)
