"""Binding self-tests (DESIGN 2.4): the machinery must reject what it should reject."""
import copy
import os
import random
import sys

HERE = os.path.dirname(os.path.abspath(__file__))
sys.path.insert(0, HERE)
sys.path.insert(0, os.path.join(os.path.dirname(HERE), 'envshim'))
sys.path.insert(0, os.path.join(os.path.dirname(HERE), 'lib'))
import verif_boot  # noqa: E402,F401
import record  # noqa: E402
import replay  # noqa: E402
import speca  # noqa: E402
import tlc  # noqa: E402
import world  # noqa: E402


def main():
  ok = True
  conf = {'Studies': ['s1'], 'Clients': ['w1', 'w2'], 'MaxId': 6, 'Cells': ['c1'], 'Recycle': 'never'}
  rng = random.Random(5)
  traces = [record.walk(world.World(conf, backend='ram'), rng, 20, speca.ALL_KINDS, {}) for _ in range(6)]
  # corrupt one field of one event of trace 2; drop one state-changing event of trace 4
  bad = copy.deepcopy(traces[2])
  pos = None
  for k, e in enumerate(bad):
    ts = [x for x in e['post']['trial']['s1'] if 'absent' not in x]
    if ts:
      ts[0]['state'] = 'ACTIVE' if ts[0]['state'] != 'ACTIVE' else 'SUCCEEDED'
      pos = k + 1
      break
  traces[2] = bad
  drop = None
  for k in range(1, len(traces[4])):
    if traces[4][k]['post'] != traces[4][k - 1]['post']:
      drop = k
      break
  dropped = traces[4][:drop] + traces[4][drop + 1:]
  traces[4] = dropped
  with tlc.Scratch('selftest') as d:
    verdicts, _ = record.validate(traces, conf, d)
    for i, v in enumerate(verdicts):
      if i == 2:
        good = pos is not None and v[0] != 'ok' and v[1] == pos
      elif i == 4:
        good = drop is not None and v[0] != 'ok' and v[1] == drop + 1
      else:
        good = v[0] == 'ok'
      print('selftest trace %d: %s %s' % (i, v, 'as expected' if good else 'UNEXPECTED'))
      ok &= good
    # sabotage: expected states taken from a different history must be caught by the replay comparison
    consts = speca.constants(MaxDepth=2, MaxDeliver=1, Kinds={'CreateStudy', 'SuggestTrials', 'CreateTrial'})
    res, recs = speca.check_and_dump(consts, d, name='selftest')
    sab = copy.deepcopy(recs)
    target = next(r for r in sab if r['hist'][-1]['rpc'] == 'SuggestTrials' and r['resp']['err'] == 'None' and r['resp']['val']['op']['trials'])
    target['st']['trial']['s1'][0]['client'] = 'w2' if target['st']['trial']['s1'][0]['client'] == 'w1' else 'w1'
    rr = replay.replay(sab, speca.conf_of(consts), backend='ram', scratch=d, procs=2, judge=False)
    good = len(rr.divergences) == 1 and rr.divergences[0]['sig']['what'] == 'state'
    print('selftest sabotaged expectation (exact comparison): %d divergence(s) %s' % (len(rr.divergences), 'as expected' if good else 'UNEXPECTED'))
    ok &= good
    # the existential judge (VizierJudge.tla): the same step as the implementation really took it is explained by some allowed
    # choice; the step with a corrupted OBSERVED state is not
    if rr.divergences:
      dv = rr.divergences[0]
      w = world.World(speca.conf_of(consts), backend='ram')
      for c in dv['hist'][:-1]:
        w.run(c)
      pre = w.project()
      honest = dict(dv)
      corrupted = copy.deepcopy(dv)
      tr0 = corrupted['got_state']['trial']['s1'][0]
      tr0['client'] = 'w2' if tr0['client'] == 'w1' else 'w1'
      v = replay.judge_divergences([honest, corrupted], [pre, pre], speca.conf_of(consts), d, 'selftest')
      good = v[0] == 'ok' and v[1] != 'ok'
      print('selftest existential judge: honest step %s, corrupted observation %s %s' % (v[0], v[1], 'as expected' if good else 'UNEXPECTED'))
      ok &= good
  print('selftest: %s' % ('ok' if ok else 'FAILED'))
  return 0 if ok else 2


if __name__ == '__main__':
  sys.exit(main())
