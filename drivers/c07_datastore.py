"""C07, layer 0: every datastore backend conforms to ONE contract model (spec/DataStore.tla).

TLC checks the contract's own properties (hierarchy, errors are pure, reads are pure, isolation between studies,
metadata last-writer-wins / all-or-nothing, a re-created study starts empty) and prints every transition of the bounded
graph; each is executed on NestedDictRAMDataStore, SQLDataStore(memory) and SQLDataStore(file) through lib/dsworld.py and
the response and the whole abstract state (read back through the public API, children probed even under a missing
study) are compared with TLC's.  Deep behaviours come from tlc -simulate.
"""
import collections
import os

import replay as replay_mod
import tlc

KINDS = ['create_study', 'load_study', 'update_study', 'delete_study', 'list_studies', 'create_trial', 'get_trial', 'update_trial',
         'list_trials', 'delete_trial', 'max_trial_id', 'create_sop', 'get_sop', 'update_sop', 'list_sop', 'max_sop', 'create_es',
         'get_es', 'update_es', 'update_metadata']
MUTATING = {'create_study', 'update_study', 'delete_study', 'create_trial', 'update_trial', 'delete_trial', 'create_sop', 'update_sop',
            'create_es', 'update_es', 'update_metadata'}
INVARIANTS = ['Hierarchy', 'OwnersCoverStudies']
PROPERTIES = ['ErrorsPure', 'ReadsPure', 'OwnersGrow', 'Isolation', 'MetaLWW', 'FreshAfterRecreate']
BASE = dict(Studies={'a1'}, Owners={'oa', 'ob'}, Clients={'w1'}, MaxId=2, Cells={'c1'}, Vals={'v1'}, Bodies={'x1', 'x2'}, MaxOps=2,
            MaxDepth=3, Kinds=set(KINDS))


def conf_of(c):
  return {'Studies': sorted(c['Studies']), 'Owners': sorted(c['Owners']), 'Clients': sorted(c['Clients']), 'MaxId': c['MaxId'],
          'Cells': sorted(c['Cells']), 'MaxOps': c['MaxOps']}


def rounds(thorough):
  K = set(KINDS)
  child = {'create_study', 'delete_study', 'create_trial', 'delete_trial', 'create_sop', 'create_es', 'update_metadata', 'update_trial',
           'update_sop', 'update_es', 'list_sop', 'max_sop', 'list_trials', 'max_trial_id'}
  if not thorough:
    return [
        dict(name='ds_all_d3', consts=dict(BASE), backends={'ram': 1.0, 'sqlmem': 1.0, 'sqlfile': 0.1}),
        dict(name='ds_children_d4', consts=dict(BASE, MaxDepth=4, Bodies={'x1'}, Kinds=child - {'update_trial', 'update_sop', 'update_es'}),
             backends={'ram': 1.0, 'sqlmem': 1.0}),
        dict(name='ds_two_studies_d3', consts=dict(BASE, Studies={'a1', 'a2', 'b1'}, Bodies={'x1'}, MaxId=1, MaxOps=1,
                                                   Kinds={'create_study', 'delete_study', 'list_studies', 'create_trial', 'create_sop', 'create_es',
                                                          'update_metadata', 'update_study', 'delete_trial'}),
             backends={'ram': 1.0, 'sqlmem': 1.0}),
    ]
  return [
      dict(name='ds_all_d4', consts=dict(BASE, MaxDepth=4), backends={'ram': 1.0, 'sqlmem': 1.0, 'sqlfile': 0.02}),
      dict(name='ds_children_d5', consts=dict(BASE, MaxDepth=5, Bodies={'x1'}, Kinds=child - {'update_trial', 'update_sop', 'update_es'}),
           backends={'ram': 1.0, 'sqlmem': 1.0}),
      dict(name='ds_two_studies_d4', consts=dict(BASE, Studies={'a1', 'a2', 'b1'}, Bodies={'x1'}, MaxId=1, MaxOps=1, MaxDepth=4,
                                                 Kinds={'create_study', 'delete_study', 'list_studies', 'create_trial', 'create_sop', 'create_es',
                                                        'update_metadata', 'update_study', 'delete_trial'}),
           backends={'ram': 1.0, 'sqlmem': 1.0, 'sqlfile': 0.02}),
      dict(name='ds_two_cells_d3', consts=dict(BASE, Cells={'c1', 'c2'}, Vals={'v1', 'v2'},
                                               Kinds={'create_study', 'create_trial', 'update_metadata', 'update_study', 'update_trial', 'delete_trial'}),
           backends={'ram': 1.0, 'sqlmem': 1.0, 'sqlfile': 0.05}),
  ]


def tlc_round(r, workdir):
  cfg = os.path.join(workdir, r['name'] + '.cfg')
  tlc.write_cfg(cfg, constants=r['consts'], invariants=INVARIANTS, properties=PROPERTIES, constraints=['Dump'], view='View')
  res = tlc.must_ok(tlc.run_tlc('DataStore', cfg, workdir, workers=1, timeout=3000), 'DataStore/' + r['name'])
  if res.violated:
    raise tlc.MachineryError('the datastore contract model violates %s in %s:\n%s' % (res.violated, r['name'], res.trace_text()[:3000]))
  seen = {}
  for x in res.printed_json():
    if x['hist']:
      seen.setdefault(replay_mod.canon(x['hist']), x)
  recs = list(seen.values())
  kinds = collections.defaultdict(set)
  for x in recs:
    kinds[x['hist'][-1]['rpc']].add(x['resp']['err'])
  missing = [k for k in r['consts']['Kinds'] if k not in kinds]
  if missing:
    raise tlc.MachineryError('vacuous datastore config %s: never reached %s' % (r['name'], missing))
  return res, recs, {k: sorted(v) for k, v in kinds.items()}


def simulate(workdir, consts, num, depth, seed):
  """Deep random behaviours of the contract model (tlc -simulate); the last state of each carries the whole history."""
  cfg = os.path.join(workdir, 'ds_sim.cfg')
  c = dict(consts, MaxDepth=depth)
  tlc.write_cfg(cfg, constants=c, invariants=INVARIANTS, constraints=['DumpEnd'], view='View')
  res = tlc.must_ok(tlc.run_tlc('DataStore', cfg, workdir, workers=1, simulate='num=%d' % num, depth=depth + 1, seed=seed, timeout=1200),
                    'DataStore/simulate')
  seen = {}
  for x in res.printed_json():
    if x['hist']:
      seen.setdefault(replay_mod.canon(x['hist']), x)
  return res, list(seen.values())


def run(ctx, d):
  cov = ctx.coverage
  layer = {'configs': [], 'states': 0, 'transitions': 0, 'replayed': 0}
  nontrivial = set()
  for r in rounds(ctx.thorough):
    res, recs, kinds = tlc_round(r, d)
    conf = conf_of(r['consts'])
    entry = {'name': r['name'], 'distinct_states': res.distinct, 'transitions': len(recs), 'depth': r['consts']['MaxDepth'],
             'outcome_classes': kinds, 'replay': {}}
    layer['states'] += res.distinct
    layer['transitions'] += len(recs)
    ctx.log('datastore contract %s: TLC %d distinct states, %d transitions' % (r['name'], res.distinct, len(recs)))
    for backend, frac in r['backends'].items():
      rr = replay_mod.replay(recs, conf, backend=backend, scratch=d, sample=None if frac >= 1 else frac, seed=ctx.seed,
                             binding='dsworld', mutating=MUTATING)
      entry['replay'][backend] = rr.summary()
      layer['replayed'] += rr.histories
      nontrivial |= rr.nontrivial
      ctx.log('  replay %s: %s' % (backend, rr.summary()))
      for dv in rr.divergences:
        sig = dict(dv['sig'], via='datastore', backend=backend)
        ctx.violation(sig, {'kind': 'datastore', 'backend': backend, 'conf': conf, 'hist': dv['hist'],
                            'expected': {'resp': dv['exp_resp'], 'st': dv['exp_state']},
                            'observed': {'resp': dv['got_resp'], 'st': dv['got_state']}, 'diff': dv['diff']})
    layer['configs'].append(entry)
  # deep random behaviours
  sim_consts = dict(BASE, Studies={'a1', 'a2'}, Vals={'v1', 'v2'})
  num, depth = (4000, 30) if ctx.thorough else (400, 20)
  res, recs = simulate(d, sim_consts, num, depth, ctx.seed + 1)
  conf = conf_of(sim_consts)
  entry = {'name': 'ds_simulate', 'behaviours': len(recs), 'depth': depth, 'replay': {}}
  for backend in ('ram', 'sqlmem', 'sqlfile'):
    sub = recs if backend != 'sqlfile' else recs[:len(recs) // 4]
    rr = replay_walks(sub, conf, backend, d)
    entry['replay'][backend] = {'behaviours': len(sub), 'calls': rr['calls'], 'first_divergences': len(rr['div'])}
    layer['replayed'] += len(sub)
    for dv in rr['div']:
      ctx.violation(dict(dv['sig'], via='datastore', backend=backend),
                    {'kind': 'datastore', 'backend': backend, 'conf': conf, 'hist': dv['hist'], 'expected': dv['exp'], 'observed': dv['got']})
    ctx.log('  simulate replay %s: %s' % (backend, entry['replay'][backend]))
  layer['configs'].append(entry)
  layer['distinct_nontrivial'] = len(nontrivial) + len(recs)
  cov['datastore_contract'] = layer
  return layer


def _walk_job(job):
  recs, conf, backend, scratch = job
  import dsworld
  out = []
  calls = 0
  for rec in recs:
    w = dsworld.World(conf, backend=backend, scratch=scratch)
    for k, (c, step) in enumerate(zip(rec['hist'], rec['path'])):
      exp = step['resp']
      got = w.run(c)
      got.pop('exc', None)
      calls += 1
      st = w.project()
      if got != exp or st != step['st']:
        what = 'err' if got['err'] != exp['err'] else ('val' if got != exp else 'state')
        out.append({'sig': {'rpc': c['rpc'], 'what': what, 'got': got['err'], 'exp': exp['err']}, 'hist': rec['hist'][:k + 1],
                    'exp': {'resp': exp, 'st': step['st']}, 'got': {'resp': got, 'st': st}})
        break
    w.close()
  return out, calls


def replay_walks(recs, conf, backend, scratch):
  """Long behaviours are executed once and compared after EVERY call with TLC's record of that step (path)."""
  import concurrent.futures as cf
  import multiprocessing
  n = max(1, len(recs) // 32 + 1)
  jobs = [(recs[k:k + n], conf, backend, scratch) for k in range(0, len(recs), n)]
  div, calls = [], 0
  with cf.ProcessPoolExecutor(max_workers=16, mp_context=multiprocessing.get_context('fork')) as ex:
    for out, c in ex.map(_walk_job, jobs):
      div += out
      calls += c
  return {'div': div, 'calls': calls}
