"""Designer sessions on the real designers (C03, C13, C14): catalog of spaces and algorithms, four runs per schedule."""
import json
import os
import random
import re
import time

import verif_boot  # noqa: F401
import fkey
import numpy as np
import tlc


def shapes():
  """The space-shape catalog: name -> function adding the parameters to a root selector."""
  def s_unit(r): r.add_float_param('x', 0.0, 1.0)
  def s_neg(r): r.add_float_param('x', -5.0, -1.0); r.add_float_param('y', 0.0, 1.0)
  def s_log(r):
    from vizier import pyvizier as vz
    r.add_float_param('x', 1e-3, 10.0, scale_type=vz.ScaleType.LOG); r.add_float_param('y', 0.1, 1.0, scale_type=vz.ScaleType.REVERSE_LOG)
  def s_int(r): r.add_int_param('n', -3, 2)
  def s_disc(r): r.add_discrete_param('d', [0.5, 1, 10])
  def s_cat(r): r.add_categorical_param('c', ['a', 'b', 'c'])
  def s_mixed(r):
    r.add_float_param('x', 0.0, 1.0); r.add_int_param('n', 0, 3); r.add_categorical_param('c', ['a', 'b']); r.add_discrete_param('d', [1, 2, 4])
  def s_single(r): r.add_float_param('x', 2.0, 2.0); r.add_int_param('n', 3, 3); r.add_categorical_param('c', ['a'])
  def s_bool(r): r.add_bool_param('b'); r.add_float_param('x', 0.0, 1.0)
  def s_big(r): r.add_float_param('x', -1e9, 1e9); r.add_int_param('n', 0, 1000)
  def s_tiny(r): r.add_float_param('x', 1e-9, 1e-8); r.add_discrete_param('d', [float(v) for v in range(12)])
  def s_bin(r): r.add_bool_param('b0'); r.add_bool_param('b1'); r.add_bool_param('b2')
  # bounds that are not float32 numbers: float32(high) > high, float32(low) < low (designers computing in float32 must still land inside)
  def s_f32edge(r): r.add_float_param('x', 1000000.1, 1000000.3); r.add_float_param('y', -0.3, 0.3)
  # log-scaled ranges whose product / ratio leaves the double range
  def s_hugelog(r):
    from vizier import pyvizier as vz
    r.add_float_param('x', 1e150, 1e200, scale_type=vz.ScaleType.LOG); r.add_float_param('y', 1e150, 1e200, scale_type=vz.ScaleType.REVERSE_LOG)
  def s_tinylog(r):
    from vizier import pyvizier as vz
    r.add_float_param('x', 1e-200, 1e-150, scale_type=vz.ScaleType.LOG); r.add_float_param('y', 1e-200, 1e-150, scale_type=vz.ScaleType.REVERSE_LOG)
  # default values (inside the domain; one outside: must be refused, not handed out) and a log scale that starts at zero
  def s_defaults(r):
    r.add_float_param('x', 0.0, 1.0, default_value=0.25); r.add_int_param('n', 0, 5, default_value=0); r.add_categorical_param('c', ['a', 'b'], default_value='b')
    r.add_discrete_param('d', [1, 2, 4], default_value=4)
  def s_baddefault(r): r.add_float_param('x', 0.0, 1.0, default_value=5.0); r.add_float_param('y', 0.0, 1.0)
  def s_logzero(r):
    from vizier import pyvizier as vz
    r.add_float_param('x', 0.0, 1.0, scale_type=vz.ScaleType.LOG); r.add_float_param('y', 0.0, 1.0)
  # decimal bounds: lo + 1.0 * (hi - lo) computed by hand lands one ulp outside for about one pair in ten
  def s_decimal(r): r.add_float_param('x', 0.3, 0.9); r.add_float_param('y', -0.1, 0.3); r.add_float_param('z', 0.6, 1.7)
  # integer bounds beyond 2**24 that are not float32 numbers (dates as yyyymmdd): float32 code paths must still land inside
  def s_bigint(r): r.add_int_param('n', 20241201, 20241231); r.add_float_param('x', 0.0, 1.0)
  return {'bigint': s_bigint, 'decimal': s_decimal, 'defaults': s_defaults, 'baddefault': s_baddefault, 'logzero': s_logzero, 'unit': s_unit, 'neg': s_neg, 'log': s_log, 'int': s_int, 'disc': s_disc, 'cat': s_cat, 'mixed': s_mixed, 'single': s_single,
          'bool': s_bool, 'big': s_big, 'tiny': s_tiny, 'bin': s_bin, 'f32edge': s_f32edge, 'hugelog': s_hugelog, 'tinylog': s_tinylog}


_MAG = {'unit': 1.0, 'big': 1e6, 'huge': 1e30, 'tiny': 1e-9}
_CLASS_SHAPES = {}


def class_shapes(seed, n):
  """n seeded random shapes drawn from parameter CLASSES (the classes of Converter.tla: magnitude x sign x width x scale
  for DOUBLE, offsets for INTEGER, spreads for DISCRETE, sizes for CATEGORICAL): the catalog fixes which corner cases
  exist, the classes vary the magnitudes inside them."""
  rng = random.Random(seed * 7919 + 11)
  out = {}
  for k in range(n):
    params = []
    for j in range(rng.randint(1, 3)):
      kind = rng.choice(['D', 'D', 'D', 'I', 'S', 'C'])
      if kind == 'D':
        mag, width = rng.choice(sorted(_MAG)), rng.choice(['wide', 'wide', 'narrow'])
        st = rng.choice(['LINEAR', 'LINEAR', 'LOG', 'REVERSE_LOG'])
        sign = 'pos' if st != 'LINEAR' else rng.choice(['pos', 'neg', 'cross'])
        lo = _MAG[mag] * rng.uniform(0.1, 1.0)
        hi = lo * (rng.uniform(3.0, 100.0) if width == 'wide' else 1.0 + 3e-7 * rng.uniform(1.0, 3.0))
        lo, hi = {'pos': (lo, hi), 'neg': (-hi, -lo), 'cross': (-lo, hi - lo)}[sign]
        params.append(('D', 'p%d' % j, lo, hi, st))
      elif kind == 'I':
        lo = rng.choice([-7, 0, 1, 999990, -1000003])
        params.append(('I', 'p%d' % j, lo, lo + rng.randint(0, 9)))
      elif kind == 'S':
        base = rng.choice([1e-6, 1.0, 1e6])
        params.append(('S', 'p%d' % j, sorted({base * v for v in rng.sample([0.5, 1.0, 1.0 + 1e-7, 2.0, 3.5, 10.0, 100.0], rng.randint(1, 5))})))
      else:
        params.append(('C', 'p%d' % j, ['v%d' % i for i in range(rng.randint(1, 5))]))
    out['cls%d' % k] = params
  return out


def _add_class_shape(r, params):
  from vizier import pyvizier as vz
  for p in params:
    if p[0] == 'D':
      r.add_float_param(p[1], p[2], p[3], scale_type=getattr(vz.ScaleType, p[4]))
    elif p[0] == 'I':
      r.add_int_param(p[1], p[2], p[3])
    elif p[0] == 'S':
      r.add_discrete_param(p[1], p[2])
    else:
      r.add_categorical_param(p[1], p[2])


# shapes that exist for the in-domain clause only: ranges beyond float32 (the designers' float32 converters collapse them to
# one point, so there is no stream for a seed to change and nothing for a restart to continue) and refused definitions
C03_ONLY = {'hugelog', 'tinylog', 'baddefault', 'logzero'}
CONTINUOUS = {'unit', 'neg', 'log', 'big'}
LONG_SHAPES = {'mixed', 'neg', 'unit', 'cat'}


def problem(shape, metrics=1):
  from vizier import pyvizier as vz
  p = vz.ProblemStatement()
  if shape in _CLASS_SHAPES:
    _add_class_shape(p.search_space.root, _CLASS_SHAPES[shape])
  else:
    shapes()[shape](p.search_space.root)
  p.metric_information.append(vz.MetricInformation('m', goal=vz.ObjectiveMetricGoal.MAXIMIZE))
  if metrics == 2:
    p.metric_information.append(vz.MetricInformation('k', goal=vz.ObjectiveMetricGoal.MINIMIZE))
  return p


def algorithms():
  """name -> dict(factory(problem, seed), shapes supported (None = all), randomised, restartable, metrics)."""
  from vizier._src.algorithms.designers import grid
  from vizier._src.algorithms.designers import quasi_random
  from vizier._src.algorithms.designers import random as rnd
  from vizier._src.algorithms.designers.eagle_strategy import eagle_strategy
  from vizier._src.algorithms.evolution import nsga2
  algos = {
      'RANDOM_SEARCH': dict(f=lambda p, s: rnd.RandomDesigner(p.search_space, seed=s), randomised=True, restartable=False),
      'QUASI_RANDOM_SEARCH': dict(f=lambda p, s: quasi_random.QuasiRandomDesigner.from_problem(p, seed=s), randomised=True, restartable=True),
      'GRID_SEARCH': dict(f=lambda p, s: grid.GridSearchDesigner.from_problem(p), randomised=False, restartable=True),
      'SHUFFLED_GRID_SEARCH': dict(f=lambda p, s: grid.GridSearchDesigner.from_problem(p, seed=s), randomised=True, restartable=True,
                                   skip={'single'}),
      'EAGLE_STRATEGY': dict(f=lambda p, s: eagle_strategy.EagleStrategyDesigner(p, seed=s), randomised=True, restartable=True),
      'NSGA2': dict(f=lambda p, s: nsga2.NSGA2Designer(p, population_size=6, first_survival_after=4, seed=s), randomised=True, restartable=True, metrics=2,
                    state=True),
  }
  try:
    from vizier._src.algorithms.designers import harmonica
    # boolean spaces only, one suggestion at a time, regime change after 10 completed trials: its own schedule
    algos['HARMONICA'] = dict(f=lambda p, s: harmonica.HarmonicaDesigner(p), randomised=False, restartable=False, seedable=False,
                              only={'bin', 'bool', 'mixed', 'cat', 'single'}, fixed_sched=tuple(['S1', 'CF'] * 12 + ['S1', 'CI', 'S1']))
  except Exception:  # pylint: disable=broad-except
    pass
  try:
    from vizier._src.algorithms.designers import cmaes
    algos['CMA_ES'] = dict(f=lambda p, s: cmaes.CMAESDesigner(p, seed=s), randomised=True, restartable=True, only={'neg', 'log', 'f32edge'})
  except Exception:  # pylint: disable=broad-except
    pass
  return algos


def suggestion_record(sugg):
  return [{'name': k, 'v': fkey.value_record(v.value)} for k, v in sorted(sugg.parameters.items())]


import contextlib


@contextlib.contextmanager
def shifted_clock(offset):
  """Wall-clock time shifted: a seeded run must not depend on it."""
  real = time.time
  time.time = lambda: real() + offset
  try:
    yield
  finally:
    time.time = real


def perturb_globals(rng):
  np.random.seed(rng.randrange(2 ** 31))
  random.seed(rng.random())
  np.random.rand(17)
  try:
    import jax
    jax.random.uniform(jax.random.PRNGKey(rng.randrange(1000)), (3,))
  except Exception:  # pylint: disable=broad-except
    pass


def state_digest(designer, algo):
  """Public persistent state (dump) as comparable JSON leaves; only for the evolutionary designers."""
  if not algo.get('state'):
    return []
  md = designer.dump()
  out = []
  for ns, k, v in md.all_items():
    out.append([str(ns), k, v if isinstance(v, str) else repr(v)])
  # ... and the population as the running object holds it: a dump that loses something loses it on both sides of the
  # comparison, the object in memory does not
  pop = getattr(designer, '_population', None)
  for field in ('xs', 'ys', 'cs', 'ages', 'generations', 'ids'):
    v = getattr(pop, field, None)
    if v is not None:
      try:
        import numpy as np
        out.append(['<in memory>', field, repr(np.asarray(v).tolist())])
      except Exception:  # pylint: disable=broad-except
        pass
  return sorted(out)


def run_session(algo, prob, sched, seed, restart=False, perturb=None, feed=None, record=None):
  """Runs one schedule; returns (list of suggestion records, state digests after each suggest step, refusal or None)."""
  from vizier import algorithms as vza
  from vizier import pyvizier as vz
  if perturb is not None:
    perturb_globals(perturb)
    with shifted_clock(4321.5 + perturb.random() * 1000):
      return run_session(algo, prob, sched, seed, restart=restart, feed=feed, record=record)
  try:
    d = algo['f'](prob, seed)
  except Exception as e:  # pylint: disable=broad-except
    return [], [], 'refused-at-construction:%s' % type(e).__name__
  out, states = [], []
  active = []
  next_id = 1
  k = 0
  nfeed = 0
  import copy
  for step in sched:
    if step in ('S1', 'S2', 'S3'):
      n = int(step[1])
      try:
        sg = d.suggest(n)
      except Exception as e:  # pylint: disable=broad-except
        return out, states, 'refused-at-suggest:%s:%s' % (type(e).__name__, str(e)[:80])
      for s in sg:
        out.append(suggestion_record(s))
        t = s.to_trial(next_id)
        next_id += 1
        active.append(t)
      states.append(state_digest(d, algo))
    elif step in ('CF', 'CR', 'CI'):
      done = []
      for t in (reversed(active) if step == 'CR' else active):
        k += 1
        if step == 'CI':
          t.complete(vz.Measurement(), infeasibility_reason='infeasible')
        else:
          # one session in four reports an infinite objective now and then (a legal measurement: C09 carries it, C11 ranks it)
          inf = seed % 4 == 1 and k % 5 == 3
          t.complete(vz.Measurement({'m': float('inf') if inf else float((k * 7) % 5), 'k': float('-inf') if inf and k % 2 else float((k * 3) % 4)}))
        done.append(t)
      active = []
      if record is not None:
        record.append(copy.deepcopy(done))
      if feed is not None:
        # "run on the same trial history": the restarted instance is updated with the live instance's trials
        done = copy.deepcopy(feed[nfeed])
        nfeed += 1
      try:
        d.update(vza.CompletedTrials(done), vza.ActiveTrials([]))
      except Exception as e:  # pylint: disable=broad-except
        return out, states, 'refused-at-update:%s:%s' % (type(e).__name__, str(e)[:60])
    elif step == 'R' and restart:
      md = d.dump()
      d = algo['f'](prob, seed + 1000)     # a fresh instance (constructed with another seed on purpose: load must restore everything)
      d.load(md)
  return out, states, None



HOSTED = ['RANDOM_SEARCH', 'QUASI_RANDOM_SEARCH', 'GRID_SEARCH', 'SHUFFLED_GRID_SEARCH', 'NSGA2', 'EAGLE_STRATEGY', 'CMA_ES', 'SEEDED_DESIGNER_POLICY']


class _SeededFactory:
  """The repository's policy factory plus one more name: DesignerPolicy (use_seeding=True, the wrapper used for the GP
  designers) around the random designer, so that the default/centre seeding path runs without a GP."""

  def __init__(self):
    from vizier._src.service import policy_factory
    self._base = policy_factory.DefaultPolicyFactory()

  def __call__(self, problem_statement, algorithm, policy_supporter, study_name):
    if algorithm == 'SEEDED_DESIGNER_POLICY':
      from vizier._src.algorithms.designers import random as rnd
      from vizier._src.algorithms.policies import designer_policy as dp
      return dp.DesignerPolicy(policy_supporter, lambda p: rnd.RandomDesigner(p.search_space, seed=7))
    return self._base(problem_statement, algorithm, policy_supporter, study_name)


def hosted_session(algorithm, prob, sched):
  """The same kind of schedule, but through the servicer: real policy factory, Pythia, policies, supporter, converters.
  Returns (suggestion records, refusal)."""
  from vizier._src.service import pythia_service
  from vizier._src.service import study_pb2
  from vizier._src.service import vizier_service
  from vizier._src.service import vizier_service_pb2 as vs
  from vizier._src.pyvizier.oss import proto_converters as pcv
  from vizier.service import pyvizier as svz
  svc = vizier_service.VizierServicer(database_url=None)      # RAM; the default is a file next to the sources
  svc.default_pythia_service = pythia_service.PythiaServicer(svc, policy_factory=_SeededFactory())
  sc = svz.StudyConfig.from_problem(prob)
  sc.algorithm = algorithm
  try:
    name = svc.CreateStudy(vs.CreateStudyRequest(parent='owners/h', study=study_pb2.Study(display_name='h', study_spec=sc.to_proto()))).name
  except Exception as e:  # pylint: disable=broad-except
    return [], 'refused-at-create:%s' % type(e).__name__
  out = []
  active = []
  k = 0
  for step in sched:
    if step in ('S1', 'S2', 'S3'):
      n = int(step[1])
      try:
        op = svc.SuggestTrials(vs.SuggestTrialsRequest(parent=name, suggestion_count=n, client_id='w%d' % len(out)))
      except Exception as e:  # pylint: disable=broad-except
        return out, 'refused-at-suggest:%s' % type(e).__name__
      if op.HasField('error'):
        return out, 'refused-at-suggest:operation-error:%s' % op.error.message[:80]
      for t in vs.SuggestTrialsResponse.FromString(op.response.value).trials:
        pt = pcv.TrialConverter.from_proto(t)
        out.append([{'name': kk, 'v': fkey.value_record(v.value)} for kk, v in sorted(pt.parameters.items())])
        active.append(t.name)
    elif step in ('CF', 'CR', 'CI'):
      for tname in (reversed(active) if step == 'CR' else active):
        k += 1
        r = vs.CompleteTrialRequest(name=tname)
        if step == 'CI':
          r.trial_infeasible = True
          r.infeasible_reason = 'infeasible'
        else:
          for mi in prob.metric_information:
            r.final_measurement.metrics.add(metric_id=mi.name, value=float((k * 7) % 5))
        try:
          svc.CompleteTrial(r)
        except Exception as e:  # pylint: disable=broad-except
          return out, 'refused-at-complete:%s' % type(e).__name__
      active = []
  return out, None


def hosted_neighbours(algorithm, prob_a, prob_b, prob_c, backend_url):
  """Two studies of one owner whose names are prefixes of each other (h, h0), with DIFFERENT spaces, served alternately by
  one servicer; then h is deleted and created again with a third space.  Every suggestion must lie in the space of the
  study it was made for.  Returns [(problem, suggestion records)], refusal."""
  from vizier._src.service import pythia_service
  from vizier._src.service import study_pb2
  from vizier._src.service import vizier_service
  from vizier._src.service import vizier_service_pb2 as vs
  from vizier._src.pyvizier.oss import proto_converters as pcv
  from vizier.service import pyvizier as svz
  svc = vizier_service.VizierServicer(database_url=backend_url)
  svc.default_pythia_service = pythia_service.PythiaServicer(svc, policy_factory=_SeededFactory())

  def create(display, prob):
    sc = svz.StudyConfig.from_problem(prob)
    sc.algorithm = algorithm
    return svc.CreateStudy(vs.CreateStudyRequest(parent='owners/n', study=study_pb2.Study(display_name=display, study_spec=sc.to_proto()))).name

  def suggest(name, n, worker):
    op = svc.SuggestTrials(vs.SuggestTrialsRequest(parent=name, suggestion_count=n, client_id=worker))
    if op.HasField('error'):
      raise RuntimeError('operation-error:' + op.error.message[:80])
    out = []
    got = list(vs.SuggestTrialsResponse.FromString(op.response.value).trials)
    for k, t in enumerate(got):
      pt = pcv.TrialConverter.from_proto(t)
      out.append([{'name': kk, 'v': fkey.value_record(v.value)} for kk, v in sorted(pt.parameters.items())])
      if k == len(got) - 1 and len(got) > 1:
        continue               # one trial of every batch stays ACTIVE (the same worker id serves both studies)
      r = vs.CompleteTrialRequest(name=t.name)
      for mi in prob_a.metric_information:
        r.final_measurement.metrics.add(metric_id=mi.name, value=1.0)
      svc.CompleteTrial(r)
    return out
  res = {'a': [], 'b': [], 'c': []}
  try:
    na = create('h', prob_a)
    nb = create('h0', prob_b)
    for k in range(3):
      res['a'] += suggest(na, 2, 'w')
      res['b'] += suggest(nb, 2, 'w')
    svc.DeleteStudy(vs.DeleteStudyRequest(name=na))
    nc = create('h', prob_c)
    for k in range(2):
      res['c'] += suggest(nc, 2, 'w')
      res['b'] += suggest(nb, 1, 'w')
  except Exception as e:  # pylint: disable=broad-except
    return [(prob_a, res['a']), (prob_b, res['b']), (prob_c, res['c'])], 'refused:%s:%s' % (type(e).__name__, str(e)[:80])
  return [(prob_a, res['a']), (prob_b, res['b']), (prob_c, res['c'])], None


def hosted_observations(ctx, scheds, rng, cat):
  """Observations (same format as the designer sessions, run A only) of algorithms hosted in the servicer."""
  obs, meta = [], []
  names = sorted(cat)
  for algorithm in HOSTED:
    if algorithm == 'CMA_ES':
      use = [s for s in names if s in ('neg', 'log', 'f32edge')]
    else:
      use = rng.sample(names, min(len(names), 6 if not ctx.thorough else len(names)))
      for must in ('single', 'mixed'):        # singleton parameters take their own path in the policies
        if must not in use:
          use.append(must)
    for shape in use:
      prob = problem(shape, 2 if algorithm == 'NSGA2' else 1)
      sched = rng.choice([s for s in scheds if sum(1 for x in s if x[0] == 'S') >= 2])
      t0 = time.time()
      a, refusal = hosted_session(algorithm, prob, sched)
      obs.append({'space': fkey.space_record(prob.search_space), 'runs': {'A': a, 'B': a, 'C': a, 'D': a}, 'state': {'A': [], 'B': []},
                  'extra': [], 'cmp': 'sug', 'restartable': False, 'randomised': False})
      meta.append({'algorithm': 'hosted:' + algorithm, 'shape': shape, 'schedule': list(sched), 'seed': 0, 'refusal': refusal, 'secs': round(time.time() - t0, 2)})
  # neighbouring studies (names that are prefixes of each other, different spaces, delete + re-create) on RAM and SQLite
  from vizier._src.service import constants
  triples = [('unit', 'mixed', 'neg'), ('cat', 'int', 'mixed'), ('disc', 'unit', 'bool')]
  for algorithm in ('RANDOM_SEARCH', 'QUASI_RANDOM_SEARCH', 'GRID_SEARCH', 'EAGLE_STRATEGY', 'NSGA2'):
    for url, bname in ((None, 'ram'), (constants.SQL_MEMORY_URL, 'sqlmem')):
      ta, tb, tc = rng.choice(triples)
      m = 2 if algorithm == 'NSGA2' else 1
      t0 = time.time()
      parts, refusal = hosted_neighbours(algorithm, problem(ta, m), problem(tb, m), problem(tc, m), url)
      for prob, sugg in parts:
        obs.append({'space': fkey.space_record(prob.search_space), 'runs': {'A': sugg, 'B': sugg, 'C': sugg, 'D': sugg}, 'state': {'A': [], 'B': []},
                    'extra': [], 'cmp': 'sug', 'restartable': False, 'randomised': False})
        meta.append({'algorithm': 'neighbours:%s:%s' % (algorithm, bname), 'shape': '%s|%s|%s' % (ta, tb, tc), 'schedule': [], 'seed': 0, 'refusal': refusal,
                     'secs': round(time.time() - t0, 2)})
  return obs, meta


def load_schedules(workdir, max_len, n, rng):
  cfg = os.path.join(workdir, 'DS_enum.cfg')
  tlc.write_cfg(cfg, constants={'Mode': 'enumerate', 'MaxLen': max_len, 'MaxBatch': 3}, constraints=['Dump'])
  res = tlc.must_ok(tlc.run_tlc('DesignerSession', cfg, workdir, workers=4), 'DesignerSession/enumerate')
  scheds = sorted({tuple(r['sched']) for r in res.printed_json()})
  if not scheds:
    raise tlc.MachineryError('no schedules enumerated')
  return res, scheds


DV = re.compile(r'<<"DV", (\d+), "(\w+)", "(\w+)", "(\w+)">>')


def judge(observations, workdir):
  path = os.path.join(workdir, 'ds_obs.json')
  with open(path, 'w') as f:
    json.dump(observations, f)
  cfg = os.path.join(workdir, 'DS_judge.cfg')
  tlc.write_cfg(cfg, spec='JSpec', constants={'Mode': 'judge', 'MaxLen': 0, 'MaxBatch': 0})
  res = tlc.must_ok(tlc.run_tlc('DesignerSession', cfg, workdir, workers=1, env={'TRACE_FILE': path}, timeout=3000), 'DesignerSession/judge')
  v = {int(m.group(1)): (m.group(2), m.group(3), m.group(4)) for m in DV.finditer(res.out)}
  if len(v) != len(observations):
    raise tlc.MachineryError('designer judge incomplete: %d of %d\n%s' % (len(v), len(observations), res.out[-1500:]))
  return [v[i + 1] for i in range(len(observations))], res


def collect(ctx, which):
  """Runs the sessions and returns (observations, meta, tlc results).  which: 'C03' | 'C13' | 'C14' decides the sampling emphasis."""
  rng = random.Random(ctx.seed + 61)
  algos = algorithms()
  cat = dict(shapes())
  _CLASS_SHAPES.clear()
  _CLASS_SHAPES.update(class_shapes(ctx.seed, 8 if not ctx.thorough else 40) if which == 'C03' else {})
  cat.update({k: None for k in _CLASS_SHAPES})
  obs, meta = [], []
  with tlc.Scratch('ds') as d:
    res, scheds = load_schedules(d, 5 if not ctx.thorough else 6, 0, rng)
    with_r = [s for s in scheds if 'R' in s]
    with_ci = [s for s in scheds if 'CI' in s]
    per = (3 if not ctx.thorough else 10)
    for aname, algo in sorted(algos.items()):
      if which == 'C14' and algo.get('seedable') is False:
        continue
      for shape in sorted(cat):
        if which != 'C03' and shape in C03_ONLY:
          continue
        if algo.get('only') and shape not in algo['only']:
          continue
        if shape in algo.get('skip', ()):
          continue
        prob = problem(shape, algo.get('metrics', 1))
        pool = {'C13': with_r, 'C03': with_ci + scheds, 'C14': scheds}[which]
        chosen = rng.sample(pool, min(per, len(pool)))
        if algo.get('fixed_sched'):
          chosen = [algo['fixed_sched']]
        # long sessions (concatenations of enumerated schedules with completions in between): evolutionary / swarm designers
        # change regime only after a dozen or more completed trials
        if shape in LONG_SHAPES and not algo.get('fixed_sched'):
          for _ in range(1 if not ctx.thorough else 3):
            parts = rng.sample(with_r if which == 'C13' else scheds, 4)
            long = []
            for part in parts:
              long += list(part) + [rng.choice(['CF', 'CR'])]
            chosen.append(tuple(long + ['S2']))
        # one EXTRA session per (algorithm, shape) reports infinite objectives now and then (seed = 1 mod 4, see run_session);
        # it is extra because several designers refuse such a history outright, which must not cost the other sessions
        inf_idx = -1
        if not algo.get('fixed_sched'):
          inf_idx = len(chosen)
          # long enough for the third completed trial (the first infinite one) to be followed by more steps of every kind
          parts = rng.sample(pool, min(3, len(pool)))
          extra = []
          for part in parts:
            extra += list(part) + ['CF']
          chosen.append(tuple(extra + ['S2']))
        for k_s, sched in enumerate(chosen):
          # 0 is a seed like any other
          seed = 0 if k_s == 1 else rng.randrange(1, 10 ** 5) * 4 + (1 if k_s == inf_idx else 2)
          t0 = time.time()
          hist = []
          a, sa, ra = run_session(algo, prob, sched, seed, record=hist)
          b, sb, rb = run_session(algo, prob, sched, seed, restart=True, feed=hist) if algo['restartable'] and which != 'C14' and not ra else (a, sa, ra)
          c, sc, rc = run_session(algo, prob, sched, seed, perturb=rng) if which != 'C13' else (a, sa, ra)
          dd, sd, rd = run_session(algo, prob, sched, seed + 1) if which == 'C14' else (a, sa, ra)
          refusal = ra or rb or rc or rd
          npoints = 1
          for pc in prob.search_space.parameters:
            if pc.type.name == 'DOUBLE':
              npoints *= 1 if pc.bounds[0] == pc.bounds[1] else 10 ** 6
            else:
              npoints *= pc.num_feasible_values
          obs.append({'space': fkey.space_record(prob.search_space), 'runs': {'A': a, 'B': b, 'C': c, 'D': dd}, 'state': {'A': sa, 'B': sb},
                      'extra': [], 'cmp': 'state' if algo.get('state') else 'sug', 'restartable': bool(algo['restartable'] and which != 'C14' and not refusal),
                      'randomised': bool(algo['randomised'] and npoints > 8 and which == 'C14' and not refusal and len(a) >= 2)})
          meta.append({'algorithm': aname, 'shape': shape, 'schedule': list(sched), 'seed': seed, 'refusal': refusal, 'secs': round(time.time() - t0, 2)})
    # default / centre seeding (C03)
    if which == 'C03':
      ho, hm = hosted_observations(ctx, scheds, rng, cat)
      obs += ho
      meta += hm
      from vizier._src.pythia import suggest_default
      for shape in sorted(cat):
        prob = problem(shape)
        try:
          params = suggest_default.get_default_parameters(prob.search_space)
          rec = [{'name': k, 'v': fkey.value_record(v.value)} for k, v in sorted(params.items())]
          obs.append({'space': fkey.space_record(prob.search_space), 'runs': {'A': [rec], 'B': [rec], 'C': [rec], 'D': [rec]}, 'state': {'A': [], 'B': []},
                      'extra': [], 'cmp': 'sug', 'restartable': False, 'randomised': False})
          meta.append({'algorithm': 'default_parameters', 'shape': shape, 'schedule': [], 'seed': 0, 'refusal': None, 'secs': 0})
        except Exception as e:  # pylint: disable=broad-except
          meta_refusal = 'refused:%s' % type(e).__name__
          ctx.notes.append('get_default_parameters refused shape %s: %s' % (shape, meta_refusal))
    verdicts, jres = judge(obs, d)
  return obs, meta, verdicts, res, jres
