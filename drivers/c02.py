"""C02 - Suggest hands out exactly the requested trials, sticky per worker, fresh ids."""
import speca
import svc

LEVEL = 'model_checking'
SK = {'CreateStudy', 'SuggestTrials', 'CreateTrial', 'CompleteTrial', 'DeleteTrial', 'StopTrial'}
EXPECT = [('SuggestTrials', 'None'), ('SuggestTrials', 'NotFound'), ('CreateTrial', 'None'), ('CompleteTrial', 'None'),
          ('DeleteTrial', 'None')]


def rounds(ctx):
  if not ctx.thorough:
    return [
        dict(name='suggest_d4', consts=speca.constants(MaxDepth=4, MaxId=4, MaxCount=3, MaxDeliver=3, Params={'p1'}, Meas={'m1'}, Kinds=SK),
             expect=EXPECT, backends={'ram': 1.0, 'sqlmem': 0.2}, relevant={'SuggestTrials'}),
        dict(name='suggest_order_d3', consts=speca.constants(MaxDepth=3, MaxId=4, MaxCount=3, MaxDeliver=4, Meas={'m1'}, Kinds=SK),
             expect=EXPECT[:4], backends={'ram': 1.0, 'sqlmem': 0.5}, relevant={'SuggestTrials'}),
        dict(name='suggest_3workers_d4', consts=speca.constants(
            MaxDepth=4, MaxId=4, MaxCount=2, MaxDeliver=3, Params={'p1'}, Clients={'w1', 'w2', 'w3'}, Meas={'m1'},
            Kinds=SK | {'GetOperation', 'SetStudyState'}),
             expect=EXPECT + [('SuggestTrials', 'FailedPrecondition'), ('GetOperation', 'None'), ('GetOperation', 'NotFound')],
             backends={'ram': 1.0, 'sqlmem': 0.5}, relevant={'SuggestTrials'}),
    ]
  return [
      dict(name='suggest_d4_2params', consts=speca.constants(MaxDepth=4, MaxId=4, MaxCount=3, MaxDeliver=3, Meas={'m1'}, Kinds=SK),
           expect=EXPECT, backends={'ram': 1.0, 'sqlmem': 0.2}, relevant={'SuggestTrials'}),
      dict(name='suggest_d5', consts=speca.constants(MaxDepth=5, MaxId=4, MaxCount=2, MaxDeliver=3, Params={'p1'}, Meas={'m1'}, Kinds=SK),
           expect=EXPECT, backends={'ram': 1.0, 'sqlmem': 0.3}, relevant={'SuggestTrials'}),
      dict(name='suggest_d4_maxid5', consts=speca.constants(MaxDepth=4, MaxId=5, MaxCount=3, MaxDeliver=4, Meas={'m1'}, Kinds=SK),
           expect=EXPECT, backends={'ram': 1.0, 'sqlmem': 0.3}, relevant={'SuggestTrials'}),
      dict(name='suggest_3workers_d4', consts=speca.constants(
          MaxDepth=4, MaxId=4, MaxCount=2, MaxDeliver=3, Params={'p1', 'p2'}, Clients={'w1', 'w2', 'w3'}, Meas={'m1'},
          Kinds=SK | {'GetOperation', 'SetStudyState'}),
           expect=EXPECT, backends={'ram': 1.0, 'sqlmem': 0.3, 'sqlfile': 0.03}, relevant={'SuggestTrials'}),
      dict(name='suggest_two_studies_d4', consts=speca.constants(
          MaxDepth=4, MaxId=3, MaxCount=2, MaxDeliver=2, Params={'p1'}, Studies={'s1', 's2'}, Meas={'m1'}, Kinds=SK | {'DeleteStudy'}),
           expect=EXPECT, backends={'ram': 1.0, 'sqlmem': 0.3}, relevant={'SuggestTrials'}),
  ]


def walks(ctx):
  conf = {'Studies': ['s1'], 'Clients': ['w1', 'w2', 'w3'], 'MaxId': 14, 'Cells': ['c1'], 'Recycle': 'never'}
  n = 600 if ctx.thorough else 160
  kinds = ['SuggestTrials'] * 5 + ['CreateTrial', 'CreateTrial', 'CompleteTrial', 'CompleteTrial', 'DeleteTrial', 'StopTrial',
                                    'GetOperation', 'SetStudyState', 'CreateStudy']
  return [dict(name='suggest_traffic', conf=conf, n=n, length=40, kinds=kinds, opts={'MaxCount': 4},
               backends=['ram', 'sqlmem'])]


def run(ctx):
  ctx.assumptions += [
      'the algorithm is environment: a scripted policy (public PolicyFactory parameter) delivers exactly what the TLC behaviour says',
      'which REQUESTED trial is popped from the pool is the code\'s documented choice (last queued first); the model fixes it',
  ]
  svc.run_rounds(ctx, 'C02', rounds(ctx), walks(ctx))
  if True:
    # the repository's own service tests, recorded and judged by VizierTraceLite.tla (step predicates of this property)
    import c01_repotests
    import tlc
    with tlc.Scratch('c02_repotests') as d:
      layer = c01_repotests.run(ctx, d)
    ctx.coverage['traces_validated_against_impl'] = ctx.coverage.get('traces_validated_against_impl', 0) + layer['servicers_recorded']
  client_layer(ctx)


def client_layer(ctx):
  """VizierClient.get_suggestions / clients.Study.suggest return exactly the operation's trials; FAILED_PRECONDITION -> []."""
  import random
  import world
  from vizier._src.service import vizier_client
  from vizier._src.service import clients
  from vizier._src.service import vizier_service_pb2 as vs
  from vizier._src.service import resources
  rng = random.Random(ctx.seed + 5)
  vizier_client.environment_variables.new_suggestion_polling_secs = 0.0
  n_cases = 120 if ctx.thorough else 40
  bad = 0
  for case in range(n_cases):
    conf = {'Studies': ['s1'], 'Clients': ['w1', 'w2'], 'MaxId': 12, 'Cells': ['c1'], 'Recycle': 'never'}
    w = world.World(conf, backend='ram')
    w.run({'rpc': 'CreateStudy', 's': 's1', 'cfg': 'max1'})
    log = []
    for step in range(6):
      cid = rng.choice(['w1', 'w2'])
      n = rng.randint(1, 3)
      k = rng.choice([n, n, n + 1, max(n - 1, 0)])
      env = {'raise': False, 'ps': [rng.choice(['p1', 'p2']) for _ in range(k)], 'md': {'c1': 'None'}}
      world.set_env(env)
      before = w.project()
      vc = vizier_client.VizierClient(w.sname('s1'), cid, w.svc)
      got = [int(t.id) for t in vc.get_suggestions(n)]
      after = w.project()
      ops = after['ops']['s1'][cid]
      exp = ops[-1]['trials'] if ops else None
      ok = exp is not None and sorted(got) == exp and all(
          after['trial']['s1'][i - 1].get('state') == 'ACTIVE' and after['trial']['s1'][i - 1].get('client') == cid for i in got)
      log.append({'client': cid, 'n': n, 'delivered': k, 'got': got, 'operation_trials': exp})
      if not ok:
        bad += 1
        ctx.violation({'layer': 'VizierClient.get_suggestions', 'what': 'returned trials differ from the finished operation'},
                      {'kind': 'client', 'log': log})
        break
      if rng.random() < 0.5 and got:
        w.run({'rpc': 'CompleteTrial', 's': 's1', 't': rng.choice(got), 'f': 'm1', 'inf': False, 'reason': ''})
    # a finished study yields [] (FAILED_PRECONDITION mapped by the client), never an exception
    w.run({'rpc': 'SetStudyState', 's': 's1', 'x': 'COMPLETED'})
    try:
      r = vizier_client.VizierClient(w.sname('s1'), 'w1', w.svc).get_suggestions(1)
      if list(r) != []:
        ctx.violation({'layer': 'VizierClient.get_suggestions', 'what': 'non-empty suggestions on a completed study'}, {'kind': 'client', 'log': log})
    except Exception as e:  # pylint: disable=broad-except
      ctx.violation({'layer': 'VizierClient.get_suggestions', 'what': 'exception on a completed study', 'exc': type(e).__name__},
                    {'kind': 'client', 'log': log})
    if case == 0:
      ctx.sample({'client_layer': log})
  ctx.coverage['client_layer_cases'] = n_cases
  ctx.coverage['traces_validated_against_impl'] += n_cases


def replay(ctx, case):
  if case['case'].get('kind') == 'client':
    client_layer(ctx)
    ctx.coverage.update({'states': 1, 'transitions': 1})
    return
  svc.replay_case(ctx, case, 'C02')
