"""C10 - Metadata is an exact last-writer-wins key-value store across namespaces."""
import speca
import svc

LEVEL = 'model_checking'
MK = {'CreateStudy', 'SuggestTrials', 'UpdateMetadata', 'CompleteTrial', 'DeleteTrial', 'SetStudyState'}
EXPECT = [('UpdateMetadata', 'None'), ('UpdateMetadata', 'NotFound'), ('UpdateMetadata', 'FailedPrecondition'), ('SuggestTrials', 'None')]


def rounds(ctx):
  if not ctx.thorough:
    return [
        dict(name='meta_d4', consts=speca.constants(MaxDepth=4, MaxId=2, MaxCount=1, MaxDeliver=1, Clients={'w1'}, Params={'p1'}, Meas={'m1'},
                                                   Cells={'c1', 'c2'}, Vals={'v1', 'v2'}, AlgoMeta=True, Kinds=MK - {'DeleteTrial'}),
             expect=EXPECT, backends={'ram': 1.0, 'sqlmem': 0.3}, relevant={'UpdateMetadata', 'SuggestTrials'}),
        dict(name='meta_ns_d3', consts=speca.constants(MaxDepth=3, MaxId=2, MaxCount=2, MaxDeliver=2, Clients={'w1'}, Params={'p1'}, Meas={'m1'},
                                                      Cells={'c1', 'c2', 'c3', 'c4'}, Vals={'v1', ''}, AlgoMeta=True, Kinds=MK),
             expect=EXPECT[:2], backends={'ram': 1.0, 'sqlmem': 0.5}, relevant={'UpdateMetadata', 'SuggestTrials'}),
        # string and protobuf values overwriting each other, incl. a DEFAULT-valued proto (empty payload)
        dict(name='meta_proto_d4', consts=speca.constants(MaxDepth=4, MaxId=1, MaxCount=1, MaxDeliver=1, Clients={'w1'}, Params={'p1'}, Meas={'m1'},
                                                         Cells={'c1'}, Vals={'v1', 'pa', 'pz'}, AlgoMeta=True, Kinds={'CreateStudy', 'SuggestTrials', 'UpdateMetadata'}),
             expect=EXPECT[:2], backends={'ram': 1.0, 'sqlmem': 0.5}, relevant={'UpdateMetadata', 'SuggestTrials'}),
    ]
  return [
      dict(name='meta_d5', consts=speca.constants(MaxDepth=5, MaxId=2, MaxCount=1, MaxDeliver=1, Clients={'w1'}, Params={'p1'}, Meas={'m1'},
                                                 Cells={'c1', 'c2'}, Vals={'v1', 'v2'}, AlgoMeta=True, Kinds={'CreateStudy', 'SuggestTrials', 'UpdateMetadata', 'CompleteTrial'}),
           expect=EXPECT[:2], backends={'ram': 1.0, 'sqlmem': 0.2}, relevant={'UpdateMetadata', 'SuggestTrials'}),
      dict(name='meta_ns_d4', consts=speca.constants(MaxDepth=4, MaxId=2, MaxCount=2, MaxDeliver=2, Clients={'w1'}, Params={'p1'}, Meas={'m1'},
                                                    Cells={'c1', 'c2', 'c3', 'c4'}, Vals={'v1', ''}, AlgoMeta=True, Kinds=MK - {'SetStudyState'}),
           expect=EXPECT[:2], backends={'ram': 1.0, 'sqlmem': 0.3}, relevant={'UpdateMetadata', 'SuggestTrials'}),
      dict(name='meta_two_studies_d4', consts=speca.constants(MaxDepth=4, MaxId=2, MaxCount=1, MaxDeliver=1, Clients={'w1'}, Params={'p1'}, Meas={'m1'},
                                                             Studies={'s1', 's2'}, Cells={'c1', 'c2'}, Vals={'v1'}, AlgoMeta=True, Kinds=MK | {'DeleteStudy'}),
           expect=EXPECT, backends={'ram': 1.0, 'sqlmem': 1.0, 'sqlfile': 0.03}, relevant={'UpdateMetadata', 'SuggestTrials'}),
  ]


def walks(ctx):
  conf = {'Studies': ['s1', 's2'], 'Clients': ['w1', 'w2'], 'MaxId': 8, 'Cells': ['c1', 'c2', 'c3', 'c4'], 'Recycle': 'never'}
  kinds = ['UpdateMetadata'] * 6 + ['SuggestTrials'] * 3 + ['CompleteTrial', 'CreateTrial', 'DeleteTrial', 'SetStudyState', 'CreateStudy', 'DeleteStudy']
  n = 480 if ctx.thorough else 120
  return [dict(name='metadata_traffic', conf=conf, n=n, length=40, kinds=kinds, opts={'AlgoMeta': True, 'Vals': ['v1', 'v2', '', 'pa', 'pz']},
               backends=['ram', 'sqlmem'])]


def run(ctx):
  import c10_namespace
  ctx.assumptions += [
      'cells c1..c4 are (namespace,key) pairs incl. an algorithm-style namespace and a namespace component containing an escaped colon',
      'algorithm-issued study metadata rides on SuggestTrials (scripted policy returns a MetadataDelta)',
  ]
  svc.run_rounds(ctx, 'C10', rounds(ctx), walks(ctx))
  if ctx.thorough:
    # the repository's own service tests, recorded and judged by VizierTraceLite.tla (step predicates of this property)
    import c01_repotests
    import tlc
    with tlc.Scratch('c10_repotests') as d:
      layer = c01_repotests.run(ctx, d)
    ctx.coverage['traces_validated_against_impl'] = ctx.coverage.get('traces_validated_against_impl', 0) + layer['servicers_recorded']
  c10_namespace.run(ctx)
  # the Metadata object itself (spec/MetadataStore.tla)
  import c10_metadata
  import tlc as _tlc
  with _tlc.Scratch('c10_md') as d:
    ml = c10_metadata.run(ctx, d)
  ctx.coverage['states'] = ctx.coverage.get('states', 0) + ml['states']
  ctx.coverage['transitions'] = ctx.coverage.get('transitions', 0) + ml['transitions']
  ctx.coverage['traces_validated_against_impl'] = ctx.coverage.get('traces_validated_against_impl', 0) + ml['replayed']


def replay(ctx, case):
  if case['case'].get('kind') in ('metadata-object', 'metadata-delta'):
    import c10_metadata
    return c10_metadata.replay(ctx, case['case'])
  if case['case'].get('kind') == 'namespace':
    import c10_namespace
    c10_namespace.run(ctx, only=case['case'])
    ctx.coverage.update({'states': 1, 'transitions': 1, 'traces_validated_against_impl': 1})
    return
  svc.replay_case(ctx, case, 'C10')
