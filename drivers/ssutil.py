"""Shared helpers of the SearchSpace.tla based checks (C16, C17): typed values, catalog, tree -> real search space."""
import os

import verif_boot  # noqa: F401
import tlc

INF = float('inf')


def pyval(v):
  """Typed value record of SearchSpace.tla -> Python value."""
  if v['py'] == 'none':
    return None
  if v['py'] == 'int':
    return int(v['h'] // 2)
  if v['py'] == 'float':
    return {'fin': v['h'] / 2.0, 'inf': INF, 'ninf': -INF, 'nan': float('nan')}[v['sp']]
  if v['py'] == 'str':
    return v['s']
  if v['py'] == 'bool':
    return v['s'] == 'True'
  raise KeyError(v)


def typed(x):
  """Python value -> typed value record (value in half units)."""
  if x is None:
    return {'py': 'none', 'h': 0, 'sp': 'fin', 's': ''}
  if isinstance(x, bool):
    return {'py': 'bool', 'h': 2 if x else 0, 'sp': 'fin', 's': 'True' if x else 'False'}
  if isinstance(x, int):
    return {'py': 'int', 'h': 2 * x, 'sp': 'fin', 's': ''}
  if isinstance(x, float):
    if x != x:
      return {'py': 'float', 'h': 0, 'sp': 'nan', 's': ''}
    if x in (INF, -INF):
      return {'py': 'float', 'h': 0, 'sp': 'inf' if x > 0 else 'ninf', 's': ''}
    h = x * 2
    return {'py': 'float', 'h': int(h) if h == int(h) else h, 'sp': 'fin', 's': ''}
  if isinstance(x, str):
    return {'py': 'str', 'h': 0, 'sp': 'fin', 's': x}
  return {'py': type(x).__name__, 'h': 0, 'sp': 'fin', 's': repr(x)}


def add_kind(selector, kind, name):
  """Adds a catalog parameter through the user-facing builders (so auto-cast / external types are in play)."""
  if kind == 'D':
    return selector.add_float_param(name, 0.0, 2.5)
  if kind == 'I':
    return selector.add_int_param(name, -1, 2)
  if kind == 'Dp':
    return selector.add_float_param(name, 1.0, 1.0)
  if kind == 'Ip':
    return selector.add_int_param(name, 1, 1)
  if kind == 'S':
    return selector.add_discrete_param(name, [0.5, 1, 2])
  if kind == 'Si':
    return selector.add_discrete_param(name, [1, 2, 3])
  if kind == 'Sn':
    return selector.add_discrete_param(name, [-3, -1, 2])
  if kind == 'C':
    return selector.add_categorical_param(name, ['a', 'b'])
  if kind == 'B':
    return selector.add_bool_param(name)
  raise KeyError(kind)


def value_of(kind, vs):
  """Value string of the model -> the Python value a caller would pass for that kind."""
  if kind in ('C',):
    return vs
  if kind == 'B':
    return vs          # stored as the strings 'True' / 'False'
  h = int(vs)
  if kind in ('I', 'Ip', 'Si', 'Sn'):
    return h // 2 if h % 2 == 0 else h / 2.0
  return h / 2.0


NAME_MAP = {'x0': 'x[0]', 'x1': 'x[1]', 'x2': 'x[2]'}


def real_name(n):
  return NAME_MAP.get(n, n)


def build_space(tree):
  """Conditional search space for a tree of SearchSpace.tla (list of nodes, parent is a 1-based index)."""
  from vizier import pyvizier as vz
  space = vz.SearchSpace()
  selectors = {}

  def add(i, selector):
    node = tree[i]
    add_kind(selector, node['kind'], real_name(node['name']))
    for j, child in enumerate(tree):
      if child['parent'] == i + 1:
        vals = [value_of(node['kind'], v) for v in sorted(child['pv'])]
        if node['kind'] == 'B':
          vals = [v for v in vals]
        add(j, selector.select(real_name(node['name']), vals))

  for i, node in enumerate(tree):
    if node['parent'] == 0:
      add(i, space.root)
  return space


def build_space_factory(tree):
  """The same conditional space built bottom-up with ParameterConfig.factory(children=[(parent values, child)]):
  multi-valued parent sets stay ONE child entry (the route protos with multi-valued conditions take)."""
  from vizier import pyvizier as vz

  def make(i):
    node = tree[i]
    kids = []
    for j, child in enumerate(tree):
      if child['parent'] == i + 1:
        kids.append(([value_of(node['kind'], v) for v in sorted(child['pv'])], make(j)))
    k = node['kind']
    name = real_name(node['name'])
    kw = {'children': kids} if kids else {}
    if k == 'D':
      return vz.ParameterConfig.factory(name, bounds=(0.0, 2.5), **kw)
    if k == 'I':
      return vz.ParameterConfig.factory(name, bounds=(-1, 2), **kw)
    if k == 'S':
      return vz.ParameterConfig.factory(name, feasible_values=[0.5, 1.0, 2.0], external_type=vz.ExternalType.FLOAT, **kw)
    if k == 'Si':
      return vz.ParameterConfig.factory(name, feasible_values=[1.0, 2.0, 3.0], external_type=vz.ExternalType.INTEGER, **kw)
    if k == 'Sn':
      return vz.ParameterConfig.factory(name, feasible_values=[-3.0, -1.0, 2.0], external_type=vz.ExternalType.INTEGER, **kw)
    if k == 'C':
      return vz.ParameterConfig.factory(name, feasible_values=['a', 'b'], **kw)
    if k == 'B':
      return vz.ParameterConfig.factory(name, feasible_values=['False', 'True'], external_type=vz.ExternalType.BOOLEAN, **kw)
    raise KeyError(k)

  space = vz.SearchSpace()
  for i, node in enumerate(tree):
    if node['parent'] == 0:
      space.add(make(i))
  return space


def run_mode(mode, workdir, invariants=()):
  cfg = os.path.join(workdir, 'SS_%s.cfg' % mode)
  tlc.write_cfg(cfg, constants={'Mode': mode}, constraints=['Dump'], invariants=list(invariants))
  res = tlc.must_ok(tlc.run_tlc('SearchSpace', cfg, workdir, workers=8), 'SearchSpace/' + mode)
  if res.violated:
    raise tlc.MachineryError('SearchSpace model violates %s in mode %s' % (res.violated, mode))
  recs = list(res.printed_json())
  return res, recs
