"""C17 - Clients receive parameter values in the declared external types."""
import collections
import json
import random

import verif_boot  # noqa: F401
import ssutil
import tlc

LEVEL = 'model_checking'


def expected_mapping(tree, rec):
  """The model's presentation (per node) folded into what the client API returns: indexed names grouped into lists."""
  out = {}
  multi = collections.defaultdict(list)
  for i, node in enumerate(tree):
    if rec['trial'][i] == '':
      continue
    v = rec['values'][i]
    name = ssutil.real_name(node['name'])
    if '[' in name:
      base, idx = name[:-1].split('[')
      multi[base].append((int(idx), v))
    else:
      out[name] = v
  for base, items in multi.items():
    out[base] = [v for _, v in sorted(items)]
  return out


def same(exp, got):
  """Typed comparison: 'num' = value only; everything else value and Python type."""
  if isinstance(exp, list):
    return isinstance(got, list) and len(exp) == len(got) and all(same(e, g) for e, g in zip(exp, got))
  t = ssutil.typed(got)
  if exp['py'] == 'num':
    return t['py'] in ('int', 'float') and t['h'] == exp['h']
  return t['py'] == exp['py'] and t['h'] == exp['h'] and t['s'] == exp['s']


def indexed(ctx, d, stats):
  """Indexed parameters x[0..n-1] are presented as one list in INDEX order (n up to 13: lexicographic order differs from 10 on)."""
  import world
  from vizier import pyvizier as vz
  from vizier._src.service import clients
  from vizier._src.service import study_pb2
  from vizier._src.service import vizier_client
  from vizier._src.service import vizier_service_pb2 as vs
  from vizier.service import pyvizier as svz
  res, recs = ssutil.run_mode('indexed', d)
  svc = world.make_servicer(None)
  for r in recs:
    n = r['n']
    sc = svz.StudyConfig()
    for i in range(n):
      sc.search_space.root.add_float_param('x', 0.0, 20.0, index=i)
    sc.metric_information.append(vz.MetricInformation('a', goal=vz.ObjectiveMetricGoal.MAXIMIZE))
    sc.algorithm = 'RANDOM_SEARCH'
    st = svc.CreateStudy(vs.CreateStudyRequest(parent='owners/c17i', study=study_pb2.Study(display_name='n%d' % n, study_spec=sc.to_proto())))
    t = study_pb2.Trial()
    for i in reversed(range(n)):
      t.parameters.add(parameter_id='x[%d]' % i).value.number_value = float(i)
    stored = svc.CreateTrial(vs.CreateTrialRequest(parent=st.name, trial=t))
    exp = {'x': r['values']}
    for api in ('clients.Trial.parameters', 'StudyConfig.trial_parameters'):
      stats['indexed_reads'] += 1
      try:
        if api == 'clients.Trial.parameters':
          got = dict(clients.Trial(vizier_client.VizierClient(st.name, 'c', svc), int(stored.id)).parameters)
        else:
          got = dict(sc.trial_parameters(svc.GetTrial(vs.GetTrialRequest(name=stored.name))))
      except Exception as e:  # pylint: disable=broad-except
        got = 'raised %s' % type(e).__name__
      if not (isinstance(got, dict) and set(got) == {'x'} and same(exp['x'], list(got['x']) if isinstance(got['x'], (list, tuple)) else got['x'])):
        ctx.violation({'via': 'present', 'api': api, 'what': 'indexed-order', 'n': n},
                      {'kind': 'present', 'n': n, 'expected': exp, 'observed': repr(got)})


def run(ctx):
  import world
  from vizier import pyvizier as vz
  from vizier._src.service import clients
  from vizier._src.service import study_pb2
  from vizier._src.service import vizier_client
  from vizier._src.service import vizier_service_pb2 as vs
  from vizier.service import pyvizier as svz
  stats = collections.Counter()
  rng = random.Random(ctx.seed + 47)
  with tlc.Scratch('c17') as d:
    res, recs = ssutil.run_mode('present', d)
    if len(recs) != res.distinct:
      raise tlc.MachineryError('present dump incomplete')
    backends = ['ram', 'sqlmem'] if ctx.thorough else ['ram']
    for backend in backends + ['sqlmem-sample']:
      sample = backend.endswith('-sample')
      if sample and ctx.thorough:
        continue
      b = backend.replace('-sample', '')
      svc = world.make_servicer(world.backend_url(b, d))
      studies = {}
      for r in recs:
        if sample and rng.random() > 0.15:
          continue
        tree = r['tree']
        key = json.dumps(tree, sort_keys=True)
        route = 'factory' if (len(studies) + (1 if sample else 0)) % 2 else 'selector'
        if key not in studies:
          sc = svz.StudyConfig()
          # two construction routes: user-facing selectors, and ParameterConfig.factory(children=...) with multi-valued parent sets
          try:
            sc.search_space = ssutil.build_space_factory(tree) if route == 'factory' else ssutil.build_space(tree)
          except Exception as e:  # pylint: disable=broad-except
            ctx.violation({'via': 'present', 'what': 'valid-definition-refused', 'route': route, 'error': type(e).__name__},
                          {'kind': 'present', 'tree': tree, 'route': route, 'error': '%s: %s' % (type(e).__name__, str(e)[:200])})
            studies[key] = None
            continue
          sc.metric_information.append(vz.MetricInformation('a', goal=vz.ObjectiveMetricGoal.MAXIMIZE))
          sc.algorithm = 'RANDOM_SEARCH'
          st = svc.CreateStudy(vs.CreateStudyRequest(parent='owners/c17', study=study_pb2.Study(
              display_name='t%d' % len(studies), study_spec=sc.to_proto())))
          studies[key] = (st.name, sc)
        if studies[key] is None:
          continue
        name, sc = studies[key]
        # store the trial through the service: numbers travel as doubles, booleans and categories as strings
        t = study_pb2.Trial()
        for i, node in enumerate(tree):
          vs_ = r['trial'][i]
          if vs_ == '':
            continue
          p = t.parameters.add(parameter_id=ssutil.real_name(node['name']))
          val = ssutil.value_of(node['kind'], vs_)
          if isinstance(val, str):
            p.value.string_value = val
          else:
            p.value.number_value = float(val)
        stored = svc.CreateTrial(vs.CreateTrialRequest(parent=name, trial=t))
        exp = expected_mapping(tree, r)
        stats['trials'] += 1
        for api in ('clients.Trial.parameters', 'StudyConfig.trial_parameters'):
          try:
            if api == 'clients.Trial.parameters':
              got = dict(clients.Trial(vizier_client.VizierClient(name, 'c', svc), int(stored.id)).parameters)
            else:
              got = dict(sc.trial_parameters(svc.GetTrial(vs.GetTrialRequest(name=stored.name))))
            err = None
          except ValueError as e:
            got, err = None, 'ValueError: ' + str(e)[:80]
          except Exception as e:  # pylint: disable=broad-except
            got, err = None, 'UNEXPECTED %s: %s' % (type(e).__name__, str(e)[:80])
          stats['reads'] += 1
          kinds = ','.join(sorted({tree[i]['kind'] for i in range(len(tree)) if r['trial'][i] != ''}))
          if r['ok']:
            good = got is not None and set(got) == set(exp) and all(same(exp[k], got[k]) for k in exp)
            if not good:
              ctx.violation({'via': 'present', 'api': api, 'what': 'wrong-presentation' if got is not None else 'error-on-valid-trial', 'kinds': kinds},
                            {'kind': 'present', 'tree': tree, 'stored': r['trial'], 'expected': exp, 'observed': repr(got), 'error': err, 'backend': b})
          else:
            if got is not None or (err and err.startswith('UNEXPECTED')):
              ctx.violation({'via': 'present', 'api': api, 'what': 'inactive-or-unknown-parameter-not-reported', 'kinds': kinds},
                            {'kind': 'present', 'tree': tree, 'stored': r['trial'], 'observed': repr(got), 'error': err, 'backend': b})
      ctx.log('  backend %s: %s' % (backend, dict(stats)))
    ok_recs = [r for r in recs if r['ok']]
    ctx.sample({'tree': [(n['name'], n['kind'], n['parent'], n['pv']) for n in ok_recs[len(ok_recs) // 2]['tree']],
                'stored': ok_recs[len(ok_recs) // 2]['trial'], 'presented': expected_mapping(ok_recs[len(ok_recs) // 2]['tree'], ok_recs[len(ok_recs) // 2])})
    indexed(ctx, d, stats)
  presentable = sum(1 for r in recs if r['ok'])
  ctx.coverage.update({'states': res.distinct, 'transitions': res.distinct, 'traces_validated_against_impl': stats['reads'],
                       'evaluations': stats['reads'], 'distinct_nontrivial': len(recs), 'exhaustive': True,
                       'rule': 'one case = (conditional tree, stored trial) enumerated by TLC; every case is non-trivial (a typed presentation or an error is decided)',
                       'counts': dict(stats, trees=5, presentable=presentable, must_be_rejected=len(recs) - presentable)})
  ctx.assumptions += ['trees: 5 shapes (one level, grandchild with multi-valued parent set, numeric parents depth 3, boolean parent, flat with x[0..2])',
                      'INTEGER parameters with INTERNAL external type are compared by value only (Python type unspecified by the property)']


def replay(ctx, case):
  run(ctx)
