"""C17 - Clients receive parameter values in the declared external types."""
import collections
import json
import random

import verif_boot  # noqa: F401
import ssutil
import tlc

LEVEL = 'model_checking'


def expected_mapping(tree, rec):
  """The model's presentation (per node) folded into what the client API returns: indexed names grouped into lists."""
  out = {}
  multi = collections.defaultdict(list)
  for i, node in enumerate(tree):
    if rec['trial'][i] == '':
      continue
    v = rec['values'][i]
    name = ssutil.real_name(node['name'])
    if '[' in name:
      base, idx = name[:-1].split('[')
      multi[base].append((int(idx), v))
    else:
      out[name] = v
  for base, items in multi.items():
    out[base] = [v for _, v in sorted(items)]
  return out


def same(exp, got):
  """Typed comparison: 'num' = value only; everything else value and Python type."""
  if isinstance(exp, list):
    return isinstance(got, list) and len(exp) == len(got) and all(same(e, g) for e, g in zip(exp, got))
  t = ssutil.typed(got)
  if exp['py'] == 'num':
    return t['py'] in ('int', 'float') and t['h'] == exp['h']
  return t['py'] == exp['py'] and t['h'] == exp['h'] and t['s'] == exp['s']


def indexed(ctx, d, stats):
  """Indexed parameters x[0..n-1] are presented as one list in INDEX order (n up to 13: lexicographic order differs from 10 on)."""
  import world
  from vizier import pyvizier as vz
  from vizier._src.service import clients
  from vizier._src.service import study_pb2
  from vizier._src.service import vizier_client
  from vizier._src.service import vizier_service_pb2 as vs
  from vizier.service import pyvizier as svz
  res, recs = ssutil.run_mode('indexed', d)
  svc = world.make_servicer(None)
  # base names a user may pick: anything without parentheses is a legal base name of an indexed parameter
  bases = ['x', 'encoder-units', 'a/b', 'lr rate', 'ns:x', 'x.y', 'x_1']
  for r, base in [(r, b) for r in recs for b in bases]:
    n = r['n']
    sc = svz.StudyConfig()
    for i in range(n):
      sc.search_space.root.add_float_param(base, 0.0, 20.0, index=i)
    sc.metric_information.append(vz.MetricInformation('a', goal=vz.ObjectiveMetricGoal.MAXIMIZE))
    sc.algorithm = 'RANDOM_SEARCH'
    st = svc.CreateStudy(vs.CreateStudyRequest(parent='owners/c17i', study=study_pb2.Study(display_name='n%d_%d' % (n, bases.index(base)), study_spec=sc.to_proto())))
    t = study_pb2.Trial()
    for i in reversed(range(n)):
      t.parameters.add(parameter_id='%s[%d]' % (base, i)).value.number_value = float(i)
    stored = svc.CreateTrial(vs.CreateTrialRequest(parent=st.name, trial=t))
    exp = {base: r['values']}
    for api in ('clients.Trial.parameters', 'StudyConfig.trial_parameters'):
      stats['indexed_reads'] += 1
      try:
        if api == 'clients.Trial.parameters':
          got = dict(clients.Trial(vizier_client.VizierClient(st.name, 'c', svc), int(stored.id)).parameters)
        else:
          got = dict(sc.trial_parameters(svc.GetTrial(vs.GetTrialRequest(name=stored.name))))
      except Exception as e:  # pylint: disable=broad-except
        got = 'raised %s' % type(e).__name__
      if not (isinstance(got, dict) and set(got) == {base} and same(exp[base], list(got[base]) if isinstance(got[base], (list, tuple)) else got[base])):
        ctx.violation({'via': 'present', 'api': api, 'what': 'indexed-order', 'n': n, 'plain_base_name': base == 'x'},
                      {'kind': 'present', 'n': n, 'base_name': base, 'expected': exp, 'observed': repr(got)})


def _read(api, svc, name, sc, stored):
  from vizier._src.service import clients
  from vizier._src.service import vizier_client
  from vizier._src.service import vizier_service_pb2 as vs
  try:
    if api == 'clients.Trial.parameters':
      return dict(clients.Trial(vizier_client.VizierClient(name, 'c', svc), int(stored.id)).parameters), None
    return dict(sc.trial_parameters(svc.GetTrial(vs.GetTrialRequest(name=stored.name)))), None
  except Exception as e:  # pylint: disable=broad-except
    return None, '%s: %s' % (type(e).__name__, str(e)[:80])


def _store(svc, name, tree, r):
  from vizier._src.service import study_pb2
  from vizier._src.service import vizier_service_pb2 as vs
  t = study_pb2.Trial()
  for i, node in enumerate(tree):
    if r['trial'][i] == '':
      continue
    p = t.parameters.add(parameter_id=ssutil.real_name(node['name']))
    val = ssutil.value_of(node['kind'], r['trial'][i])
    if isinstance(val, str):
      p.value.string_value = val
    else:
      p.value.number_value = float(val)
  return svc.CreateTrial(vs.CreateTrialRequest(parent=name, trial=t))


def recreated(ctx, recs, stats):
  """The declared types are those of the study the trial belongs to NOW: a study deleted and created again under the same
  name with another search space (study ids are display names) presents its trials through the new space."""
  import world
  from vizier import pyvizier as vz
  from vizier._src.service import study_pb2
  from vizier._src.service import vizier_service_pb2 as vs
  from vizier.service import pyvizier as svz
  svc = world.make_servicer(None)
  by_tree = collections.OrderedDict()
  for r in recs:
    if r['ok'] and any(v != '' for v in r['trial']):
      by_tree.setdefault(json.dumps(r['tree'], sort_keys=True), []).append(r)
  picks = [rs[len(rs) // 3] for rs in by_tree.values()] + [rs[(2 * len(rs)) // 3] for rs in by_tree.values()]
  prev = None
  for r in picks + picks[:1]:
    sc = svz.StudyConfig()
    try:
      sc.search_space = ssutil.build_space(r['tree'])
    except Exception as e:  # pylint: disable=broad-except
      ctx.violation({'via': 'present', 'what': 'valid-definition-refused', 'route': 'selector', 'error': type(e).__name__},
                    {'kind': 'present', 'tree': r['tree'], 'route': 'selector', 'error': '%s: %s' % (type(e).__name__, str(e)[:200])})
      continue
    sc.metric_information.append(vz.MetricInformation('a', goal=vz.ObjectiveMetricGoal.MAXIMIZE))
    sc.algorithm = 'RANDOM_SEARCH'
    if prev is not None:
      svc.DeleteStudy(vs.DeleteStudyRequest(name=prev))
    st = svc.CreateStudy(vs.CreateStudyRequest(parent='owners/c17r', study=study_pb2.Study(display_name='recycled', study_spec=sc.to_proto())))
    if prev is not None and st.name != prev:
      raise tlc.MachineryError('re-created study got another name: %s vs %s' % (st.name, prev))
    prev = st.name
    stored = _store(svc, st.name, r['tree'], r)
    exp = expected_mapping(r['tree'], r)
    for api in ('clients.Trial.parameters', 'StudyConfig.trial_parameters'):
      got, err = _read(api, svc, st.name, sc, stored)
      stats['reads_after_recreation'] += 1
      if not (got is not None and set(got) == set(exp) and all(same(exp[k], got[k]) for k in exp)):
        ctx.violation({'via': 'present', 'api': api, 'what': 'presented-through-a-deleted-study', 'error': bool(err)},
                      {'kind': 'present-recreated', 'tree': r['tree'], 'stored': r['trial'], 'expected': exp, 'observed': repr(got), 'error': err})


def near_integer_discrete(ctx, stats):
  """Other concretisations of the catalog's kind S ("a discrete parameter with a non-integer point", declared FLOAT): the
  non-integer point sits within 1e-6 of an integer.  INTEGER is declared only when EVERY feasible value is an integer
  exactly ("castable without losing precision"); each stored value is presented as a float equal to what was stored."""
  import world
  from vizier import pyvizier as vz
  from vizier._src.service import study_pb2
  from vizier._src.service import vizier_service_pb2 as vs
  from vizier.service import pyvizier as svz
  svc = world.make_servicer(None)
  sets = [[1e-9, 1e-8, 1e-7], [0.9999999, 2.0], [1.0000001, 3.0], [2.0, 4.000000001], [-1.0000001, 1.0], [1.0, 2.0, 3.0], [1e-9, 1.0]]
  for k, feas in enumerate(sets):
    sc = svz.StudyConfig()
    sc.search_space.root.add_discrete_param('d', feas)
    sc.metric_information.append(vz.MetricInformation('a', goal=vz.ObjectiveMetricGoal.MAXIMIZE))
    sc.algorithm = 'RANDOM_SEARCH'
    st = svc.CreateStudy(vs.CreateStudyRequest(parent='owners/c17n', study=study_pb2.Study(display_name='near%d' % k, study_spec=sc.to_proto())))
    all_int = all(float(v) == round(v) for v in feas)
    for v in feas:
      t = study_pb2.Trial()
      t.parameters.add(parameter_id='d').value.number_value = v
      stored = svc.CreateTrial(vs.CreateTrialRequest(parent=st.name, trial=t))
      for api in ('clients.Trial.parameters', 'StudyConfig.trial_parameters'):
        got, err = _read(api, svc, st.name, sc, stored)
        stats['near_integer_reads'] += 1
        ok = got is not None and set(got) == {'d'} and got['d'] == v and (isinstance(got['d'], int) if all_int else isinstance(got['d'], float)) \
            and not isinstance(got['d'], bool)
        if not ok:
          ctx.violation({'via': 'present', 'api': api, 'what': 'near-integer-discrete', 'all_feasible_values_integers': all_int},
                        {'kind': 'present-near-integer', 'feasible': feas, 'stored': v, 'observed': repr(got), 'error': err})


def run(ctx):
  import world
  from vizier import pyvizier as vz
  from vizier._src.service import clients
  from vizier._src.service import study_pb2
  from vizier._src.service import vizier_client
  from vizier._src.service import vizier_service_pb2 as vs
  from vizier.service import pyvizier as svz
  stats = collections.Counter()
  rng = random.Random(ctx.seed + 47)
  with tlc.Scratch('c17') as d:
    res, recs = ssutil.run_mode('present', d)
    if len(recs) != res.distinct:
      raise tlc.MachineryError('present dump incomplete')
    backends = ['ram', 'sqlmem'] if ctx.thorough else ['ram']
    for backend in backends + ['sqlmem-sample']:
      sample = backend.endswith('-sample')
      if sample and ctx.thorough:
        continue
      b = backend.replace('-sample', '')
      svc = world.make_servicer(world.backend_url(b, d))
      studies = {}
      for r in recs:
        if sample and rng.random() > 0.15:
          continue
        tree = r['tree']
        key = json.dumps(tree, sort_keys=True)
        route = 'factory' if (len(studies) + (1 if sample else 0)) % 2 else 'selector'
        if key not in studies:
          sc = svz.StudyConfig()
          # two construction routes: user-facing selectors, and ParameterConfig.factory(children=...) with multi-valued parent sets
          try:
            sc.search_space = ssutil.build_space_factory(tree) if route == 'factory' else ssutil.build_space(tree)
          except Exception as e:  # pylint: disable=broad-except
            ctx.violation({'via': 'present', 'what': 'valid-definition-refused', 'route': route, 'error': type(e).__name__},
                          {'kind': 'present', 'tree': tree, 'route': route, 'error': '%s: %s' % (type(e).__name__, str(e)[:200])})
            studies[key] = None
            continue
          sc.metric_information.append(vz.MetricInformation('a', goal=vz.ObjectiveMetricGoal.MAXIMIZE))
          sc.algorithm = 'RANDOM_SEARCH'
          st = svc.CreateStudy(vs.CreateStudyRequest(parent='owners/c17', study=study_pb2.Study(
              display_name='t%d' % len(studies), study_spec=sc.to_proto())))
          studies[key] = (st.name, sc)
        if studies[key] is None:
          continue
        name, sc = studies[key]
        # store the trial through the service: numbers travel as doubles, booleans and categories as strings
        t = study_pb2.Trial()
        for i, node in enumerate(tree):
          vs_ = r['trial'][i]
          if vs_ == '':
            continue
          p = t.parameters.add(parameter_id=ssutil.real_name(node['name']))
          val = ssutil.value_of(node['kind'], vs_)
          if isinstance(val, str):
            p.value.string_value = val
          else:
            p.value.number_value = float(val)
        stored = svc.CreateTrial(vs.CreateTrialRequest(parent=name, trial=t))
        exp = expected_mapping(tree, r)
        stats['trials'] += 1
        for api in ('clients.Trial.parameters', 'StudyConfig.trial_parameters'):
          try:
            if api == 'clients.Trial.parameters':
              got = dict(clients.Trial(vizier_client.VizierClient(name, 'c', svc), int(stored.id)).parameters)
            else:
              got = dict(sc.trial_parameters(svc.GetTrial(vs.GetTrialRequest(name=stored.name))))
            err = None
          except ValueError as e:
            got, err = None, 'ValueError: ' + str(e)[:80]
          except Exception as e:  # pylint: disable=broad-except
            got, err = None, 'UNEXPECTED %s: %s' % (type(e).__name__, str(e)[:80])
          stats['reads'] += 1
          kinds = ','.join(sorted({tree[i]['kind'] for i in range(len(tree)) if r['trial'][i] != ''}))
          if r['ok']:
            good = got is not None and set(got) == set(exp) and all(same(exp[k], got[k]) for k in exp)
            if not good:
              ctx.violation({'via': 'present', 'api': api, 'what': 'wrong-presentation' if got is not None else 'error-on-valid-trial', 'kinds': kinds},
                            {'kind': 'present', 'tree': tree, 'stored': r['trial'], 'expected': exp, 'observed': repr(got), 'error': err, 'backend': b})
          else:
            if got is not None or (err and err.startswith('UNEXPECTED')):
              ctx.violation({'via': 'present', 'api': api, 'what': 'inactive-or-unknown-parameter-not-reported', 'kinds': kinds},
                            {'kind': 'present', 'tree': tree, 'stored': r['trial'], 'observed': repr(got), 'error': err, 'backend': b})
      ctx.log('  backend %s: %s' % (backend, dict(stats)))
    ok_recs = [r for r in recs if r['ok']]
    ctx.sample({'tree': [(n['name'], n['kind'], n['parent'], n['pv']) for n in ok_recs[len(ok_recs) // 2]['tree']],
                'stored': ok_recs[len(ok_recs) // 2]['trial'], 'presented': expected_mapping(ok_recs[len(ok_recs) // 2]['tree'], ok_recs[len(ok_recs) // 2])})
    indexed(ctx, d, stats)
    recreated(ctx, recs, stats)
    near_integer_discrete(ctx, stats)
  presentable = sum(1 for r in recs if r['ok'])
  ctx.coverage.update({'states': res.distinct, 'transitions': res.distinct, 'traces_validated_against_impl': stats['reads'],
                       'evaluations': stats['reads'], 'distinct_nontrivial': len(recs), 'exhaustive': True,
                       'rule': 'one case = (conditional tree, stored trial) enumerated by TLC; every case is non-trivial (a typed presentation or an error is decided)',
                       'counts': dict(stats, trees=5, presentable=presentable, must_be_rejected=len(recs) - presentable)})
  ctx.assumptions += ['trees: 5 shapes (one level, grandchild with multi-valued parent set, numeric parents depth 3, boolean parent, flat with x[0..2])',
                      'INTEGER parameters with INTERNAL external type are compared by value only (Python type unspecified by the property)']


def replay(ctx, case):
  run(ctx)
