"""C05 - SQL-backed service survives a crash at any point without losing or tearing data."""
import collections
import json
import concurrent.futures as cf
import multiprocessing
import os
import random
import re
import shutil

import verif_boot  # noqa: F401
import replay as replay_mod
import speca
import tlc

LEVEL = 'model_checking'
CK = {'CreateStudy', 'SuggestTrials', 'CreateTrial', 'CompleteTrial', 'AddMeasurement', 'StopTrial', 'DeleteTrial', 'DeleteStudy',
      'SetStudyState', 'UpdateMetadata', 'CheckEarlyStopping'}
MODEL_INVS = ['SingleResourceAtomic', 'ChainEndsInAck', 'PostCrashWellFormed']


def configs(ctx):
  if not ctx.thorough:
    return [('crash_d3', speca.constants(MaxDepth=3, MaxId=3, MaxCount=2, MaxDeliver=3, Params={'p1'}, Meas={'m1'}, Vals={'v1'}, Recycle='always',
                                         Kinds=CK), 0.06),
            ('crash_suggest_d3', speca.constants(MaxDepth=3, MaxId=4, MaxCount=3, MaxDeliver=3, Params={'p1'}, Meas={'m1'}, Recycle='always', AlgoMeta=True,
                                                 Kinds={'CreateStudy', 'SuggestTrials', 'CreateTrial'}), 0.02),
            # repeated early-stopping checks: a finished operation is recycled (passes through ACTIVE) even when the verdict stays
            ('crash_es_d4', speca.constants(MaxDepth=4, MaxId=1, MaxCount=1, MaxDeliver=1, Clients={'w1'}, Params={'p1'}, Meas={'m1'}, Vals={'v1'}, Recycle='always',
                                            Kinds={'CreateStudy', 'SuggestTrials', 'CheckEarlyStopping'}), 0.5)]
  return [('crash_d3', speca.constants(MaxDepth=3, MaxId=3, MaxCount=2, MaxDeliver=3, Params={'p1'}, Meas={'m1'}, Vals={'v1'}, Recycle='always', Kinds=CK), 1.0),
          ('crash_d4', speca.constants(MaxDepth=4, MaxId=3, MaxCount=2, MaxDeliver=2, Clients={'w1'}, Params={'p1'}, Meas={'m1'}, Vals={'v1'}, Recycle='always',
                                       Kinds=CK - {'StopTrial', 'SetStudyState'}), 0.15),
          ('crash_suggest_d4', speca.constants(MaxDepth=4, MaxId=4, MaxCount=3, MaxDeliver=3, Params={'p1'}, Meas={'m1'}, Recycle='always', AlgoMeta=True,
                                               Kinds={'CreateStudy', 'SuggestTrials', 'CreateTrial', 'CompleteTrial'}), 0.04)]


def tlc_crash(name, consts, d):
  cfg = os.path.join(d, name + '.cfg')
  c2 = {k: v for k, v in consts.items() if k != 'SharedStudyId'}
  tlc.write_cfg(cfg, constants=c2, invariants=MODEL_INVS, constraints=['DumpCrash'], view='View')
  res = tlc.must_ok(tlc.run_tlc('VizierCrash', cfg, d, workers=1), 'VizierCrash/' + name)
  if res.violated:
    raise tlc.MachineryError('crash model violates %s:\n%s' % (res.violated, res.trace_text()[:2500]))
  recs = [r for r in res.printed_json()]
  if len(recs) != res.generated - 1:
    raise tlc.MachineryError('crash dump incomplete %d vs %d' % (len(recs), res.generated - 1))
  # the model itself, checked for the "clients can continue" clause: expected to fail inside SuggestTrials (F12)
  cfg2 = os.path.join(d, name + '.usable.cfg')
  tlc.write_cfg(cfg2, constants=c2, invariants=['PostCrashUsable'], view='View')
  res2 = tlc.run_tlc('VizierCrash', cfg2, d, workers=4)
  return res, recs, ('PostCrashUsable' in res2.violated)


_G = {}


def _init(conf, scratch):
  _G['conf'] = conf
  _G['scratch'] = scratch


def _scenario(job):
  """One scenario = acknowledged prefix + interrupted call: crash at every durability point."""
  import crash
  import world
  idx, rec = job
  conf = _G['conf']
  d = os.path.join(_G['scratch'], 'sc%d_%d' % (os.getpid(), idx))
  os.makedirs(d)
  out = {'idx': idx, 'points': 0, 'problems': []}
  try:
    base = os.path.join(d, 'base.db')
    svc = world.make_servicer('sqlite:///' + base, conf['Recycle'])
    w = world.World(conf, svc=svc, backend='sqlfile', owner='crash')
    for c in rec['hist'][:-1]:
      w.run(c)
    svc.datastore._connection.close()  # pylint: disable=protected-access
    svc.datastore._engine.dispose()  # pylint: disable=protected-access
    call = rec['hist'][-1]
    chain = rec['chain']
    k = 0
    labels = None
    while True:
      k += 1
      run_db = os.path.join(d, 'run%d.db' % k)
      shutil.copy(base, run_db)
      svc = world.make_servicer('sqlite:///' + run_db, conf['Recycle'])
      w = world.World(conf, svc=svc, backend='sqlfile', owner='crash')
      inj = crash.Injector(svc, run_db, crash_at=k, image_dir=os.path.join(d, 'img%d' % k))
      status, _ = inj.run(lambda: w.run(call))
      labels = list(inj.events)
      inj.close()
      if status == 'returned':
        break          # fewer than k points: done
      out['points'] += 1
      # ---- restart on the crash image
      raw = crash.raw_scan(inj.image)
      svc2 = world.make_servicer('sqlite:///' + inj.image, conf['Recycle'])
      w2 = world.World(conf, svc=svc2, backend='sqlfile', owner='crash')
      try:
        got = w2.project()
      except Exception as e:  # pylint: disable=broad-except
        out['problems'].append({'point': k, 'label': labels[-1], 'what': 'unreadable-after-restart', 'detail': '%s: %s' % (type(e).__name__, str(e)[:100])})
        continue
      if any(raw.values()):
        out['problems'].append({'point': k, 'label': labels[-1], 'what': 'raw-table-scan', 'detail': raw})
      where = [i for i, b in enumerate(chain) if b == got]
      if not where and call['rpc'] != 'SuggestTrials':
        out['problems'].append({'point': k, 'label': labels[-1], 'what': 'torn-state', 'observed': got})
        continue
      if not where:
        # not a state of the chain (the order in which today's code commits): judged by TLC afterwards
        # (VizierCrash.PartialSuggest: SOME partial application of the call); recovery is probed here without a model answer
        out['problems'].append({'point': k, 'label': labels[-1], 'what': 'torn-candidate', 'observed': got, 'pre': chain[0]})
        i = None
      else:
        i = where[-1] if labels[-1].startswith('return:') else where[0]
      # ---- recovery probes: a worker suggests one trial and completes it (same and other worker)
      for wk in conf['Clients']:
        if i is None:
          sx = call['s']
          stx = got['study'][sx]
          ids = [n + 1 for n, t in enumerate(got['trial'][sx]) if 'absent' not in t]
          if 'absent' in stx or stx['state'] in ('INACTIVE', 'COMPLETED') or (max(ids) if ids else 0) >= conf['MaxId']:
            continue
          exp = None
        else:
          exp = rec['probes'][i][wk] if isinstance(rec['probes'][i], dict) else rec['probes'][i]
          if exp['suggest']['err'] == 'n/a':
            continue
        img2 = os.path.join(d, 'probe%d_%s.db' % (k, wk))
        shutil.copy(inj.image, img2)
        svc3 = world.make_servicer('sqlite:///' + img2, conf['Recycle'])
        w3 = world.World(conf, svc=svc3, backend='sqlfile', owner='crash')
        s = call.get('s', conf['Studies'][0])
        r1 = w3.run({'rpc': 'SuggestTrials', 's': s, 'w': wk, 'n': 1, 'env': {'raise': False, 'ps': ['p1'], 'md': {c: 'None' for c in conf['Cells']}}})
        r1.pop('exc', None)
        usable = False
        r2 = {'err': 'skipped', 'val': 'None'}
        if r1['err'] == 'None' and r1['val']['op']['done'] and r1['val']['op']['trials']:
          r2 = w3.run({'rpc': 'CompleteTrial', 's': s, 't': r1['val']['op']['trials'][0], 'f': 'm1', 'inf': False, 'reason': ''})
          r2.pop('exc', None)
          usable = r2['err'] == 'None'
        if exp is not None and (not same_probe(r1, exp['suggest']) or (r2['err'] != exp['complete']['err'])):
          out['problems'].append({'point': k, 'label': labels[-1], 'what': 'recovery-differs-from-model', 'worker': wk,
                                  'expected': exp, 'observed': {'suggest': r1, 'complete': r2}})
        elif not usable:
          out['problems'].append({'point': k, 'label': labels[-1], 'what': 'not-usable-after-restart', 'worker': wk,
                                  'chain_index': i, 'observed': {'suggest': r1, 'complete': r2}})
        try:
          svc3.datastore._engine.dispose()  # pylint: disable=protected-access
        except Exception:  # pylint: disable=broad-except
          pass
      try:
        svc2.datastore._engine.dispose()  # pylint: disable=protected-access
      except Exception:  # pylint: disable=broad-except
        pass
    out['labels'] = labels
  finally:
    shutil.rmtree(d, ignore_errors=True)
  return out


def same_probe(got, exp):
  """The recovery probe's answer up to what C02 leaves open (WHICH queued trial is handed out): same error class, same
  operation status, same number of trials."""
  if got['err'] != exp['err']:
    return False
  if got['err'] != 'None':
    return True
  g, e = got['val']['op'], exp['val']['op']
  return g['done'] == e['done'] and g['err'] == e['err'] and len(g['trials']) == len(e['trials'])


PV = re.compile(r'<<"PV", (\d+), "(\w+)">>')


def judge_partial(candidates, conf, workdir, name):
  """Crash images of SuggestTrials that are not in the model's chain: TLC decides whether each is SOME partial application."""
  obs = [{'pre': p['pre'], 'call': rec['hist'][-1], 'got': p['observed']} for rec, p in candidates]
  path = os.path.join(workdir, 'partial_%s.json' % name)
  with open(path, 'w') as f:
    json.dump(obs, f)
  cfg = os.path.join(workdir, 'partial_%s.cfg' % name)
  consts = dict(speca.constants(), Studies=set(conf['Studies']), Clients=set(conf['Clients']), MaxId=conf['MaxId'], Cells=set(conf['Cells']),
                Recycle=conf['Recycle'])
  tlc.write_cfg(cfg, spec='JSpec', constants=consts)
  res = tlc.must_ok(tlc.run_tlc('VizierCrash', cfg, workdir, workers=1, env={'TRACE_FILE': path}, timeout=1800), 'VizierCrash/judge')
  v = {int(m.group(1)): m.group(2) for m in PV.finditer(res.out)}
  if len(v) != len(obs):
    raise tlc.MachineryError('VizierCrash judge incomplete: %d of %d\n%s' % (len(v), len(obs), res.out[-1500:]))
  return [v[k + 1] for k in range(len(obs))]


def large_transaction(ctx, d):
  """A call whose writes exceed SQLite's page cache (2 MB): pages reach the file BEFORE the commit, and only the rollback
  journal makes a crash in between harmless.  One UpdateMetadata writing ~0.9 MB on the study and on each of three trials,
  crashed at every point; after the restart the stored metadata is that of before the call or that of after it."""
  import crash
  import hashlib
  import world  # noqa: F401
  from vizier._src.service import key_value_pb2
  from vizier._src.service import study_pb2
  from vizier._src.service import vizier_service
  from vizier._src.service import vizier_service_pb2 as vs
  from vizier.service import pyvizier as svz
  from vizier import pyvizier as vz
  big = 900 * 1024

  def build(path):
    svc = vizier_service.VizierServicer(database_url='sqlite:///' + path)
    return svc

  def snapshot(svc, name):
    out = {}
    st = svc.GetStudy(vs.GetStudyRequest(name=name))
    out['study'] = sorted((kv.key, hashlib.sha1(kv.value.encode()).hexdigest()[:10], len(kv.value)) for kv in st.study_spec.metadata)
    for t in svc.ListTrials(vs.ListTrialsRequest(parent=name)).trials:
      out[t.id] = sorted((kv.key, hashlib.sha1(kv.value.encode()).hexdigest()[:10], len(kv.value)) for kv in t.metadata)
    return out

  base = os.path.join(d, 'large_base.db')
  svc = build(base)
  prob = vz.ProblemStatement()
  prob.search_space.root.add_float_param('x', 0.0, 1.0)
  prob.metric_information.append(vz.MetricInformation('m', goal=vz.ObjectiveMetricGoal.MAXIMIZE))
  sc = svz.StudyConfig.from_problem(prob)
  sc.algorithm = 'RANDOM_SEARCH'
  name = svc.CreateStudy(vs.CreateStudyRequest(parent='owners/big', study=study_pb2.Study(display_name='big', study_spec=sc.to_proto()))).name
  for i in range(3):
    svc.CreateTrial(vs.CreateTrialRequest(parent=name, trial=study_pb2.Trial(parameters=[study_pb2.Trial.Parameter(parameter_id='x')])))

  def request(tag):
    r = vs.UpdateMetadataRequest(name=name)
    r.delta.add(metadatum=key_value_pb2.KeyValue(key='k', value=(tag + '-study-') * (big // (len(tag) + 7))))
    for i in range(3):
      r.delta.add(trial_id=str(i + 1), metadatum=key_value_pb2.KeyValue(key='k', value=('%s-trial%d-' % (tag, i + 1)) * (big // (len(tag) + 8))))
    return r
  svc.UpdateMetadata(request('old'))
  pre = snapshot(svc, name)
  svc.datastore._connection.close()  # pylint: disable=protected-access
  svc.datastore._engine.dispose()  # pylint: disable=protected-access
  # the acknowledged result of the call
  ref = os.path.join(d, 'large_ref.db')
  shutil.copy(base, ref)
  svc = build(ref)
  svc.UpdateMetadata(request('new'))
  post = snapshot(svc, name)
  svc.datastore._engine.dispose()  # pylint: disable=protected-access
  if pre == post or any(x[2] < big // 2 for x in pre['study']):
    raise tlc.MachineryError('large-transaction scenario is vacuous')
  points = 0
  problems = collections.Counter()
  k = 0
  while True:
    k += 1
    run_db = os.path.join(d, 'large_run%d.db' % k)
    shutil.copy(base, run_db)
    svc = build(run_db)
    inj = crash.Injector(svc, run_db, crash_at=k, image_dir=os.path.join(d, 'large_img%d' % k))
    status, _ = inj.run(lambda: svc.UpdateMetadata(request('new')))
    label = inj.events[-1] if inj.events else '?'
    inj.close()
    if status == 'returned':
      os.unlink(run_db)
      break
    points += 1
    what = None
    try:
      svc2 = build(inj.image)
      got = snapshot(svc2, name)
      svc2.datastore._engine.dispose()  # pylint: disable=protected-access
      if got != pre and got != post:
        what = 'torn-state'
      elif label == 'return:update_metadata' and got != post:
        what = 'acknowledged-but-lost'
    except Exception as e:  # pylint: disable=broad-except
      what = 'unreadable-after-restart'
      got = '%s: %s' % (type(e).__name__, str(e)[:120])
    if what:
      problems[what] += 1
      if problems[what] <= 2:
        ctx.violation({'via': 'crash', 'rpc': 'UpdateMetadata', 'what': what, 'scenario': 'large-transaction'},
                      {'kind': 'crash-large', 'point': k, 'label': label, 'observed': got if isinstance(got, str) else {str(a): b for a, b in got.items()},
                       'before': {str(a): b for a, b in pre.items()}, 'after': {str(a): b for a, b in post.items()}})
    shutil.rmtree(os.path.join(d, 'large_img%d' % k), ignore_errors=True)
    os.unlink(run_db)
  ctx.log('  large transaction (UpdateMetadata, 4 x 0.9 MB): crashed at %d points; problems: %s' % (points, dict(problems)))
  return {'name': 'large_transaction', 'bytes_written': 4 * big, 'crash_points': points, 'problems': dict(problems)}


def run(ctx, only=None):
  import world  # noqa: F401
  cov = ctx.coverage
  cov.update({'states': 0, 'transitions': 0, 'traces_validated_against_impl': 0, 'configs': []})
  rng = random.Random(ctx.seed + 53)
  crash_points = 0
  distinct = set()
  with tlc.Scratch('c05') as d:
    for name, consts, frac in configs(ctx):
      res, recs, model_unusable = tlc_crash(name, consts, d)
      conf = speca.conf_of(consts)
      cov['states'] += res.distinct
      cov['transitions'] += len(recs)
      multi = sum(1 for r in recs if len(r['chain']) > 2)
      ctx.log('config %s: TLC %d distinct / %d scenarios (prefix + interrupted call), %d with a multi-step chain; model invariants hold; '
              'PostCrashUsable on the model: %s' % (name, res.distinct, len(recs), multi, 'VIOLATED (F12)' if model_unusable else 'holds'))
      # all multi-step scenarios, a seeded sample of the atomic ones
      chosen = [(i, r) for i, r in enumerate(recs) if len(r['chain']) > 2 and rng.random() < (max(frac, 0.5) if ctx.thorough and multi <= 4000 else frac)] + \
               [(i, r) for i, r in enumerate(recs) if len(r['chain']) == 2 and rng.random() < frac] + \
               [(i, r) for i, r in enumerate(recs) if len(r['chain']) == 1 and rng.random() < frac / 4]
      candidates = []
      entry = {'name': name, 'scenarios_in_model': len(recs), 'scenarios_crashed': len(chosen), 'crash_points': 0,
               'model_PostCrashUsable_violated': model_unusable, 'problems': collections.Counter()}
      with cf.ProcessPoolExecutor(max_workers=16, mp_context=multiprocessing.get_context('fork'), initializer=_init, initargs=(conf, d)) as ex:
        for out in ex.map(_scenario, chosen, chunksize=4):
          rec = recs[out['idx']]
          entry['crash_points'] += out['points']
          crash_points += out['points']
          distinct.add(replay_mod.canon(rec['hist']))
          for p in out['problems']:
            if p['what'] == 'torn-candidate':
              candidates.append((rec, p))
              continue
            entry['problems'][p['what']] += 1
            last = rec['hist'][-1]
            sig = {'via': 'crash', 'rpc': last['rpc'], 'what': p['what']}
            if p['what'] == 'not-usable-after-restart':
              sg = p['observed']['suggest']
              sig['cause'] = ('unfinished-suggestion-operation' if sg['err'] == 'None' and not sg['val']['op']['done'] else
                              'suggest-error:' + sg['err'] if sg['err'] != 'None' else 'other')
            ctx.violation(sig, {'kind': 'crash', 'conf': conf, 'hist': rec['hist'], 'point': p['point'], 'label': p['label'], 'problem': p,
                                'chain_length': len(rec['chain'])})
      if candidates:
        verdicts = judge_partial(candidates, conf, d, name)
        for (rec, p), v in zip(candidates, verdicts):
          if v == 'partial_ok':
            entry['partial_applications_in_another_order'] = entry.get('partial_applications_in_another_order', 0) + 1
          else:
            entry['problems']['torn-state'] += 1
            ctx.violation({'via': 'crash', 'rpc': rec['hist'][-1]['rpc'], 'what': 'torn-state'},
                          {'kind': 'crash', 'conf': conf, 'hist': rec['hist'], 'point': p['point'], 'label': p['label'],
                           'problem': {k2: v2 for k2, v2 in p.items() if k2 != 'pre'}, 'chain_length': len(rec['chain'])})
      entry['problems'] = dict(entry['problems'])
      cov['configs'].append(entry)
      ctx.log('  crashed %d scenarios at %d points; problems: %s' % (len(chosen), entry['crash_points'], entry['problems']))
      if chosen:
        i, r = chosen[len(chosen) // 2]
        ctx.sample({'config': name, 'prefix': r['hist'][:-1], 'interrupted_call': r['hist'][-1], 'chain_length': len(r['chain'])})
    big = large_transaction(ctx, d)
    cov['configs'].append(big)
    crash_points += big['crash_points']
  cov['traces_validated_against_impl'] = crash_points
  cov['evaluations'] = crash_points
  cov['distinct_nontrivial'] = len(distinct)
  cov['rule'] = ('one evaluation = one (prefix, interrupted call, crash point) executed on an SQLite file: the file image at the point is reopened by a fresh '
                 'servicer; distinct_nontrivial counts distinct (prefix, call) scenarios')
  cov['exhaustive'] = False
  cov['exhaustive_note'] = 'every statement/commit/return point of each crashed scenario; scenarios are a seeded sample of all model transitions (in thorough at least half of the multi-step ones of every config with at most 4000 of them)'
  ctx.assumptions += ['process death only (no power loss / fsync reordering): the crash image is the database file plus its rollback journal at the point',
                      'DELETE journal mode (SQLite default), single server process']


def replay(ctx, case):
  c = case['case']
  with tlc.Scratch('c05') as d:
    if c.get('kind') == 'crash-large':
      big = large_transaction(ctx, d)
      ctx.coverage.update({'states': 1, 'transitions': 1, 'traces_validated_against_impl': big['crash_points']})
      return
    # recompute the model's chain for this one scenario is not possible without TLC's dump: re-run the whole check instead
    run(ctx)
