"""C11, library half: every Pareto routine against Pareto.tla's definition on every small point multiset."""
import itertools
import json
import os
import random
import re

import verif_boot  # noqa: F401
import numpy as np
import tlc

INF = float('inf')


def palettes(V):
  yield 'finite', {v: float(v) for v in range(V)}
  yield 'with_inf', {v: (-INF if v == 0 else INF if v == V - 1 else float(v)) for v in range(V)}


def perms(n, rng, limit):
  allp = list(itertools.permutations(range(n)))
  if len(allp) <= limit:
    return allp
  return [allp[0]] + rng.sample(allp[1:], limit - 1)


AGAINST_DEEP = (2, 3, 5)


def deep_against(ctx, rec, naive, po, stats, V):
  n = len(rec['ps'])
  base = np.array(rec['ps'], dtype=float)
  for m in range(1, 2 ** n - 1):
    judged = [i for i in range(n) if (m >> i) & 1]
    if len(judged) < n - 1:
      continue
    agn = [i for i in range(n) if not (m >> i) & 1]
    pts, ag = base[judged], base[agn]
    for strict in (True, False):
      exp = np.array(rec['against'][str(m)]['strict' if strict else 'weak'])[judged]
      for name, alg in (('Naive.is_pareto_optimal_against', naive),
                        ('Fast.is_pareto_optimal_against[threshold=1]', po.FastParetoOptimalAlgorithm(naive, recursive_threshold=1))):
        stats['routine_calls'] += 1
        got = np.asarray(alg.is_pareto_optimal_against(pts, ag, strict=strict))
        if got.shape != exp.shape or not np.array_equal(got, exp):
          ctx.violation({'via': 'pareto', 'routine': name.split('[')[0], 'config': name},
                        {'kind': 'pareto', 'space': list(AGAINST_DEEP), 'points': base.tolist(), 'judged': pts.tolist(), 'against': ag.tolist(),
                         'strict': strict, 'routine': name, 'expected': exp.tolist(), 'observed': got.tolist(), 'palette': 'finite'})


PLV = re.compile(r'<<"PLV", (\d+), "(\w+)">>')


def large_sets(ctx, d, rng):
  """Point sets of the size at which the accelerated routines really shard / recurse (n up to 250), judged by TLC."""
  import numpy as np
  from vizier._src.jax import xla_pareto
  from vizier._src.pyvizier.multimetric import pareto_optimal as po
  naive = po.NaiveParetoOptimalAlgorithm()
  jaxalg = xla_pareto.JaxParetoOptimalAlgorithm()
  routines = {
      'xla_pareto.is_frontier': lambda P: np.asarray(xla_pareto.is_frontier(P)),
      'xla_pareto.is_frontier(num_shards=4)': lambda P: np.asarray(xla_pareto.is_frontier(P, num_shards=4)),
      'Jax.is_pareto_optimal': lambda P: np.asarray(jaxalg.is_pareto_optimal(P)),
      'Fast(Jax).is_pareto_optimal': lambda P: np.asarray(po.FastParetoOptimalAlgorithm(jaxalg, recursive_threshold=16).is_pareto_optimal(P)),
      'Fast(Naive).is_pareto_optimal': lambda P: np.asarray(po.FastParetoOptimalAlgorithm(naive, recursive_threshold=16).is_pareto_optimal(P)),
      'Naive.is_pareto_optimal': lambda P: np.asarray(naive.is_pareto_optimal(P)),
  }
  sizes = [17, 64, 100, 101, 250] if not ctx.thorough else [17, 33, 64, 100, 101, 127, 250, 500]
  obs, meta = [], []
  for n in sizes:
    for D in (2, 3):
      shapes = {
          'grid_with_ties': [[rng.randrange(0, 8) for _ in range(D)] for _ in range(n)],
          # everything is dominated by the newest point only
          'late_sole_dominator': [[rng.randrange(0, 8) for _ in range(D)] for _ in range(n - 1)] + [[9] * D],
          # an anti-chain followed by its dominators in the last rows
          'dominators_last': [[i % 8, 7 - i % 8] + [0] * (D - 2) for i in range(n - 3)] + [[8, 8] + [1] * (D - 2)] * 3,
          'ascending_chain': [[i] * D for i in range(n)],
          # a saturated first metric: most points tie at its maximum, the value just below is tied among several
          'saturated_first_metric': [[7] + [rng.randrange(0, 8) for _ in range(D - 1)] for _ in range((n * 3) // 5)]
                                    + [[6] + [rng.randrange(0, 8) for _ in range(D - 1)] for _ in range(n - (n * 3) // 5)],
          # nearly identical points: the second of each pair dominates the first by a relative 1e-7 in every metric
          # (integers for TLC; the routines get them divided by 1e7: 1.0 and 1.0000001, 2.0 and 2.0000002, ...)
          'near_ties': [v for i in range(n // 2) for v in ([10000000 * (1 + i % 9)] * D, [10000001 * (1 + i % 9)] * D)] + ([[5000000] * D] if n % 2 else []),
      }
      for shape, pts in shapes.items():
        P = np.asarray(pts, dtype=np.float64) / (1e7 if shape == 'near_ties' else 1.0)
        for rname, fn in routines.items():
          if rname.startswith('Fast') and n > 101 and not ctx.thorough:
            continue
          try:
            got = [bool(x) for x in fn(P)]
          except Exception as e:  # pylint: disable=broad-except
            got = [False] * n
            meta.append((rname, shape, n, D, 'raised %s' % type(e).__name__))
            obs.append({'pts': pts, 'got': got})
            continue
          obs.append({'pts': pts, 'got': got})
          meta.append((rname, shape, n, D, None))
  path = os.path.join(d, 'large.json')
  with open(path, 'w') as f:
    json.dump(obs, f)
  cfg = os.path.join(d, 'P_large.cfg')
  tlc.write_cfg(cfg, spec='JSpec', constants={'D': 2, 'V': 2, 'MaxN': 1})
  res = tlc.must_ok(tlc.run_tlc('Pareto', cfg, d, workers=1, env={'TRACE_FILE': path}, timeout=3000), 'Pareto/large')
  v = {int(m.group(1)): m.group(2) for m in PLV.finditer(res.out)}
  if len(v) != len(obs):
    raise tlc.MachineryError('Pareto large-set judge incomplete: %d of %d\n%s' % (len(v), len(obs), res.out[-1000:]))
  bad = 0
  for k, (rname, shape, n, D, err) in enumerate(meta):
    if v[k + 1] != 'ok':
      bad += 1
      ctx.violation({'via': 'pareto', 'routine': rname, 'config': 'large:' + shape}, {'kind': 'pareto-large', 'routine': rname, 'shape': shape, 'n': n, 'D': D, 'error': err,
                                                                                     'points': obs[k]['pts'][:12] + (['...'] if n > 12 else [])})
  ctx.log('  large point sets: %d (routine, shape, n, D) answers judged by TLC, %d wrong' % (len(obs), bad))
  return {'answers_judged': len(obs), 'sizes': sizes, 'wrong': bad}


def run(ctx, only=None):
  from vizier._src.pyvizier.multimetric import pareto_optimal as po
  from vizier._src.algorithms.evolution import nsga2
  from vizier._src.jax import xla_pareto
  rng = random.Random(ctx.seed + 3)
  naive = po.NaiveParetoOptimalAlgorithm()
  jaxalg = xla_pareto.JaxParetoOptimalAlgorithm()
  spaces = [(2, 3, 4), (3, 3, 3), (1, 3, 4), AGAINST_DEEP] if not ctx.thorough else [(2, 3, 5), (3, 3, 4), (2, 4, 4), (1, 3, 5), (4, 2, 4)]
  if only:
    spaces = [tuple(only['space'])]
  jax_frac = 0.02 if not ctx.thorough else 0.05
  perm_limit = 6 if not ctx.thorough else 24
  stats = {'multisets': 0, 'ordered_point_sets': 0, 'routine_calls': 0, 'jax_calls': 0}
  tlc_states = 0
  with tlc.Scratch('pareto') as d:
    if not only:
      ctx.coverage['pareto_large_sets'] = large_sets(ctx, d, rng)
    for (D, V, N) in spaces:
      cfg = os.path.join(d, 'P_%d_%d_%d.cfg' % (D, V, N))
      tlc.write_cfg(cfg, constants={'D': D, 'V': V, 'MaxN': N}, constraints=['Dump'],
                    invariants=['FrontNonEmpty', 'FrontIffRankZero', 'DuplicatesAgree', 'StrictImpliedByWeak'])
      res = tlc.must_ok(tlc.run_tlc('Pareto', cfg, d, workers=8), 'Pareto %s' % ((D, V, N),))
      if res.violated:
        raise tlc.MachineryError('Pareto definition sanity violated: %s' % res.violated)
      recs = [r for r in res.printed_json() if r['ps']]
      if len(recs) != res.distinct - 1:
        raise tlc.MachineryError('Pareto dump incomplete')
      tlc_states += res.distinct
      for rec in recs:
        n = len(rec['ps'])
        if (D, V, N) == AGAINST_DEEP and not ctx.thorough:
          # quick: the deep space is used for is_pareto_optimal_against with >= 4 judged points only (the
          # divide-and-conquer recursion of FastParetoOptimalAlgorithm needs that many to split at all)
          if n == N:
            deep_against(ctx, rec, naive, po, stats, V)
          continue
        stats['multisets'] += 1
        for pname, pal in palettes(V):
          base = np.array([[pal[v] for v in p] for p in rec['ps']], dtype=float)
          for perm in perms(n, rng, perm_limit):
            perm = list(perm)
            P = base[perm]
            exp_front = np.array(rec['front'])[perm]
            exp_rank = np.array(rec['rank'])[perm]
            stats['ordered_point_sets'] += 1
            case = {'space': [D, V, N], 'points': P.tolist(), 'palette': pname}

            def chk(name, got, exp, extra=None):
              stats['routine_calls'] += 1
              got = np.asarray(got)
              if got.shape != np.asarray(exp).shape or not np.array_equal(got, exp):
                sig = {'via': 'pareto', 'routine': name.split('[')[0], 'config': name}
                c = dict(case, routine=name, expected=np.asarray(exp).tolist(), observed=got.tolist())
                if extra:
                  c.update(extra)
                ctx.violation(sig, dict(c, kind='pareto'))

            chk('Naive.is_pareto_optimal', naive.is_pareto_optimal(P), exp_front)
            for thr in sorted({1, 2, 3, n}):
              chk('Fast.is_pareto_optimal[threshold=%d]' % thr,
                  po.FastParetoOptimalAlgorithm(naive, recursive_threshold=thr).is_pareto_optimal(P), exp_front)
            chk('nsga2._pareto_rank', nsga2._pareto_rank(P), exp_rank)
            chk('update_pareto_optimal', sorted(naive.update_pareto_optimal(P[:n // 2], P[n // 2:]).tolist()),
                sorted(np.nonzero(exp_front)[0].tolist()))
            use_jax = rng.random() < jax_frac
            if use_jax:
              stats['jax_calls'] += 1
              for shards in (2, 3, 10):
                chk('xla.is_frontier[num_shards=%d]' % shards, xla_pareto.is_frontier(P, num_shards=shards), exp_front)
              chk('xla.pareto_rank', xla_pareto.pareto_rank(P), exp_rank)
              chk('Fast(Jax).is_pareto_optimal[threshold=2]',
                  po.FastParetoOptimalAlgorithm(jaxalg, recursive_threshold=2).is_pareto_optimal(P), exp_front)
            # is_pareto_optimal_against on every split (bitmask over the multiset's own index order)
            masks = range(1, 2 ** n - 1)
            if n >= 4 and not ctx.thorough:
              masks = rng.sample(list(masks), 6)
            inv = {p: k for k, p in enumerate(perm)}    # multiset index -> position in P
            for m in masks:
              judged = [i for i in range(n) if (m >> i) & 1]
              agn = [i for i in range(n) if not (m >> i) & 1]
              pts = base[judged]
              ag = base[agn]
              for strict in (True, False):
                exp = np.array(rec['against'][str(m)]['strict' if strict else 'weak'])[judged]
                ex = {'judged': pts.tolist(), 'against': ag.tolist(), 'strict': strict}
                chk('Naive.is_pareto_optimal_against', naive.is_pareto_optimal_against(pts, ag, strict=strict), exp, ex)
                for thr in (1, 2):
                  chk('Fast.is_pareto_optimal_against[threshold=%d]' % thr,
                      po.FastParetoOptimalAlgorithm(naive, recursive_threshold=thr).is_pareto_optimal_against(pts, ag, strict=strict), exp, ex)
                if use_jax:
                  chk('Jax.is_pareto_optimal_against', jaxalg.is_pareto_optimal_against(pts, ag, strict=strict), exp, ex)
        if stats['multisets'] % 997 == 1:
          ctx.sample({'points': rec['ps'], 'front': rec['front'], 'rank': rec['rank']})
      ctx.log('  pareto D=%d V=%d N<=%d: %d multisets; totals %s' % (D, V, N, len(recs), stats))
  ctx.coverage['pareto'] = dict(stats, spaces=[{'D': D, 'V': V, 'MaxN': N} for (D, V, N) in spaces], exhaustive_multisets=True)
  ctx.coverage['states'] = ctx.coverage.get('states', 0) + tlc_states
  ctx.coverage['transitions'] = ctx.coverage.get('transitions', 0) + tlc_states
  ctx.coverage['traces_validated_against_impl'] = ctx.coverage.get('traces_validated_against_impl', 0) + stats['ordered_point_sets']
