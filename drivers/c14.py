"""C14 - Seeded algorithms and benchmark runs are reproducible."""
import c03

LEVEL = 'exploration'


def run(ctx):
  c03.run_generic(ctx, 'C14')


def replay(ctx, case):
  run(ctx)


def benchmark_half(ctx):
  """Seeded benchmark runs: TLC enumerates runner programs (Runner.tla); each is executed twice with the same seed
  (the second time after perturbing the global random state) and once with another seed."""
  import os
  import random
  import designers
  import fkey
  import tlc
  from vizier._src.algorithms.designers import quasi_random
  from vizier._src.algorithms.designers import random as rnd
  from vizier._src.algorithms.designers.eagle_strategy import eagle_strategy
  from vizier._src.benchmarks.experimenters import experimenter_factory
  from vizier._src.benchmarks.runners import benchmark_runner as br
  from vizier._src.benchmarks.runners import benchmark_state as bs
  rng = random.Random(ctx.seed + 71)
  SUB = {'GenEval1': lambda: br.GenerateAndEvaluate(1), 'GenEval2': lambda: br.GenerateAndEvaluate(2), 'Gen1': lambda: br.GenerateSuggestions(1),
         'Gen2': lambda: br.GenerateSuggestions(2), 'Fill2': lambda: br.FillActiveTrials(2), 'EvalActive': lambda: br.EvaluateActiveTrials()}
  facts = {'random': lambda p, seed=None: rnd.RandomDesigner(p.search_space, seed=seed),
           'quasi': lambda p, seed=None: quasi_random.QuasiRandomDesigner.from_problem(p, seed=seed),
           'eagle': lambda p, seed=None: eagle_strategy.EagleStrategyDesigner(p, seed=seed)}
  exp_factory = experimenter_factory.BBOBExperimenterFactory('Sphere', 2)
  with tlc.Scratch('runner') as d:
    cfg = os.path.join(d, 'R.cfg')
    tlc.write_cfg(cfg, constants={'MaxLen': 4 if ctx.thorough else 3}, constraints=['Dump'])
    res = tlc.must_ok(tlc.run_tlc('Runner', cfg, d, workers=2), 'Runner')
    progs = list({tuple(r['prog']): r for r in res.printed_json()}.values())
  chosen = progs if ctx.thorough else rng.sample(progs, min(len(progs), 40))
  n = 0
  for r in chosen:
    for fname, f in facts.items():
      def trial_seq(seed, perturb):
        if perturb:
          designers.perturb_globals(rng)
        state = bs.ExperimenterDesignerBenchmarkStateFactory(experimenter_factory=exp_factory, designer_factory=f)(seed=seed)
        br.BenchmarkRunner([SUB[s]() for s in r['prog']], num_repeats=1).run(state)
        trials = sorted(state.algorithm.supporter.GetTrials(), key=lambda t: t.id)
        seq = [[t.id, t.status.name, sorted((k, fkey.key(v.value)['k']) for k, v in t.parameters.items()),
                sorted((k, fkey.key(m.value)['k']) for k, m in (t.final_measurement.metrics.items() if t.final_measurement else []))] for t in trials]
        return seq, sum(1 for t in trials if t.status.name == 'ACTIVE'), sum(1 for t in trials if t.status.name == 'COMPLETED')
      seed = rng.randrange(1, 10 ** 6)
      a, act, done = trial_seq(seed, False)
      c, _, _ = trial_seq(seed, True)
      dd, _, _ = trial_seq(seed + 1, False)
      n += 1
      if (act, done) != (r['active'], r['done']):
        ctx.violation({'via': 'runner', 'what': 'bookkeeping', 'designer': fname},
                      {'kind': 'runner', 'program': r['prog'], 'expected': [r['active'], r['done']], 'observed': [act, done]})
      if a != c:
        ctx.violation({'via': 'runner', 'what': 'same_seed_differs', 'designer': fname}, {'kind': 'runner', 'program': r['prog'], 'seed': seed})
      if a == dd:
        ctx.violation({'via': 'runner', 'what': 'seed_ignored', 'designer': fname}, {'kind': 'runner', 'program': r['prog'], 'seed': seed})
  ctx.coverage['benchmark_runs'] = {'runner_programs_in_model': len(progs), 'programs_executed': len(chosen), 'designers': sorted(facts), 'runs': n * 3}
  ctx.coverage['evaluations'] += n
  ctx.coverage['traces_validated_against_impl'] += n
  ctx.sample({'runner_program': chosen[0]['prog']})
  ctx.log('  benchmark half: %d runner programs x %d designers, 3 executions each' % (len(chosen), len(facts)))


def process_half(ctx):
  """'... independent of wall-clock time, global random state, process ...': the same seeded benchmark configurations in
  separate interpreter processes with different string-hash seeds, clock offsets, global RNG states, and after different
  other studies (same rotated functions, other rotation seeds) were evaluated first in the process."""
  import json
  import os
  import subprocess
  import sys
  verif = os.path.dirname(os.path.dirname(os.path.abspath(__file__)))
  runs = []
  procs = []
  for hs, off, prelude in (('0', 0.0, 0), ('1', 4321.5, 7), ('2', 98765.25, 9), ('random', 17.0, 5)):
    env = dict(os.environ, PYTHONHASHSEED=hs, PYTHONPATH=os.pathsep.join([os.path.join(verif, 'envshim'), os.path.join(verif, 'lib')]))
    procs.append((hs, off, subprocess.Popen([sys.executable, os.path.join(verif, 'lib', 'bench_child.py'), str(off), str(prelude)], env=env, stdout=subprocess.PIPE,
                                             stderr=subprocess.PIPE, text=True)))
  import tlc
  for hs, off, p in procs:
    out, err = p.communicate(timeout=1500)
    line = [l for l in out.splitlines() if l.startswith('BENCH ')]
    if not line:
      raise tlc.MachineryError('benchmark child (PYTHONHASHSEED=%s) printed nothing: %s' % (hs, err[-800:]))
    runs.append((hs, off, json.loads(line[0][6:])))
  base = runs[0][2]
  n = 0
  for key in sorted(base):
    n += 1
    vals = {hs: r[key] for hs, off, r in runs}
    if len(set(vals.values())) > 1:
      ctx.violation({'via': 'process', 'what': 'differs_between_processes', 'config': key.rsplit('/', 1)[0]},
                    {'kind': 'process', 'config': key, 'digest_by_PYTHONHASHSEED': vals})
  refused = sum(1 for v in base.values() if str(v).startswith('refused'))
  ctx.coverage['cross_process_runs'] = {'configurations': n, 'processes': len(runs), 'refused': refused}
  ctx.coverage['evaluations'] += n * len(runs)
  ctx.log('  cross-process half: %d seeded benchmark configurations x %d interpreter processes (different hash seeds / clocks), %d refused' % (n, len(runs), refused))


_orig_run = run


def run(ctx):  # noqa: F811
  _orig_run(ctx)
  benchmark_half(ctx)
  process_half(ctx)
