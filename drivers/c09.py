"""C09 - Study configs, trials and measurements survive the wire format unchanged."""
import collections
import datetime
import json
import os
import re

import verif_boot  # noqa: F401
import tlc

LEVEL = 'exploration'
INF = float('inf')

# ----------------------------------------------------------------- parameters
DOM = {
    ('D', False): ('bounds', (0.0, 2.5)), ('D', True): ('bounds', (0.5, 2.5)),
    ('I', False): ('bounds', (0, 3)), ('I', True): ('bounds', (1, 3)),
    ('S', False): ('feasible', [0.0, 1.0, 2.0]), ('S', True): ('feasible', [0.5, 1.0, 2.0]),
    ('C', False): ('feasible', ['', 'a', 'b']),
}
FALSY = {'D': 0.0, 'I': 0, 'S': 0.0, 'C': ''}
TRUTHY = {'D': 1.5, 'I': 2, 'S': 1.0, 'C': 'a'}
PARENT_VAL = {'I': 2, 'S': 1.0, 'C': 'a'}
PARENT_VAL2 = {'I': 3, 'S': 2.0, 'C': 'b'}


def build_param(c):
  from vizier import pyvizier as vz
  log = c['scale'] in ('LOG', 'REVERSE_LOG')
  kind, dom = DOM[(c['kind'], log)]
  kw = {kind + ('_values' if kind == 'feasible' else ''): dom}
  if c['scale'] != 'none':
    kw['scale_type'] = getattr(vz.ScaleType, c['scale'])
  if c['dflt'] != 'unset':
    kw['default_value'] = FALSY[c['kind']] if c['dflt'] == 'falsy' else TRUTHY[c['kind']]
  kw['external_type'] = getattr(vz.ExternalType, c['ext'])
  children = None
  if c['depth'] >= 2:
    if c['depth'] == 2:
      child = vz.ParameterConfig.factory('c1', bounds=(0.0, 1.0))
    else:
      g = vz.ParameterConfig.factory('g', bounds=(0.0, 1.0), default_value=0.0)
      child = vz.ParameterConfig.factory('c1', feasible_values=['a', 'b'], children=[(['a'], g)])
    children = [([PARENT_VAL[c['kind']]], child)]
    if c['depth'] == 4:
      # one child entry that is active under two parent values (the route protos with multi-valued conditions take)
      child = vz.ParameterConfig.factory('c1', bounds=(0.0, 1.0))
      children = [([PARENT_VAL[c['kind']], PARENT_VAL2[c['kind']]], child)]
    if c['depth'] == 5:
      # the same child NAME under two parent values with different settings (a learning rate whose range depends on the model)
      children = [([PARENT_VAL[c['kind']]], vz.ParameterConfig.factory('c1', bounds=(0.0, 1.0))),
                  ([PARENT_VAL2[c['kind']]], vz.ParameterConfig.factory('c1', bounds=(0.0, 10.0), scale_type=vz.ScaleType.LINEAR))]
  return vz.ParameterConfig.factory('x', children=children, **kw)


def project_param(pc, c):
  log = c['scale'] in ('LOG', 'REVERSE_LOG')
  kindmap = {'DOUBLE': 'D', 'INTEGER': 'I', 'DISCRETE': 'S', 'CATEGORICAL': 'C'}
  k = kindmap.get(pc.type.name, pc.type.name)
  kind, dom = DOM[(c['kind'], log)]
  same_dom = (tuple(pc.bounds) == tuple(dom) and all(type(a) is type(b) for a, b in zip(pc.bounds, dom))) if kind == 'bounds' else list(pc.feasible_values) == list(dom)
  if not same_dom:
    k = 'DOMAIN_CHANGED'
  d = pc.default_value
  if d is None:
    dflt = 'unset'
  elif d == FALSY[c['kind']] and str(d) == str(FALSY[c['kind']]) or (d == FALSY[c['kind']] and isinstance(d, (int, float))):
    dflt = 'falsy'
  elif d == TRUTHY[c['kind']]:
    dflt = 'truthy'
  else:
    dflt = 'other:%r' % (d,)
  depth = 1
  kids = pc.child_parameter_configs
  if kids:
    depth = 2
    if c['depth'] == 4:
      # the child must be active under exactly the two parent values (one entry with both values, or one entry per value)
      pv = sorted(v for k in kids if k.name == 'c1' for v in k.matching_parent_values)
      ok = all(k.name == 'c1' and not k.child_parameter_configs for k in kids) and pv == sorted([PARENT_VAL[c['kind']], PARENT_VAL2[c['kind']]])
      depth = 4 if ok else -4
    elif c['depth'] == 5:
      seen = sorted((list(k.matching_parent_values), k.name, tuple(k.bounds)) for k in kids)
      want = sorted([([PARENT_VAL[c['kind']]], 'c1', (0.0, 1.0)), ([PARENT_VAL2[c['kind']]], 'c1', (0.0, 10.0))])
      depth = 5 if seen == want else -5
    elif len(kids) != 1 or kids[0].name != 'c1' or list(kids[0].matching_parent_values) != [PARENT_VAL[c['kind']]]:
      depth = -2
    elif kids[0].child_parameter_configs:
      gk = kids[0].child_parameter_configs
      depth = 3 if (len(gk) == 1 and gk[0].name == 'g' and gk[0].default_value == 0.0 and gk[0].default_value is not None) else -3
  return {'kind': k, 'scale': pc.scale_type.name if pc.scale_type is not None else 'none', 'dflt': dflt,
          'ext': pc.external_type.name, 'depth': depth}


def obs_param(c, svc):
  from vizier import pyvizier as vz
  from vizier._src.pyvizier.oss import proto_converters as pcv
  from vizier._src.service import study_pb2
  from vizier._src.service import vizier_service_pb2 as vs
  from vizier.service import pyvizier as svz
  x = build_param(c)
  p1 = pcv.ParameterConfigConverter.to_proto(x)
  y = pcv.ParameterConfigConverter.from_proto(p1)
  p2 = pcv.ParameterConfigConverter.to_proto(y)
  back = project_param(y, c)
  idem = p1.SerializeToString(deterministic=True) == p2.SerializeToString(deterministic=True)
  # the same parameter inside a StudyConfig pushed through a real servicer (SQL memory)
  sc = svz.StudyConfig()
  sc.search_space.add(build_param(c))
  sc.metric_information.append(vz.MetricInformation('m', goal=vz.ObjectiveMetricGoal.MAXIMIZE))
  sc.algorithm = 'RANDOM_SEARCH'
  obs_param.n += 1
  st = svc.CreateStudy(vs.CreateStudyRequest(parent='owners/c09', study=study_pb2.Study(display_name='p%d' % obs_param.n, study_spec=sc.to_proto())))
  got = svz.StudyConfig.from_proto(svc.GetStudy(vs.GetStudyRequest(name=st.name)).study_spec)
  via = project_param(got.search_space.get('x'), c)
  if via != back:
    back = dict(via, kind='SERVICE_DIFFERS:' + via['kind'])
  return back, idem


obs_param.n = 0

# -------------------------------------------------------------------- metrics
SAFETY = {'none': None, 'zero': 0.0, 'pos': 1.5, 'neg': -1.5}
FRAC = {'none': None, 'zero': 0.0, 'half': 0.5}


def rev(table, v):
  for k, x in table.items():
    if x == v and (x is None) == (v is None):
      return k
  return 'other:%r' % (v,)


def obs_metric(c, svc):
  from vizier import pyvizier as vz
  from vizier._src.pyvizier.oss import proto_converters as pcv
  x = vz.MetricInformation('m', goal=getattr(vz.ObjectiveMetricGoal, c['goal']), safety_threshold=SAFETY[c['safety']],
                           desired_min_safe_trials_fraction=FRAC[c['frac']])
  p1 = pcv.MetricInformationConverter.to_proto(x)
  y = pcv.MetricInformationConverter.from_proto(p1)
  p2 = pcv.MetricInformationConverter.to_proto(y)
  back = {'goal': y.goal.name, 'safety': rev(SAFETY, y.safety_threshold), 'frac': rev(FRAC, y.desired_min_safe_trials_fraction)}
  if y.name != 'm':
    back['goal'] = 'NAME_CHANGED'
  return back, p1.SerializeToString(deterministic=True) == p2.SerializeToString(deterministic=True)


# --------------------------------------------------------------- measurements
MVAL = {'zero': 0.0, 'neg': -1.5, 'inf': INF, 'tiny': 1e-300}


def build_meas(c):
  from vizier import pyvizier as vz
  metrics = {}
  for name in ('a', 'b'):
    if c[name] != 'absent':
      metrics[name] = MVAL[c[name]]
  return vz.Measurement(metrics=metrics, elapsed_secs=c['elapsed'][0] / c['elapsed'][1], steps=c['steps'])


ELAPSED = [[0, 1], [3, 2], [1, 1000000], [5, 1], [7, 4]]


def project_meas(m):
  out = {'steps': int(m.steps) if float(m.steps) == int(m.steps) else -1}
  micros = round(m.elapsed_secs * 1e6)
  out['elapsed'] = next((e for e in ELAPSED if round(e[0] / e[1] * 1e6) == micros), [-1, micros])
  for name in ('a', 'b'):
    out[name] = rev(MVAL, m.metrics[name].value) if name in m.metrics else 'absent'
  extra = set(m.metrics) - {'a', 'b'}
  if extra:
    out['a'] = 'EXTRA_METRICS'
  return out


def obs_measurement(c, svc):
  from vizier._src.pyvizier.oss import proto_converters as pcv
  x = build_meas(c)
  p1 = pcv.MeasurementConverter.to_proto(x)
  y = pcv.MeasurementConverter.from_proto(p1)
  p2 = pcv.MeasurementConverter.to_proto(y)
  return project_meas(y), p1.SerializeToString(deterministic=True) == p2.SerializeToString(deterministic=True)


# --------------------------------------------------------------------- trials
PVAL = {'int0': 0, 'float0': 0.0, 'float15': 1.5, 'str_empty': '', 'str_False': 'False', 'str_a': 'a'}
CTIME = datetime.datetime(2023, 5, 6, 7, 8, 9, 123456)
DTIME = datetime.datetime(2023, 5, 6, 9, 8, 7, 654321)
MEAS_M = {'steps': 3, 'elapsed': [3, 2], 'a': 'zero', 'b': 'neg'}


def build_trial(c):
  from vizier import pyvizier as vz
  params = {}
  for name in ('p', 'q'):
    if c[name] != 'absent':
      params[name] = PVAL[c[name]]
  kw = {}
  if c['ctime'] == 'us':
    kw['creation_time'] = CTIME
  t = vz.Trial(id=7, parameters=params, assigned_worker='w' if c['worker'] == 'w' else None,
               is_requested=c['status'] == 'REQUESTED', **kw)
  for k in range(c['nmeas']):
    t.measurements.append(build_meas(dict(MEAS_M, steps=k)))
  if c['status'] == 'STOPPING':
    t.stopping_reason = 'because'
  if c['final'] == 'm' or c['status'] in ('SUCCEEDED', 'INFEASIBLE'):
    fm = build_meas(MEAS_M) if c['final'] == 'm' else None
    if c['status'] == 'INFEASIBLE':
      t.complete(fm if fm is not None else vz.Measurement(), infeasibility_reason=c['reason'])
    else:
      t.complete(fm)
    t.completion_time = DTIME
  if c['ctime'] == 'none':
    t.creation_time = None
  if c['meta'] == 'str':
    t.metadata['k'] = 'v'
  elif c['meta'] == 'empty_str':
    t.metadata['k'] = ''
  elif c['meta'] == 'ns':
    t.metadata.ns('a:b')['k'] = 'v'
  elif c['meta'] == 'ns_empty_first':
    t.metadata.abs_ns(vz.Namespace(('', 'tuner')))['k'] = 'v'
  elif c['meta'] == 'ns_colon_chain':
    t.metadata.abs_ns(vz.Namespace(('gs://b', 'c:d', 'e')))['k'] = 'v'
  return t


def project_trial(t, c):
  if t.status.name == 'COMPLETED':
    status = 'INFEASIBLE' if t.infeasible else 'SUCCEEDED'
  else:
    status = t.status.name
  out = {'status': status, 'reason': (t.infeasibility_reason or '') if t.infeasible else ''}
  if t.infeasible and t.infeasibility_reason is None:
    out['reason'] = 'NONE'
  for name in ('p', 'q'):
    if name in t.parameters:
      v = t.parameters[name].value
      cands = [k for k, x in PVAL.items() if x == v and isinstance(x, str) == isinstance(v, str)]
      # numbers may change Python type but not value: int0 and float0 denote the same number
      want = c[name]
      out[name] = want if want in cands else (cands[0] if cands else 'other:%r' % (v,))
    else:
      out[name] = 'absent'
  out['nmeas'] = len(t.measurements)
  for k, m in enumerate(t.measurements):
    if project_meas(m) != dict(MEAS_M, steps=k):
      out['nmeas'] = -1 - k
  fm = t.final_measurement
  if fm is None or (not fm.metrics and c['final'] == 'none'):
    out['final'] = 'none'
  else:
    out['final'] = 'm' if project_meas(fm) == MEAS_M else 'other:%r' % (project_meas(fm),)
  out['worker'] = 'w' if t.assigned_worker == 'w' else ('none' if t.assigned_worker is None else 'other')
  out['ctime'] = 'none' if t.creation_time is None else ('us' if t.creation_time.replace(tzinfo=None) == CTIME else 'other:%s' % t.creation_time)
  out['dtime'] = 'none' if t.completion_time is None else ('us' if t.completion_time.replace(tzinfo=None) == DTIME else 'other:%s' % t.completion_time)
  md = {(str(ns), k): v for ns, k, v in t.metadata.all_items()}
  if not md:
    out['meta'] = 'none'
  elif md == {('', 'k'): 'v'}:
    out['meta'] = 'str'
  elif md == {('', 'k'): ''}:
    out['meta'] = 'empty_str'
  elif md == {('::tuner', 'k'): 'v'} and tuple(next(iter(ns for ns, _, _ in t.metadata.all_items()))) == ('', 'tuner'):
    out['meta'] = 'ns_empty_first'
  elif md == {(':a\\:b', 'k'): 'v'}:
    out['meta'] = 'ns'
  elif len(md) == 1 and list(md.values()) == ['v'] and tuple(next(iter(ns for ns, _, _ in t.metadata.all_items()))) == ('gs://b', 'c:d', 'e'):
    out['meta'] = 'ns_colon_chain'
  else:
    out['meta'] = 'other:%r' % (md,)
  if t.id != 7:
    out['status'] = 'ID_CHANGED'
  return out


def obs_trial(c, svc):
  from vizier._src.pyvizier.oss import proto_converters as pcv
  x = build_trial(c)
  p1 = pcv.TrialConverter.to_proto(x)
  y = pcv.TrialConverter.from_proto(p1)
  p2 = pcv.TrialConverter.to_proto(y)
  return project_trial(y, c), p1.SerializeToString(deterministic=True) == p2.SerializeToString(deterministic=True)


# --------------------------------------------------------------------- deltas
def cell_value(v):
  from google.protobuf import duration_pb2
  return {'v': 'v', 'empty': '', 'proto': duration_pb2.Duration(seconds=3)}[v]


def build_delta(c):
  from vizier import pyvizier as vz
  d = vz.MetadataDelta()
  if c['study_root'] != 'absent':
    d.on_study['k'] = cell_value(c['study_root'])
  if c['study_ns'] != 'absent':
    d.on_study.ns('algo')['k'] = cell_value(c['study_ns'])
  if c['trial1_root'] != 'absent':
    d.on_trials[1]['k'] = cell_value(c['trial1_root'])
  if c['trial2_ns'] != 'absent':
    d.on_trials[2].ns('algo')['k'] = cell_value(c['trial2_ns'])
  return d


def cell_class(md, ns):
  from google.protobuf import duration_pb2
  m = md.ns(ns) if ns else md
  if 'k' not in m:
    return 'absent'
  v = m['k']
  if isinstance(v, str):
    return {'v': 'v', '': 'empty'}.get(v, 'other:' + v)
  try:
    dur = duration_pb2.Duration()
    ok = v.Unpack(dur) if hasattr(v, 'Unpack') else False
    if ok and dur.seconds == 3:
      return 'proto'
    if isinstance(v, duration_pb2.Duration) and v.seconds == 3:
      return 'proto'
  except Exception:  # pylint: disable=broad-except
    pass
  return 'other:%s' % type(v).__name__


def obs_delta(c, svc):
  from vizier._src.pyvizier.oss import proto_converters as pcv
  x = build_delta(c)
  p1 = pcv.MetadataDeltaConverter.to_protos(x)
  y = pcv.MetadataDeltaConverter.from_protos(p1)
  p2 = pcv.MetadataDeltaConverter.to_protos(y)
  back = {'study_root': cell_class(y.on_study, ''), 'study_ns': cell_class(y.on_study, 'algo'),
          'trial1_root': cell_class(y.on_trials[1], '') if 1 in y.on_trials else 'absent',
          'trial2_ns': cell_class(y.on_trials[2], 'algo') if 2 in y.on_trials else 'absent'}
  extra = set(y.on_trials) - {1, 2}
  if extra:
    back['study_root'] = 'EXTRA_TRIALS'
  key = lambda u: u.SerializeToString(deterministic=True)
  return back, sorted(map(key, p1)) == sorted(map(key, p2))


def obs_config(c, svc):
  """A StudyConfig, possibly received from the wire and edited, sent again."""
  from vizier import pyvizier as vz
  from vizier.service import pyvizier as svz
  sc = svz.StudyConfig()
  sc.search_space.root.add_float_param('x', 0.0, 1.0)
  sc.metric_information.append(vz.MetricInformation('m', goal=vz.ObjectiveMetricGoal.MAXIMIZE))
  sc.algorithm = c['algo']
  if c['noise'] != 'unset':
    sc.observation_noise = getattr(svz.ObservationNoise, c['noise'])
  if c['root'] != 'absent':
    sc.metadata['k'] = {'v': 'v', 'empty': ''}[c['root']]
  if c['ns'] != 'absent':
    sc.metadata.ns('algo')['state'] = 'v'
  if c['edit'] != 'none':
    sc = svz.StudyConfig.from_proto(sc.to_proto())          # received from the wire ...
    if c['edit'] == 'delete_root' and 'k' in sc.metadata:   # ... and edited
      del sc.metadata['k']
    elif c['edit'] == 'delete_ns' and 'state' in sc.metadata.ns('algo'):
      del sc.metadata.ns('algo')['state']
    elif c['edit'] == 'overwrite_root':
      sc.metadata['k'] = 'v'
    elif c['edit'] == 'add_ns':
      sc.metadata.ns('algo')['state'] = 'v'
  p1 = sc.to_proto()
  y = svz.StudyConfig.from_proto(p1)
  p2 = y.to_proto()
  root = y.metadata.get('k', None)
  back = {'algo': y.algorithm, 'noise': 'unset' if y.observation_noise is None or y.observation_noise.name.endswith('UNSPECIFIED') else y.observation_noise.name,
          'root': 'absent' if root is None else {'v': 'v', '': 'empty'}.get(root, 'other'),
          'ns': 'v' if y.metadata.ns('algo').get('state', None) == 'v' else 'absent', 'edit': c['edit']}
  return back, p1.SerializeToString(deterministic=True) == p2.SerializeToString(deterministic=True)


# ------------------------------------------------- algorithm requests / decisions (Pythia wire)
def _unset(x):
  return 'unset' if x in (None, '') else ('dir' if x == '/ckpt/dir' else 'other:%r' % (x,))


def _problem(c):
  from vizier import pyvizier as vz
  p = vz.ProblemStatement()
  root = p.search_space.root
  root.add_float_param('x', 0.0, 1.0)
  if c['space'] == 'conditional':
    sel = root.add_categorical_param('model', ['a', 'b'])
    sel.select_values(['a']).add_int_param('depth', 1, 3)
  p.metric_information.append(vz.MetricInformation('m', goal=vz.ObjectiveMetricGoal.MAXIMIZE))
  if c['pmeta'] != 'absent':
    p.metadata['k'] = {'v': 'v', 'empty': ''}[c['pmeta']]
  return p


def _problem_class(p, c):
  names = sorted(pc.name for pc in p.search_space.parameters)
  cond = p.search_space.is_conditional
  shape = 'conditional' if (cond and names == ['model', 'x'] and
                            [ch.name for ch in p.search_space.get('model').child_parameter_configs] == ['depth']) else (
                                'flat' if (not cond and names == ['x']) else 'other:%s' % names)
  if [m.name for m in p.metric_information] != ['m']:
    shape = 'other:metrics'
  v = p.metadata.get('k', None)
  return shape, 'absent' if v is None else {'v': 'v', '': 'empty'}.get(v, 'other')


def _descriptor(c, problem):
  from vizier._src.pyvizier.pythia import study
  return study.StudyDescriptor(config=problem, guid=c['guid'], max_trial_id=c['maxid'])


CKPT = {'none': None, 'empty': '', 'dir': '/ckpt/dir'}


def obs_sreq(c, svc):
  from vizier._src.pythia import policy
  from vizier._src.pyvizier.oss import proto_converters as pcv
  x = policy.SuggestRequest(study_descriptor=_descriptor(c, _problem(dict(c))), count=c['count'], checkpoint_dir=CKPT[c['ckpt']])
  p1 = pcv.SuggestConverter.to_request_proto(x)
  y = pcv.SuggestConverter.from_request_proto(p1)
  p2 = pcv.SuggestConverter.to_request_proto(y)
  space, pmeta = _problem_class(y.study_config, c)
  back = {'count': y.count, 'ckpt': _unset(y.checkpoint_dir), 'guid': y.study_guid, 'maxid': y.max_trial_id, 'space': space, 'pmeta': pmeta}
  return back, p1.SerializeToString(deterministic=True) == p2.SerializeToString(deterministic=True)


PVAL = {'int0': 0, 'float0': 0.0, 'float15': 1.5, 'str_empty': '', 'str_a': 'a', 'str_False': 'False'}


def _pclass(params, name):
  if name not in params:
    return 'absent'
  v = params[name].value
  for k, ref in PVAL.items():
    if type(v) is type(ref) and v == ref:
      return k
  # numbers may change Python type but not value
  for k, ref in PVAL.items():
    if not isinstance(ref, str) and not isinstance(v, str) and v == ref:
      return {'float0': 'int0'}.get(k, k) if False else k
  return 'other:%r' % (v,)


def _same_number_class(a, b):
  return a == b or {a, b} == {'int0', 'float0'}


def obs_sdec(c, svc):
  from vizier import pyvizier as vz
  from vizier._src.pythia import policy
  from vizier._src.pyvizier.oss import proto_converters as pcv
  sugg = []
  for i in range(c['nsug']):
    params = {}
    if c['p'] != 'absent':
      params['p'] = PVAL[c['p']]
    if c['q'] != 'absent':
      params['q'] = PVAL[c['q']]
    s = vz.TrialSuggestion(params)
    if c['smeta'] == 'ns':
      s.metadata.ns('algo')['k'] = 'v'
    elif c['smeta'] != 'absent':
      s.metadata['k'] = cell_value(c['smeta'])
    sugg.append(s)
  delta = vz.MetadataDelta()
  if c['dstudy'] != 'absent':
    delta.on_study['k'] = cell_value(c['dstudy'])
  if c['dtrial'] != 'absent':
    delta.on_trials[2].ns('algo')['k'] = 'v'
  x = policy.SuggestDecision(suggestions=sugg, metadata=delta)
  p1 = pcv.SuggestConverter.to_decision_proto(x)
  y = pcv.SuggestConverter.from_decision_proto(p1)
  p2 = pcv.SuggestConverter.to_decision_proto(y)
  back = dict(c)
  back['nsug'] = len(y.suggestions)
  for s in y.suggestions:            # every suggestion carried the same content
    pc = _pclass(s.parameters, 'p')
    if not _same_number_class(pc, c['p']):
      back['p'] = pc
    qc = _pclass(s.parameters, 'q')
    if qc != c['q']:
      back['q'] = qc
    extra = set(s.parameters) - {'p', 'q'}
    if extra:
      back['p'] = 'EXTRA:%s' % sorted(extra)
    sm = 'ns' if (c['smeta'] == 'ns' and s.metadata.ns('algo').get('k', None) == 'v' and 'k' not in s.metadata) else cell_class(s.metadata, '')
    if sm != c['smeta']:
      back['smeta'] = sm
  back['dstudy'] = cell_class(y.metadata.on_study, '')
  back['dtrial'] = ('v' if y.metadata.on_trials[2].ns('algo').get('k', None) == 'v' else 'other') if 2 in y.metadata.on_trials else 'absent'
  if set(y.metadata.on_trials) - {2}:
    back['dtrial'] = 'EXTRA_TRIALS'
  return back, p1.SerializeToString(deterministic=True) == p2.SerializeToString(deterministic=True)


IDS = {'none': None, 'one': [3], 'two': [3, 5]}


def obs_ereq(c, svc):
  from vizier._src.pythia import policy
  from vizier._src.pyvizier.oss import proto_converters as pcv
  x = policy.EarlyStopRequest(study_descriptor=_descriptor(c, _problem({'space': 'flat', 'pmeta': 'absent'})), trial_ids=IDS[c['ids']],
                              checkpoint_dir=CKPT[c['ckpt']])
  p1 = pcv.EarlyStopConverter.to_request_proto(x)
  y = pcv.EarlyStopConverter.from_request_proto(p1)
  p2 = pcv.EarlyStopConverter.to_request_proto(y)
  ids = 'none' if y.trial_ids is None else {(): 'empty', (3,): 'one', (3, 5): 'two'}.get(tuple(sorted(y.trial_ids)), 'other')
  back = {'ids': ids, 'ckpt': _unset(y.checkpoint_dir), 'guid': y.study_guid, 'maxid': y.max_trial_id}
  return back, p1.SerializeToString(deterministic=True) == p2.SerializeToString(deterministic=True)


def obs_edec(c, svc):
  from vizier import pyvizier as vz
  from vizier._src.pythia import policy
  from vizier._src.pyvizier.oss import proto_converters as pcv
  pfm = {'none': None, 'empty': vz.Measurement(), 'metric0': vz.Measurement({'m': 0.0}), 'metric': vz.Measurement({'m': 1.5}, steps=3)}[c['pfm']]
  decs = [policy.EarlyStopDecision(id=3 + 2 * i, reason='r', should_stop=c['stop'], predicted_final_measurement=pfm) for i in range(c['n'])]
  delta = vz.MetadataDelta()
  if c['dstudy'] != 'absent':
    delta.on_study['k'] = cell_value(c['dstudy'])
  if c['dtrial'] != 'absent':
    delta.on_trials[2].ns('algo')['k'] = 'v'
  x = policy.EarlyStopDecisions(decisions=decs, metadata=delta)
  p1 = pcv.EarlyStopConverter.to_decisions_proto(x)
  y = pcv.EarlyStopConverter.from_decisions_proto(p1)
  p2 = pcv.EarlyStopConverter.to_decisions_proto(y)
  back = dict(c)
  back['n'] = len(y.decisions)
  back['pfm'] = 'unset' if c['pfm'] in ('none', 'empty') else c['pfm']
  for i, dcs in enumerate(y.decisions):
    if dcs.id != 3 + 2 * i or dcs.reason != 'r':
      back['n'] = 'ids_or_reason_changed'
    if dcs.should_stop != c['stop']:
      back['stop'] = dcs.should_stop
    m = dcs.predicted_final_measurement
    if m is None or (not m.metrics and not m.steps):
      cls = 'unset'
    elif set(m.metrics) == {'m'} and m.metrics['m'].value == 0.0 and not m.steps:
      cls = 'metric0'
    elif set(m.metrics) == {'m'} and m.metrics['m'].value == 1.5 and m.steps == 3:
      cls = 'metric'
    else:
      cls = 'other'
    if cls != back['pfm']:
      back['pfm'] = cls
  back['dstudy'] = cell_class(y.metadata.on_study, '')
  back['dtrial'] = ('v' if y.metadata.on_trials[2].ns('algo').get('k', None) == 'v' else 'other') if 2 in y.metadata.on_trials else 'absent'
  return back, p1.SerializeToString(deterministic=True) == p2.SerializeToString(deterministic=True)


OBS = {'config': obs_config, 'param': obs_param, 'metric': obs_metric, 'measurement': obs_measurement, 'trial': obs_trial, 'delta': obs_delta,
       'sreq': obs_sreq, 'sdec': obs_sdec, 'ereq': obs_ereq, 'edec': obs_edec}
WV = re.compile(r'<<"WV", (\d+), "(\w+)">>')


def run(ctx):
  import world
  cov = ctx.coverage
  stats = collections.Counter()
  svc = world.make_servicer(world.backend_url('sqlmem'))
  all_obs = []
  with tlc.Scratch('c09') as d:
    tlc_states = 0
    for mode in ('param', 'metric', 'measurement', 'trial', 'delta', 'config', 'sreq', 'sdec', 'ereq', 'edec'):
      cfg = os.path.join(d, 'W_%s.cfg' % mode)
      tlc.write_cfg(cfg, constants={'Mode': mode}, constraints=['Dump'])
      res = tlc.must_ok(tlc.run_tlc('Wire', cfg, d, workers=4), 'Wire/' + mode)
      recs = list({json.dumps(r['case'], sort_keys=True): r for r in res.printed_json()}.values())
      cases = [r['case'] for r in recs]
      expects = {json.dumps(r['case'], sort_keys=True): r['expect'] for r in recs}
      if len(cases) != res.distinct or not cases:
        raise tlc.MachineryError('Wire enumeration incomplete for %s' % mode)
      tlc_states += res.distinct
      for c in cases:
        stats[mode] += 1
        try:
          back, idem = OBS[mode](c, svc)
          all_obs.append({'mode': mode, 'case': c, 'expect': expects[json.dumps(c, sort_keys=True)], 'back': back, 'idem': bool(idem), 'refused': False})
        except Exception as e:  # pylint: disable=broad-except
          all_obs.append({'mode': mode, 'case': c, 'expect': c, 'back': c, 'idem': True, 'refused': True, 'error': '%s: %s' % (type(e).__name__, str(e)[:150])})
      ctx.log('  Wire/%s: %d values enumerated by TLC and converted' % (mode, len(cases)))
    path = os.path.join(d, 'wire_obs.json')
    with open(path, 'w') as f:
      json.dump([{k: v for k, v in o.items() if k in ('case', 'expect', 'back', 'idem', 'refused')} for o in all_obs], f)
    cfg = os.path.join(d, 'W_judge.cfg')
    tlc.write_cfg(cfg, constants={'Mode': 'judge'}, constraints=['Judge'])
    res2 = tlc.must_ok(tlc.run_tlc('Wire', cfg, d, workers=8, env={'TRACE_FILE': path}), 'Wire/judge')
    verdicts = {int(m.group(1)): m.group(2) for m in WV.finditer(res2.out)}
    if len(verdicts) != len(all_obs):
      raise tlc.MachineryError('Wire judge incomplete: %d of %d' % (len(verdicts), len(all_obs)))
  counts = collections.Counter()
  for i, o in enumerate(all_obs):
    v = verdicts[i + 1]
    counts[v] += 1
    if v == 'ok':
      continue
    diff = sorted(k for k in o['expect'] if o['back'].get(k) != o['expect'][k]) if v == 'roundtrip' else []
    sig = {'via': 'wire', 'type': o['mode'], 'verdict': v, 'fields': ','.join(diff)}
    for k in diff[:2]:
      sig['case_' + k] = json.dumps(o['case'][k])
    ctx.violation(sig, {'kind': 'wire', 'type': o['mode'], 'value': o['case'], 'came_back_as': o['back'], 'second_serialisation_identical': o['idem'],
                        'error': o.get('error')})
  ctx.log('  verdicts: %s' % dict(counts))
  n = len(all_obs)
  cov.update({'evaluations': n, 'distinct_nontrivial': n, 'states': tlc_states, 'transitions': n, 'traces_validated_against_impl': n,
              'rule': 'one case = one value of the Wire.tla universe (parameter config incl. conditional depth, metric info, measurement, trial, metadata delta, study config with edits, '
                      'suggest / early-stop request and decision) '
                      'converted to proto and back with the real converters (parameter configs also through CreateStudy/GetStudy on SQLite); every value is distinct',
              'counts': dict(stats), 'verdicts': dict(counts), 'exhaustive': True})
  ctx.sample(all_obs[len(all_obs) // 2]['case'])
  ctx.sample(all_obs[3]['case'])
  ctx.assumptions += ['the projection of converted objects into the value model is done by the driver (Python); TLC enumerates the universe and judges equality and idempotence',
                      'fields outside the value model (unknown proto fields, metric std, checkpoint path, related links, stopping-reason text, metric min/max bounds) are not judged']


def replay(ctx, case):
  run(ctx)
