"""C12, the trial views the delivery rule is built on: every (reachable trial table, filter) transition of spec/TrialView.tla
replayed into the four pieces of code that implement "the trials passing a filter":
  vz.TrialFilter, ServicePolicySupporter.GetTrials (over a real servicer), InRamPolicySupporter.GetTrials, clients.Study.trials.
"""
import collections
import itertools
import json
import os

import verif_boot  # noqa: F401
import tlc

QUICK_STATUS = [set(), {'ACTIVE'}, {'COMPLETED'}, {'ACTIVE', 'STOPPING'}]
FULL_STATUS = [set(), {'REQUESTED'}, {'ACTIVE'}, {'STOPPING'}, {'COMPLETED'}, {'ACTIVE', 'STOPPING'},
               {'REQUESTED', 'ACTIVE', 'STOPPING', 'COMPLETED'}]
ACTION_PROPS = ['Sound', 'Complete', 'Conjunctive', 'NoClauseIsEverything', 'EmptyClauseIsNothing', 'QueriesArePure', 'IdsGrow']
INVS = ['StatusViewsDisjoint', 'StatusViewsCover']
_counter = itertools.count()
_W = {}


def model(ctx, workdir):
  consts = dict(N=3, StatusSets=frozenset(frozenset(s) for s in (FULL_STATUS if ctx.thorough else QUICK_STATUS)), MaxDepth=20)
  cfg = os.path.join(workdir, 'TrialView.cfg')
  tlc.write_cfg(cfg, constants=consts, invariants=INVS, properties=ACTION_PROPS, constraints=['Dump', 'Bound'], view='StoreView')
  res = tlc.must_ok(tlc.run_tlc('TrialView', cfg, workdir, workers=1, timeout=3000), 'TrialView')
  if res.violated:
    raise tlc.MachineryError('TrialView model violates %s:\n%s' % (res.violated, res.trace_text()[:2000]))
  by_store = collections.OrderedDict()
  n = 0
  for x in res.printed_json():
    by_store.setdefault(tuple(x['store']), []).append((x['q'], sorted(x['ans'])))
    n += 1
  return res, by_store, n


def _worker_init(backend, scratch):
  import world
  from vizier._src.service import constants
  from vizier._src.service import vizier_client
  vizier_client.environment_variables.server_endpoint = constants.NO_ENDPOINT
  vizier_client.environment_variables.servicer_kwargs = {'database_url': world.backend_url(backend, scratch)}
  vizier_client._create_local_vizier_servicer.cache_clear()  # pylint: disable=protected-access
  _W['svc'] = vizier_client._create_local_vizier_servicer()  # pylint: disable=protected-access
  _W['backend'] = backend


def _pytrial(i, x):
  from vizier import pyvizier as vz
  t = vz.Trial(id=i, parameters={'x': 0.25 * i}, is_requested=(x == 'REQUESTED'))
  if x == 'STOPPING' or (x in ('SUCCEEDED', 'INFEASIBLE') and i == 2):
    # the second trial, when completed, was asked to stop first (STOPPING -> SUCCEEDED / INFEASIBLE of the model): the
    # stopping reason stays on the completed object
    t.stopping_reason = 'asked to stop'
  if x == 'STOPPING':
    pass
  elif x == 'SUCCEEDED':
    t.complete(vz.Measurement(metrics={'m': float(i)}))
  elif x == 'INFEASIBLE':
    t.complete(vz.Measurement(), infeasibility_reason='no')
  return t


def _problem():
  from vizier import pyvizier as vz
  p = vz.ProblemStatement()
  p.search_space.root.add_float_param('x', 0.0, 1.0)
  p.metric_information.append(vz.MetricInformation('m', goal=vz.ObjectiveMetricGoal.MAXIMIZE))
  return p


def _opt(c):
  return c[0] if c else None


def _ids(trials):
  return sorted(t.id for t in trials)


def _store_chunk(items):
  """items: [(store, [(q, ans)...])]; returns per implementation the number of queries and the list of disagreements."""
  from vizier import pyvizier as vz
  from vizier._src.pythia import local_policy_supporters
  from vizier._src.service import clients
  from vizier._src.service import resources
  from vizier._src.service import service_policy_supporter
  from vizier._src.service import study_pb2
  from vizier._src.service import vizier_service_pb2
  from vizier.service import pyvizier as svz
  svc = _W['svc']
  counts = collections.Counter()
  bad = []
  status_of = {s.name: s for s in vz.TrialStatus}
  for store, queries in items:
    sid = 'view%d_%d' % (os.getpid(), next(_counter))
    owner = 'owners/viewer'
    sc = svz.StudyConfig.from_problem(_problem())
    sc.algorithm = 'RANDOM_SEARCH'
    study = svc.CreateStudy(vizier_service_pb2.CreateStudyRequest(parent=owner, study=study_pb2.Study(display_name=sid, study_spec=sc.to_proto())))
    present = [(i + 1, x) for i, x in enumerate(store) if x != 'Absent']
    for i, x in present:
      proto = svz.TrialConverter.to_proto(_pytrial(i, x))
      proto.name = resources.StudyResource.from_name(study.name).trial_resource(i).name
      svc.datastore.create_trial(proto)
    stored = svz.TrialConverter.from_protos(svc.datastore.list_trials(study.name))
    sup = service_policy_supporter.ServicePolicySupporter(study.name, svc)
    client = clients.Study.from_resource_name(study.name)
    contiguous = [i for i, _ in present] == list(range(1, len(present) + 1))
    ram = None
    if contiguous:
      ram = local_policy_supporters.InRamPolicySupporter(_problem())
      # odd completed trials take the model's ACTIVE -> SUCCEEDED / INFEASIBLE step the way PolicySuggester documents it: the
      # trial is added ACTIVE, evaluated on a copy, and the completed copy is handed back under the same id
      later = [(i, x) for i, x in present if x in ('SUCCEEDED', 'INFEASIBLE') and i % 2 == 1]
      ram.AddTrials([_pytrial(i, 'ACTIVE' if (i, x) in later else x) for i, x in present])
      if later:
        ram.AddTrials([_pytrial(i, x) for i, x in later])
    for q, ans in queries:
      ids, lo, hi, status = _opt(q['ids']), _opt(q['min']), _opt(q['max']), _opt(q['status'])
      stat = None if status is None else [status_of[s] for s in status]
      got = {}
      try:
        f = vz.TrialFilter(ids=ids, min_id=lo, max_id=hi, status=stat)
        got['TrialFilter'] = _ids(t for t in stored if f(t))
        got['Study.trials'] = _ids(client.trials(f if q != {'ids': [], 'min': [], 'max': [], 'status': []} else None).get())
        if stat is None or len(stat) == 1:
          kw = dict(trial_ids=ids, min_trial_id=lo, max_trial_id=hi, status_matches=stat[0] if stat else None)
          got['ServicePolicySupporter.GetTrials'] = _ids(sup.GetTrials(**kw))
          if ram is not None:
            got['InRamPolicySupporter.GetTrials'] = _ids(ram.GetTrials(**kw))
      except Exception as e:  # pylint: disable=broad-except
        got['error'] = '%s: %s' % (type(e).__name__, str(e)[:100])
      for impl, v in got.items():
        counts[impl] += 1
        if v != ans:
          bad.append({'implementation': impl, 'store': list(store), 'filter': q, 'expected_ids': ans, 'observed': v, 'backend': _W['backend']})
    # reading never writes: the table is what was put there
    after = [(int(t.id), t.state) for t in svc.datastore.list_trials(study.name)]
    if sorted(i for i, _ in after) != [i for i, _ in present]:
      bad.append({'implementation': 'reads-are-pure', 'store': list(store), 'filter': None, 'expected_ids': [i for i, _ in present],
                  'observed': sorted(i for i, _ in after), 'backend': _W['backend']})
  return counts, bad


def run(ctx, workdir):
  import concurrent.futures as cf
  import multiprocessing
  import random
  import world  # noqa: F401
  res, by_store, n = model(ctx, workdir)
  if n < 1000 or len(by_store) < 100:
    raise tlc.MachineryError('TrialView dump too small: %d queries over %d stores' % (n, len(by_store)))
  rng = random.Random(ctx.seed + 112)
  layer = {'distinct_states': res.distinct, 'query_transitions': n, 'stores': len(by_store), 'replay': {}}
  total = collections.Counter()
  nbad = collections.Counter()
  for backend, frac in ([('ram', 0.25), ('sqlmem', 0.04)] if not ctx.thorough else [('ram', 1.0), ('sqlmem', 0.3)]):
    items = [(s, [qa for qa in qs if frac >= 1 or rng.random() < frac]) for s, qs in by_store.items()]
    k = max(1, len(items) // 48)
    chunks = [items[i:i + k] for i in range(0, len(items), k)]
    counts = collections.Counter()
    with cf.ProcessPoolExecutor(max_workers=16, mp_context=multiprocessing.get_context('fork'), initializer=_worker_init,
                                initargs=(backend, workdir)) as ex:
      for c, bad in ex.map(_store_chunk, chunks):
        counts.update(c)
        for b in bad:
          nbad[b['implementation']] += 1
          if nbad[b['implementation']] <= 3:
            q = b['filter'] or {}
            ctx.violation({'via': 'trial-view', 'implementation': b['implementation'],
                           'clauses': sorted(k for k in ('ids', 'min', 'max', 'status') if q.get(k)),
                           'what': 'error' if b['implementation'] == 'error' else
                                   'missing' if set(b['observed']) < set(b['expected_ids']) else
                                   'extra' if set(b['observed']) > set(b['expected_ids']) else 'other'},
                          dict(b, kind='trial-view'))
    layer['replay'][backend] = dict(counts)
    total.update(counts)
    ctx.log('  trial views (%s): %s; disagreements %s' % (backend, dict(counts), dict(nbad)))
  layer['disagreements'] = dict(nbad)
  if not total.get('InRamPolicySupporter.GetTrials') or not total.get('ServicePolicySupporter.GetTrials'):
    raise tlc.MachineryError('trial view replay vacuous: %s' % dict(total))
  ctx.coverage['trial_views'] = layer
  ctx.coverage['traces_validated_against_impl'] = ctx.coverage.get('traces_validated_against_impl', 0) + sum(total.values())
  return layer


def replay(ctx, c):
  import world  # noqa: F401
  with tlc.Scratch('c12v') as d:
    _worker_init(c.get('backend', 'ram'), d)
    _, bad = _store_chunk([(tuple(c['store']), [(c['filter'], c['expected_ids'])] if c['filter'] else [])])
  bad = [b for b in bad if b['implementation'] == c['implementation']]
  if bad:
    ctx.violation({'via': 'trial-view', 'implementation': c['implementation']}, c)
    print('replay: %s returns %s, TrialView.tla says %s' % (c['implementation'], bad[0]['observed'], c['expected_ids']))
  else:
    print('replay: the view now matches the model')
  ctx.coverage.update({'states': 1, 'transitions': 1, 'traces_validated_against_impl': 1})
