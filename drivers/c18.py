"""C18 - Output warping keeps the ranking of trials and always yields finite labels."""
import collections
import concurrent.futures as cf
import json
import multiprocessing
import os
import random
import re

import verif_boot  # noqa: F401
import fkey
import numpy as np
import tlc

LEVEL = 'exploration'
WPV = re.compile(r'<<"WPV", (\d+), "(\w+)">>')

PALETTES = {
    'tight': lambda r, k: 1.0 + 0.01 * r,
    'wide': lambda r, k: 10.0 ** (2 * r - 4),
    'negative': lambda r, k: -5.0 + 1.5 * r,
    'outlier_hi': lambda r, k: float(r) if r < k else 1e3 * k,
    'outlier_lo': lambda r, k: float(r) if r > 1 else -1e3 * k,
    'tiny': lambda r, k: 1e-8 * r,
    'huge': lambda r, k: 1e8 * r,
}


def pipelines():
  from vizier._src.algorithms.designers.gp import output_warpers as ow
  # name -> (factory, strict ranking expected, maps infeasible entries, has inverse on observed values)
  return {
      'default': (ow.create_default_warper, True, True, True),
      'warp_outliers': (ow.create_warp_outliers_warper, False, True, False),
      'HalfRank': (ow.HalfRankComponent, True, False, True),
      'LogWarper': (ow.LogWarperComponent, True, False, True),
      'InfeasibleWarper': (ow.InfeasibleWarperComponent, True, True, False),
      'ZScoreLabels': (ow.ZScoreLabels, False, False, False),
      'NormalizeLabels': (ow.NormalizeLabels, False, False, False),
      'DetectOutliers': (ow.DetectOutliers, False, False, False),
      'TransformToGaussian': (ow.TransformToGaussian, False, False, False),
  }


def concretise(ranks, palette, missing=np.nan):
  k = max(ranks)
  return np.array([[missing if r == 0 else PALETTES[palette](r, k)] for r in ranks], dtype=np.float64)


def observe(job):
  ranks, palette, pname = job[:3]
  reuse = len(job) > 3 and job[3]
  P = pipelines()
  factory, strict, maps_inf, has_inv = P[pname]
  neginf = len(job) > 4 and job[4]           # missing entries given as -inf instead of NaN
  x = concretise(ranks, palette, -np.inf if neginf else np.nan)
  is_pipeline = pname in ('default', 'warp_outliers')
  partial = False
  if not is_pipeline and (0 in ranks and pname != 'InfeasibleWarper'):
    # components that run after the infeasible-label handling promise nothing about the VALUES of arrays with missing
    # entries; what is still judged on them: the input is not modified, no reversal among the entries that stay finite,
    # and (where an inverse exists) un-warping returns the observed values
    if pname not in ('HalfRank', 'LogWarper', 'ZScoreLabels', 'NormalizeLabels'):
      return None
    partial = True
    strict = False
  if not is_pipeline and max(ranks) < 2:
    # a single distinct value is a degenerate input that only the pipelines promise to handle (documented shortcuts)
    return None
  x0 = x.copy()
  rec = {'ranks': list(ranks), 'palette': palette, 'pipeline': pname, 'reused': bool(reuse), 'strict': bool(strict), 'maps_infeasible': bool(maps_inf), 'refused': False,
         'inp': [fkey.key(v) for v in x0[:, 0]], 'out': [fkey.key(0.0)] * len(ranks), 'finite': [True] * len(ranks), 'untouched': True, 'shape_ok': True,
         'back_ok': True, 'is_pipeline': is_pipeline, 'neginf': bool(neginf)}
  try:
    w = factory()
    if len(job) > 5 and job[5]:
      # two warpers made by the same factory are independent objects: another one, warping other data in between, must
      # not disturb this one (checked through the inverse below)
      other = factory()
    else:
      other = None
    if reuse:
      # the designers keep ONE warper object and call it again as data arrives: first the two worst observed values ...
      obs_idx = [i for i, r in enumerate(ranks) if r != 0]
      two = sorted(obs_idx, key=lambda i: x[i, 0])[:2]
      w.warp(x[two].copy())
    y = np.asarray(w.warp(x))
    if other is not None:
      other.warp(np.array([[-100.0], [-200.0], [1.0], [5.0], [7.5]]))
  except Exception as e:  # pylint: disable=broad-except
    rec['refused'] = True
    rec['error'] = '%s: %s' % (type(e).__name__, str(e)[:100])
    return rec
  rec['shape_ok'] = tuple(y.shape) == tuple(x0.shape)
  if rec['shape_ok']:
    rec['out'] = [fkey.key(v) for v in y[:, 0]]
    rec['finite'] = [bool(np.isfinite(v)) for v in y[:, 0]]
  rec['untouched'] = bool(np.array_equal(x, x0, equal_nan=True))
  # an inverse exists for complete arrays with at least two distinct values (degenerate inputs take documented shortcuts;
  # with missing entries the worst feasible value and the infeasible ones share one warped value)
  feas = [i for i, r in enumerate(ranks) if r != 0]
  if has_inv and partial and rec['shape_ok'] and max(ranks) >= 2 and all(rec['finite'][i] for i in feas):
    try:
      back = np.asarray(w.unwarp(y[feas]))           # un-warping is defined on observed values only
      rec['back_ok'] = bool(np.allclose(back[:, 0], x0[feas, 0], rtol=1e-6, atol=1e-9 * max(1.0, float(np.max(np.abs(x0[feas]))))))
    except Exception as e:  # pylint: disable=broad-except
      rec['back_ok'] = False
      rec['error'] = 'unwarp %s: %s' % (type(e).__name__, str(e)[:80])
  elif has_inv and rec['shape_ok'] and all(rec['finite']) and 0 not in ranks and max(ranks) >= 2:
    try:
      back = np.asarray(w.unwarp(y))
      obs = ~np.isnan(x0[:, 0])
      rec['back_ok'] = bool(np.allclose(back[obs, 0], x0[obs, 0], rtol=1e-6, atol=1e-9 * max(1.0, float(np.nanmax(np.abs(x0))))))
    except Exception as e:  # pylint: disable=broad-except
      rec['back_ok'] = False
      rec['error'] = 'unwarp %s: %s' % (type(e).__name__, str(e)[:80])
  return rec


def run(ctx):
  rng = random.Random(ctx.seed + 79)
  max_n = 4 if not ctx.thorough else 5
  with tlc.Scratch('c18') as d:
    cfg = os.path.join(d, 'W_enum.cfg')
    tlc.write_cfg(cfg, constants={'Mode': 'enumerate', 'MaxN': max_n}, constraints=['Dump'])
    res = tlc.must_ok(tlc.run_tlc('Warp', cfg, d, workers=4), 'Warp/enumerate')
    orders = sorted({tuple(r['ranks']) for r in res.printed_json()})
    if len(orders) != res.distinct:
      raise tlc.MachineryError('Warp enumeration incomplete')
    jobs = []
    for ranks in orders:
      for pname in pipelines():
        pals = list(PALETTES) if pname in ('default', 'warp_outliers') else rng.sample(list(PALETTES), 2)
        if not ctx.thorough and len(ranks) == max_n and pname not in ('default',):
          if rng.random() > 0.3:
            continue
        for pal in pals:
          jobs.append((ranks, pal, pname))
          if 0 in ranks:
            jobs.append((ranks, pal, pname, False, True))      # the same array with -inf for the missing entries
          # ... then the whole array, on the same instance (pipelines and their stateful components)
          if pname in ('default', 'warp_outliers', 'LogWarper', 'HalfRank') and sum(1 for r in ranks if r) >= 3 and max(ranks) >= 3:
            jobs.append((ranks, pal, pname, True))
    # a second warper made by the same factory and used in between (pipelines with an inverse)
    for ranks in orders:
      if 0 not in ranks and max(ranks) >= 2 and len(ranks) >= 3:
        jobs.append((ranks, rng.choice(list(PALETTES)), 'default', False, False, True))
    # studies of realistic size (the enumeration stops at n = max_n): saturating metrics, many ties, a few outliers
    big = [[9] * 12 + list(range(1, 9)), [1] * 12 + list(range(2, 10)), list(range(1, 21)), [5] * 10 + [0] * 3 + [1, 2, 3, 4, 6, 7, 8],
           [3] * 16 + [1, 2], [1, 2] + [3] * 14 + [0, 0], list(range(1, 16)) + [15] * 5]
    for ranks in big:
      dense = sorted(set(r for r in ranks if r))
      ranks = tuple(0 if r == 0 else dense.index(r) + 1 for r in ranks)
      for pname in pipelines():
        # (the palette 'wide' spans 10^(2 x rank) and would cover 38 orders of magnitude here: beyond what a double resolves)
        for pal in rng.sample([q for q in PALETTES if q != 'wide'], 3):
          jobs.append((ranks, pal, pname))
          if 0 in ranks:
            jobs.append((ranks, pal, pname, False, True))
    with cf.ProcessPoolExecutor(max_workers=16, mp_context=multiprocessing.get_context('fork')) as ex:
      obs = [o for o in ex.map(observe, jobs, chunksize=64) if o is not None]
    path = os.path.join(d, 'w_obs.json')
    with open(path, 'w') as f:
      json.dump([{k: v for k, v in o.items() if k not in ('error', 'palette', 'reused', 'neginf')} for o in obs], f)
    cfg2 = os.path.join(d, 'W_judge.cfg')
    tlc.write_cfg(cfg2, spec='JSpec', constants={'Mode': 'judge', 'MaxN': max_n})
    res2 = tlc.must_ok(tlc.run_tlc('Warp', cfg2, d, workers=1, env={'TRACE_FILE': path}, timeout=3000), 'Warp/judge')
    verdicts = {int(m.group(1)): m.group(2) for m in WPV.finditer(res2.out)}
    if len(verdicts) != len(obs):
      raise tlc.MachineryError('Warp judge incomplete: %d of %d\n%s' % (len(verdicts), len(obs), res2.out[-1200:]))
  counts = collections.Counter()
  for i, o in enumerate(obs):
    v = verdicts[i + 1]
    counts[(o['pipeline'], v)] += 1
    if v not in ('ok',):
      has_missing = 0 in o['ranks']
      ctx.violation({'via': 'warp', 'pipeline': o['pipeline'], 'verdict': v, 'with_missing_entries': has_missing, 'missing_as_neginf': o.get('neginf', False), 'instance_reused': o['reused']},
                    {'kind': 'warp', 'pipeline': o['pipeline'], 'ranks (0 = missing)': o['ranks'], 'palette': o['palette'],
                     'input': [None if r == 0 else PALETTES[o['palette']](r, max(o['ranks'])) for r in o['ranks']], 'error': o.get('error')})
  ctx.log('  %d weak orders with missing entries (n <= %d) -> %d warps; verdicts %s' % (len(orders), max_n, len(obs), {('%s:%s' % k): v for k, v in counts.items() if k[1] != 'ok'}))
  ctx.coverage.update({'evaluations': len(obs), 'distinct_nontrivial': len(obs), 'states': res.distinct, 'transitions': len(obs), 'traces_validated_against_impl': len(obs),
                       'rule': 'one case = (weak order with missing entries enumerated by TLC, palette, pipeline/component); all distinct; non-trivial: every array has >= 1 observed value',
                       'weak_orders': len(orders), 'max_n': max_n, 'palettes': sorted(PALETTES), 'pipelines': sorted(pipelines()),
                       'verdicts': {('%s:%s' % k): v for k, v in counts.items()}, 'exhaustive': False,
                       'exhaustive_note': 'the order structure is exhaustive for n <= max_n (default pipeline: every palette); magnitudes are a palette'})
  ctx.sample({'ranks (0 = missing)': obs[len(obs) // 2]['ranks'], 'palette': obs[len(obs) // 2]['palette'], 'pipeline': obs[len(obs) // 2]['pipeline']})
  ctx.assumptions += ['single components other than InfeasibleWarper are given complete arrays (the pipelines handle missing entries before them)',
                      'strict ranking (equal stays equal, distinct stays distinct) is required of the default pipeline and its components; no-reversal of everything']


def replay(ctx, case):
  run(ctx)
