"""C04 - Concurrent clients: every interleaving is equivalent to a serial order."""
import collections
import concurrent.futures as cf
import json
import multiprocessing
import os
import re

import verif_boot  # noqa: F401
import tlc

LEVEL = 'model_checking'
NM = {'c1': 'None'}
CONF = {'Studies': ['s1'], 'Clients': ['w1', 'w2'], 'MaxId': 3, 'Cells': ['c1'], 'Recycle': 'always'}


def sug(w, n=1, ps=('p1',), raise_=False):
  return {'rpc': 'SuggestTrials', 's': 's1', 'w': w, 'n': n, 'env': {'raise': raise_, 'ps': list(ps), 'md': dict(NM)}}


def sug_md(w, v, ps=('p1',)):
  c = sug(w, ps=ps)
  c['env']['md'] = {'c1': v}
  return c


CS = {'rpc': 'CreateStudy', 's': 's1', 'cfg': 'max1'}
REQ = {'rpc': 'CreateTrial', 's': 's1', 'p': 'p2', 'c': 'None'}
ADD = {'rpc': 'CreateTrial', 's': 's1', 'p': 'p2', 'c': 'm1'}


def comp(t, f='m1', inf=False):
  return {'rpc': 'CompleteTrial', 's': 's1', 't': t, 'f': f, 'inf': inf, 'reason': ''}


def meas(t, m):
  return {'rpc': 'AddMeasurement', 's': 's1', 't': t, 'm': m}


def md_study(v):
  return {'rpc': 'UpdateMetadata', 's': 's1', 'd': {'study': {'c1': v}, 't': 0, 't2': 0, 'trial': dict(NM)}}


def md_trial(t, v):
  return {'rpc': 'UpdateMetadata', 's': 's1', 'd': {'study': dict(NM), 't': t, 't2': 0, 'trial': {'c1': v}}}


def es(t, stop=True):
  return {'rpc': 'CheckEarlyStopping', 's': 's1', 't': t, 'env': {'raise': False, 'stop': stop}}


STOP1 = {'rpc': 'StopTrial', 's': 's1', 't': 1}
DEL1 = {'rpc': 'DeleteTrial', 's': 's1', 't': 1}
DELS = {'rpc': 'DeleteStudy', 's': 's1'}


def setst(x):
  return {'rpc': 'SetStudyState', 's': 's1', 'x': x}


P0 = [CS]
P_POOL = [CS, REQ]
P_ACT = [CS, sug('w1')]
P_ACT_POOL = [CS, sug('w1'), REQ]

# name, prefix, concurrent calls, quick preemption bound (None = every schedule)
SCENARIOS = [
    ('suggest_suggest_two_workers', P0, {'A': sug('w1'), 'B': sug('w2', ps=('p2',))}, 2),
    ('suggest_suggest_same_worker', P0, {'A': sug('w1'), 'B': sug('w1', ps=('p2',))}, 2),
    ('suggest_createtrial', P0, {'A': sug('w1'), 'B': REQ}, 2),
    ('suggest_addtrial', P0, {'A': sug('w1'), 'B': ADD}, 2),
    ('suggest_pool_deletetrial', P_POOL, {'A': sug('w1'), 'B': DEL1}, 2),
    ('suggest_pool_metadata', P_POOL, {'A': sug('w1'), 'B': md_trial(1, 'v1')}, 2),
    ('suggest_pool_two_workers', P_POOL, {'A': sug('w1'), 'B': sug('w2', ps=('p2',))}, 2),
    ('suggest_other_complete', P_ACT, {'A': sug('w2', ps=('p2',)), 'B': comp(1)}, 2),
    ('suggest_own_complete', P_ACT, {'A': sug('w1', ps=('p2',)), 'B': comp(1)}, 2),
    ('suggest_setstate', P0, {'A': sug('w1'), 'B': setst('INACTIVE')}, 2),
    ('suggest_deletestudy', P0, {'A': sug('w1'), 'B': DELS}, 2),
    ('suggest_study_metadata', P0, {'A': sug('w1'), 'B': md_study('v1')}, 2),
    # found by TLC on Spec B (VizierConcurrent.tla): the algorithm's own study metadata vs a study-state change
    ('suggest_algometa_setstate', P0, {'A': sug_md('w1', 'v2'), 'B': setst('INACTIVE')}, None),
    ('suggest_algometa_study_metadata', P0, {'A': sug_md('w1', 'v2'), 'B': md_study('v1')}, 2),
    # a stateful algorithm (next persisted state = successor of the stored one): two overlapping suggests must advance it twice
    ('suggest_suggest_stateful', P0, {'A': sug_md('w1', 'inc'), 'B': sug_md('w2', 'inc', ps=('p2',))}, 2),
    ('suggest_earlystop', P_ACT, {'A': sug('w2', ps=('p2',)), 'B': es(1)}, 2),
    ('complete_stop', P_ACT, {'A': comp(1), 'B': STOP1}, None),
    ('complete_complete', P_ACT, {'A': comp(1, 'm1'), 'B': comp(1, 'm2')}, None),
    ('complete_measure', P_ACT, {'A': comp(1, 'None'), 'B': meas(1, 'm2')}, None),
    ('measure_measure', P_ACT, {'A': meas(1, 'm1'), 'B': meas(1, 'm2')}, None),
    ('measure_setstate', P_ACT, {'A': meas(1, 'm1'), 'B': setst('INACTIVE')}, None),
    ('measure_trial_metadata', P_ACT, {'A': meas(1, 'm1'), 'B': md_trial(1, 'v1')}, None),
    ('complete_trial_metadata', P_ACT, {'A': comp(1), 'B': md_trial(1, 'v1')}, None),
    ('stop_trial_metadata', P_ACT, {'A': STOP1, 'B': md_trial(1, 'v1')}, None),
    ('metadata_metadata_study', P0, {'A': md_study('v1'), 'B': md_study('v2')}, None),
    ('setstate_study_metadata', P0, {'A': setst('INACTIVE'), 'B': md_study('v1')}, None),
    ('setstate_setstate', P0, {'A': setst('INACTIVE'), 'B': setst('COMPLETED')}, None),
    ('createstudy_createstudy', [], {'A': CS, 'B': dict(CS, cfg='min1')}, None),
    ('createtrial_createtrial', P0, {'A': REQ, 'B': ADD}, None),
    ('delete_complete', P_ACT, {'A': DEL1, 'B': comp(1)}, None),
    ('delete_measure', P_ACT, {'A': DEL1, 'B': meas(1, 'm1')}, None),
    ('deletestudy_createtrial', P0, {'A': DELS, 'B': REQ}, None),
    ('deletestudy_complete', P_ACT, {'A': DELS, 'B': comp(1)}, None),
    ('earlystop_complete', P_ACT, {'A': es(1), 'B': comp(1)}, None),
    ('earlystop_earlystop', P_ACT, {'A': es(1, True), 'B': es(1, False)}, 2),
    ('earlystop_stop', P_ACT, {'A': es(1), 'B': STOP1}, None),
]
# Races INSIDE the datastore: the SQL datastore shares one connection, and a rollback issued on behalf of one client
# (CreateStudy for an existing owner, a refused UpdateMetadata) discards whatever another client has written but not yet
# committed.  These scenarios run on SQLite with an extra yield point at every release of the datastore's own lock.
CONF2 = {'Studies': ['s1', 's2'], 'Clients': ['w1'], 'MaxId': 3, 'Cells': ['c1'], 'Recycle': 'always'}
CS2 = {'rpc': 'CreateStudy', 's': 's2', 'cfg': 'max1'}
BADMD = {'rpc': 'UpdateMetadata', 's': 's1', 'd': {'study': dict(NM), 't': 3, 't2': 0, 'trial': {'c1': 'v1'}}}
INNER = [
    ('inner_setstate_createstudy2', P0, {'A': setst('INACTIVE'), 'B': CS2}, 3),
    ('inner_measure_createstudy2', P_ACT, {'A': meas(1, 'm1'), 'B': CS2}, 3),
    ('inner_complete_refusedmetadata', P_ACT, {'A': comp(1), 'B': BADMD}, 3),
    ('inner_studymetadata_createstudy2', P0, {'A': md_study('v1'), 'B': CS2}, 3),
    ('inner_stop_refusedmetadata', P_ACT, {'A': STOP1, 'B': BADMD}, 3),
    # a check and the write it guards in two critical sections of the datastore: DeleteStudy (no service-level lock) lands between
    ('inner_deletestudy_createtrial', P0, {'A': DELS, 'B': REQ}, 3),
    ('inner_deletestudy_suggest', P0, {'A': DELS, 'B': sug('w1')}, 3),
    # RAM: copies made after the datastore lock was released read live tables (the extra yield point is every deepcopy made
    # while the lock is NOT held - none on today's code)
    ('inner_ram_listtrials_createtrial', P_POOL, {'A': {'rpc': 'ListTrials', 's': 's1'}, 'B': REQ}, 3),
    ('inner_ram_listtrials_deletetrial', P_POOL, {'A': {'rpc': 'ListTrials', 's': 's1'}, 'B': DEL1}, 3),
    ('inner_ram_suggest_createtrial', P_POOL, {'A': sug('w1'), 'B': REQ}, 2),
]
TRIPLES = [
    ('three_suggest_create_complete', P_ACT, {'A': sug('w2', ps=('p2',)), 'B': REQ, 'C': comp(1)}, 1),
    ('three_measure_measure_complete', P_ACT, {'A': meas(1, 'm1'), 'B': meas(1, 'm2'), 'C': comp(1, 'None')}, 2),
    ('three_workers_suggest', P_POOL, {'A': sug('w1'), 'B': sug('w2', ps=('p2',)), 'C': REQ}, 1),
]

_G = {}


def run_schedule(args):
  """One controlled execution: returns (schedule actually run, events, deadlock info, labels)."""
  name, prefix, calls, schedule, backend = args
  import sched
  import threading
  import world
  inner = name.startswith('inner_')
  w = world.World(CONF2 if inner else CONF, backend=backend)
  events = []
  for c in prefix:
    events.append({'ev': 'invoke', 'th': 'P', 'call': c})
    r = w.run(c)
    r.pop('exc', None)
    events.append({'ev': 'return', 'th': 'P', 'resp': r})
  s = sched.Sched(schedule)
  restore = sched.instrument(w.svc, s)
  if inner:
    real_ds = w.svc.datastore._i        # behind the scheduler's proxy
    real_lock = real_ds._lock

    held = []

    class ReleaseYieldLock:
      """The datastore's own lock, plus a yield point right after every release (only one thread runs at a time)."""

      def __enter__(self):
        real_lock.acquire()
        held.append(1)
        return self

      def __exit__(self, *a):
        if held:
          held.pop()
        real_lock.release()
        tid = getattr(threading.current_thread(), 'verif_tid', None)
        if tid is not None:
          s.yield_point(tid, ('ds-lock', 'released'))

      def acquire(self, *a, **k):
        return real_lock.acquire(*a, **k)

      def release(self):
        self.__exit__()
    real_ds._lock = ReleaseYieldLock()
    if backend == 'ram':
      import copy as _copy
      from vizier._src.service import ram_datastore as _ram

      class YieldingCopy:
        """ram_datastore's 'copy' module: a deepcopy made while the datastore lock is not held is a yield point."""

        @staticmethod
        def deepcopy(x, *a, **k):
          tid = getattr(threading.current_thread(), 'verif_tid', None)
          if tid is not None and not held:
            s.yield_point(tid, ('ds-copy', 'unlocked'))
          return _copy.deepcopy(x, *a, **k)

        copy = staticmethod(_copy.copy)
      _ram.copy = YieldingCopy
  lock = threading.Lock()

  def mk(tid, c):
    def g():
      r = w.run(c)
      detail = r.pop('exc', None)
      with lock:
        events.append({'ev': 'return', 'th': tid, 'resp': r, 'detail': detail})
    return g
  for tid in sorted(calls):
    events.append({'ev': 'invoke', 'th': tid, 'call': calls[tid]})
  deadlock = None
  try:
    s.run({tid: mk(tid, c) for tid, c in calls.items()})
  except sched.Deadlock as e:
    deadlock = str(e)
  restore()
  if inner and backend == 'ram':
    import copy as _copy2
    from vizier._src.service import ram_datastore as _ram2
    _ram2.copy = _copy2
  if deadlock is None:
    # a deleted study is created again before the final state is read: rows that outlived their study become visible
    for c in ([CS] if any(x['rpc'] == 'DeleteStudy' for x in calls.values()) else []):
      events.append({'ev': 'invoke', 'th': 'P', 'call': c})
      r = w.run(c)
      r.pop('exc', None)
      events.append({'ev': 'return', 'th': 'P', 'resp': r})
    events.append({'ev': 'final', 'post': w.project()})
  return [c[0] for c in s.choices], s.choices, events, deadlock, s.labels


def explore_scenario(job):
  name, prefix, calls, bound, backend, limit = job
  import sched

  def one(schedule):
    actual, choices, events, deadlock, labels = run_schedule((name, prefix, calls, schedule, backend))
    return (events, deadlock, labels), choices
  out = []
  for schedule, (events, deadlock, labels) in sched.explore(one, bound=bound, limit=limit):
    out.append((schedule, events, deadlock, labels))
  return name, out


POS_RE = re.compile(r'<<"POS", (\d+), (\d+)>>')


def _judge_chunk(args):
  traces, workdir, name = args
  CONF = CONF2 if name.startswith('inner') else globals()['CONF']
  path = os.path.join(workdir, name + '.lin.json')
  with open(path, 'w') as f:
    json.dump(traces, f)
  consts = {'Studies': set(CONF['Studies']), 'Clients': set(CONF['Clients']), 'MaxId': CONF['MaxId'], 'Cells': set(CONF['Cells']),
            'Recycle': CONF['Recycle']}
  cfg = os.path.join(workdir, name + '.lin.cfg')
  tlc.write_cfg(cfg, constants=consts, constraints=['Pos'])
  res = tlc.must_ok(tlc.run_tlc('VizierLin', cfg, workdir, workers=4, env={'TRACE_FILE': path}, timeout=3000), 'VizierLin/' + name)
  mx = collections.defaultdict(int)
  for m in POS_RE.finditer(res.out):
    mx[int(m.group(1))] = max(mx[int(m.group(1))], int(m.group(2)))
  os.unlink(path)
  return [mx[i + 1] == len(t) + 1 for i, t in enumerate(traces)], [mx[i + 1] for i in range(len(traces))], res.distinct, res.generated


class _Res:
  pass


def judge(traces, workdir, name, chunk=4000):
  """Validates the traces with VizierLin.tla, a few thousand per TLC run, four runs at a time."""
  jobs = [(traces[k:k + chunk], workdir, '%s_%d' % (name, k // chunk)) for k in range(0, len(traces), chunk)]
  accepted, reach = [], []
  tot = _Res()
  tot.distinct = tot.generated = 0
  with cf.ThreadPoolExecutor(max_workers=4) as ex:
    for a, r, d, g in ex.map(_judge_chunk, jobs):
      accepted += a
      reach += r
      tot.distinct += d
      tot.generated += g
  return accepted, reach, tot


def symptom(events, calls, deadlock):
  if deadlock:
    return 'deadlock'
  errs = {e['th']: e['resp']['err'] for e in events if e['ev'] == 'return' and e['th'] != 'P'}
  bad = sorted('%s:%s' % (calls[t]['rpc'], v) for t, v in errs.items() if v != 'None')
  post = events[-1].get('post', {})
  undone = any(not op['done'] for s in post.get('ops', {}).values() for w in s.values() for op in w)
  es_active = any(e.get('status') == 'ACTIVE' for s in post.get('es', {}).values() for e in s)
  out = ','.join(bad) if bad else 'no-error'
  if undone:
    out += '+unfinished-operation'
  if es_active:
    out += '+active-es-operation'
  return out


def spec_b(ctx, d):
  """Layer 1: TLC on the lock-protocol model (VizierConcurrent.tla / MCB.tla): every interleaving of every scenario."""
  out = {}
  for name, procs, scen in (('pairs', {'A', 'B'}, 'MCScenarios2'), ('triples', {'A', 'B', 'C'}, 'MCScenarios3')):
    cfg = os.path.join(d, 'B_%s.cfg' % name)
    with open(cfg, 'w') as f:
      f.write('SPECIFICATION Spec\nCONSTANTS\n  Studies = {"s1"}\n  Clients = {"w1", "w2"}\n  MaxId = 4\n  Cells = {"c1"}\n  Recycle = "always"\n'
              '  Procs = %s\n  Scenarios <- %s\nCONSTRAINT SerReport\nCONSTRAINT StuckReport\nINVARIANT LocksFreeAtEnd\nPROPERTY Termination\nCHECK_DEADLOCK FALSE\n'
              % (tlc.tla_value(procs), scen))
    res = tlc.must_ok(tlc.run_tlc('MCB', cfg, d, workers=8, timeout=3000), 'MCB/' + name)
    reports = re.findall(r'<< "(NONSER|STUCK)",\s*"(\w+)",\s*(\[[^\]]*\]),\s*(\[[^\]]*\]) >>', res.out)
    out[name] = {'distinct_states': res.distinct, 'generated': res.generated, 'violated': res.violated, 'reports': len(reports)}
    for kind, scen_name, calls, results in {r for r in reports}:
      ctx.violation({'via': 'specB', 'kind': kind, 'calls': re.sub(r'\s+', ' ', calls)},
                    {'kind': 'specB', 'what': 'design-level: some interleaving of the lock protocol model is not explained by any serial order' if kind == 'NONSER'
                     else 'design-level: an operation is left unfinished', 'scenario_prefix': scen_name, 'calls': re.sub(r'\s+', ' ', calls), 'results': re.sub(r'\s+', ' ', results)})
    for v in res.violated:
      ctx.violation({'via': 'specB', 'kind': v}, {'kind': 'specB', 'what': 'model property violated: ' + v, 'trace': res.trace_text()[:3000]})
    ctx.log('Spec B %s: %d distinct states, every interleaving serializable / terminating: %s' % (name, res.distinct, not reports and not res.violated))
  return out


def run(ctx, only=None):
  import world  # noqa: F401
  cov = ctx.coverage
  scen = list(SCENARIOS) + (TRIPLES if ctx.thorough else TRIPLES[:1]) + INNER
  if only:
    scen = [s for s in scen if s[0] == only]
  backends = ['ram', 'sqlmem'] if ctx.thorough else ['ram']
  jobs = []
  for name, prefix, calls, qbound in scen:
    for b in (['ram'] if name.startswith('inner_ram_') else ['sqlmem'] if name.startswith('inner_') else backends if 'deletestudy' not in name else ['ram', 'sqlmem']):
      bound = qbound if not ctx.thorough else (None if len(calls) == 2 else 2)
      limit = 4000 if not ctx.thorough else 20000
      if b == 'sqlmem' and bound is None and len(calls) == 2 and any(c['rpc'] == 'SuggestTrials' for c in calls.values()):
        bound = 3
      jobs.append((name, prefix, calls, bound, b, limit))
  total = 0
  rejected_total = 0
  cov['scenarios'] = []
  with tlc.Scratch('c04') as d:
    if not only:
      cov['spec_b'] = spec_b(ctx, d)
    with cf.ProcessPoolExecutor(max_workers=16, mp_context=multiprocessing.get_context('fork')) as ex:
      results = list(ex.map(explore_scenario, jobs))
    all_traces = []
    index = []
    for (name, prefix, calls, bound, b, limit), (_, out) in zip(jobs, results):
      for schedule, events, deadlock, labels in out:
        total += 1
        if deadlock:
          ctx.violation({'via': 'schedule', 'pair': pair_name(calls), 'symptom': 'deadlock'},
                        {'kind': 'schedule', 'scenario': name, 'backend': b, 'schedule': schedule, 'deadlock': deadlock, 'prefix': prefix, 'calls': calls})
          continue
        clean = [{k: v for k, v in e.items() if k != 'detail'} for e in events]
        all_traces.append(clean)
        index.append((name, b, schedule, events, labels, calls, prefix))
      cov['scenarios'].append({'name': name, 'backend': b, 'schedules': len(out), 'preemption_bound': bound,
                               'yield_points': {t: sum(1 for x in out[0][3] if x[0] == t) for t in calls} if out else {}})
    ctx.log('explored %d schedules of %d scenarios on the real servicer' % (total, len(jobs)))
    # the datastore-race scenarios have their own constants (two studies): judged in their own TLC runs
    is_inner = [ix[0].startswith('inner_') for ix in index]
    main_t = [t for t, f in zip(all_traces, is_inner) if not f]
    inner_t = [t for t, f in zip(all_traces, is_inner) if f]
    acc_m, reach_m, res = judge(main_t, d, 'all') if main_t else ([], [], _Res())
    if not main_t:
      res.distinct = res.generated = 0
    acc_i, reach_i, res_i = judge(inner_t, d, 'inner') if inner_t else ([], [], None)
    if res_i is not None:
      res.distinct += res_i.distinct
      res.generated += res_i.generated
    it_m, it_i = iter(zip(acc_m, reach_m)), iter(zip(acc_i, reach_i))
    merged = [next(it_i) if f else next(it_m) for f in is_inner]
    accepted, reach = [m[0] for m in merged], [m[1] for m in merged]
    per = collections.Counter()
    for ok, pos, (name, b, schedule, events, labels, calls, prefix) in zip(accepted, reach, index):
      if ok:
        continue
      rejected_total += 1
      per[name] += 1
      sym = symptom(events, calls, None)
      ctx.violation({'via': 'schedule', 'pair': pair_name(calls), 'symptom': sym},
                    {'kind': 'schedule', 'scenario': name, 'backend': b, 'schedule': schedule, 'prefix': prefix, 'calls': calls,
                     'rejected_at_event': pos, 'events': events, 'yield_sequence': labels})
    for s in cov['scenarios']:
      s['rejected'] = per.get(s['name'], 0) if s['backend'] == 'ram' or True else 0
    ctx.log('VizierLin: %d traces, %d rejected (%s); TLC %d states' % (len(all_traces), rejected_total, dict(per), res.distinct))
    sb = cov.get('spec_b', {})
    cov.update({'states': res.distinct + sum(v['distinct_states'] for v in sb.values()), 'transitions': res.generated + sum(v['generated'] for v in sb.values()),
                'traces_validated_against_impl': len(all_traces)})
    if not only:
      # lock identity: one accepted spelling per resource (spec/ResourceNames.tla)
      import c04_names
      nl = c04_names.run(ctx, d)
      cov['states'] += nl['distinct_states']
      cov['traces_validated_against_impl'] += nl['parses_replayed']
    if index:
      name, b, schedule, events, labels, calls, prefix = index[len(index) // 2]
      ctx.sample({'scenario': name, 'schedule': ''.join(schedule), 'yield_sequence': ['%s:%s' % x for x in labels][:30]})
  cov['evaluations'] = total
  cov['distinct_nontrivial'] = total
  cov['rule'] = ('one case = one schedule (sequence of thread choices at datastore-call / lock-acquisition yield points) of one scenario executed on the '
                 'real servicer; distinct by the executed choice sequence; every case runs at least two state-changing calls concurrently')
  cov['exhaustive'] = False
  cov['exhaustive_note'] = 'all schedules for pairs without SuggestTrials; preemption-bounded (2) for pairs with SuggestTrials in quick, all in thorough'


def pair_name(calls):
  return '|'.join(sorted(c['rpc'] for c in calls.values()))


def replay(ctx, case):
  c = case['case']
  if c.get('kind') == 'resource-name':
    import c04_names
    return c04_names.replay(ctx, c)
  actual, choices, events, deadlock, labels = run_schedule((c['scenario'], c['prefix'], c['calls'], c['schedule'], c['backend']))
  with tlc.Scratch('c04') as d:
    if deadlock:
      ctx.violation({'via': 'schedule', 'symptom': 'deadlock'}, c)
    else:
      clean = [{k: v for k, v in e.items() if k != 'detail'} for e in events]
      accepted, reach, res = judge([clean], d, 'replay')
      if not accepted[0]:
        ctx.violation({'via': 'schedule', 'pair': pair_name(c['calls']), 'symptom': symptom(events, c['calls'], None)}, c)
        print('replay: schedule still not serializable (rejected at event %d): %s' % (reach[0], [e.get('resp') for e in events if e['ev'] == 'return']))
      else:
        print('replay: schedule now serializable')
  ctx.coverage.update({'states': 1, 'transitions': 1, 'traces_validated_against_impl': 1})
