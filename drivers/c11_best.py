"""C11: InRamPolicySupporter.GetBestTrials and clients.Study.optimal_trials against Pareto.tla's fronts.

Reuses the multisets TLC enumerated for (D=1,2): each point becomes a completed trial; goals MAXIMIZE/MINIMIZE mixes
are realised by negating coordinates, so the expected front is TLC's.
"""
import os
import random

import verif_boot  # noqa: F401
import numpy as np
import tlc


def run(ctx):
  from vizier import pyvizier as vz
  from vizier._src.pythia import local_policy_supporters as lps
  rng = random.Random(ctx.seed + 9)
  stats = {'studies': 0, 'queries': 0}
  spaces = [(1, 3, 3), (2, 3, 3)] if not ctx.thorough else [(1, 3, 4), (2, 3, 4), (3, 2, 3)]
  with tlc.Scratch('best') as d:
    for (D, V, N) in spaces:
      cfg = os.path.join(d, 'B_%d_%d_%d.cfg' % (D, V, N))
      tlc.write_cfg(cfg, constants={'D': D, 'V': V, 'MaxN': N}, constraints=['Dump'])
      res = tlc.must_ok(tlc.run_tlc('Pareto', cfg, d, workers=4), 'Pareto/best')
      recs = [r for r in res.printed_json() if r['ps']]
      for rec in recs:
        for goals in ([('MAXIMIZE',) * D] + ([tuple(rng.choice(['MAXIMIZE', 'MINIMIZE']) for _ in range(D))])):
          problem = vz.ProblemStatement()
          problem.search_space.root.add_float_param('x', 0.0, 1.0)
          for k, g in enumerate(goals):
            problem.metric_information.append(vz.MetricInformation('m%d' % k, goal=getattr(vz.ObjectiveMetricGoal, g)))
          sup = lps.InRamPolicySupporter(problem)
          trials = []
          for p in rec['ps']:
            t = vz.Trial(parameters={'x': rng.random()})
            t.complete(vz.Measurement({('m%d' % k): (float(v) if g == 'MAXIMIZE' else -float(v)) for k, (v, g) in enumerate(zip(p, goals))}))
            trials.append(t)
          # extra trials that must never be reported
          inf_t = vz.Trial(parameters={'x': 0.5})
          inf_t.complete(vz.Measurement(), infeasibility_reason='infeasible')
          act = vz.Trial(parameters={'x': 0.25})
          order = list(range(len(trials)))
          rng.shuffle(order)
          sup.AddTrials([trials[i] for i in order] + [inf_t, act])
          stats['studies'] += 1
          exp_ids = sorted(trials[i].id for i in range(len(trials)) if rec['front'][i])
          got = sorted(t.id for t in sup.GetBestTrials())
          stats['queries'] += 1
          if got != exp_ids:
            ctx.violation({'via': 'GetBestTrials', 'objectives': D, 'count': 'unset',
                           'what': 'fewer' if set(got) < set(exp_ids) else 'other'},
                          {'kind': 'best', 'points': rec['ps'], 'goals': goals, 'expected_front_ids': exp_ids, 'observed_ids': got})
          if D >= 2:
            got1 = [t.id for t in sup.GetBestTrials(count=1)]
            stats['queries'] += 1
            if len(got1) != 1 or got1[0] not in exp_ids:
              ctx.violation({'via': 'GetBestTrials', 'objectives': D, 'count': 1, 'what': 'not-on-front'},
                            {'kind': 'best', 'points': rec['ps'], 'goals': goals, 'expected_front_ids': exp_ids, 'observed_ids': got1})
          else:
            k = rng.randint(1, len(trials))
            gotk = [t.id for t in sup.GetBestTrials(count=k)]
            stats['queries'] += 1
            vals = sorted((p[0] for p in rec['ps']), reverse=True)
            gv = sorted((rec['ps'][[t.id for t in trials].index(i)][0] for i in gotk), reverse=True) if all(i in [t.id for t in trials] for i in gotk) else None
            if gv != vals[:k]:
              ctx.violation({'via': 'GetBestTrials', 'objectives': D, 'count': 'k', 'what': 'not-top-k'},
                            {'kind': 'best', 'points': rec['ps'], 'goals': goals, 'k': k, 'observed_ids': gotk})
  ctx.coverage['best_trials'] = stats
  ctx.coverage['traces_validated_against_impl'] = ctx.coverage.get('traces_validated_against_impl', 0) + stats['queries']
  ctx.log('  GetBestTrials: %s' % stats)
