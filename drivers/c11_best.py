"""C11: InRamPolicySupporter.GetBestTrials and clients.Study.optimal_trials against Pareto.tla's fronts.

Reuses the multisets TLC enumerated for (D=1,2): each point becomes a completed trial; goals MAXIMIZE/MINIMIZE mixes
are realised by negating coordinates, so the expected front is TLC's.
"""
import os
import random

import verif_boot  # noqa: F401
import numpy as np
import tlc


def run(ctx):
  from vizier import pyvizier as vz
  from vizier._src.pythia import local_policy_supporters as lps
  rng = random.Random(ctx.seed + 9)
  stats = {'studies': 0, 'queries': 0}
  spaces = [(1, 3, 3), (2, 3, 3)] if not ctx.thorough else [(1, 3, 4), (2, 3, 4), (3, 2, 3)]
  with tlc.Scratch('best') as d:
    for (D, V, N) in spaces:
      cfg = os.path.join(d, 'B_%d_%d_%d.cfg' % (D, V, N))
      tlc.write_cfg(cfg, constants={'D': D, 'V': V, 'MaxN': N}, constraints=['Dump'])
      res = tlc.must_ok(tlc.run_tlc('Pareto', cfg, d, workers=4), 'Pareto/best')
      recs = [r for r in res.printed_json() if r['ps']]
      for rec in recs:
        for goals in ([('MAXIMIZE',) * D] + ([tuple(rng.choice(['MAXIMIZE', 'MINIMIZE']) for _ in range(D))])):
          problem = vz.ProblemStatement()
          problem.search_space.root.add_float_param('x', 0.0, 1.0)
          for k, g in enumerate(goals):
            problem.metric_information.append(vz.MetricInformation('m%d' % k, goal=getattr(vz.ObjectiveMetricGoal, g)))
          sup = lps.InRamPolicySupporter(problem)
          trials = []
          for p in rec['ps']:
            t = vz.Trial(parameters={'x': rng.random()})
            t.complete(vz.Measurement({('m%d' % k): (float(v) if g == 'MAXIMIZE' else -float(v)) for k, (v, g) in enumerate(zip(p, goals))}))
            trials.append(t)
          # extra trials that must never be reported
          inf_t = vz.Trial(parameters={'x': 0.5})
          inf_t.complete(vz.Measurement(), infeasibility_reason='infeasible')
          # an infeasible trial that nevertheless carries (excellent) metric values
          inf2 = vz.Trial(parameters={'x': 0.75})
          inf2.complete(vz.Measurement({('m%d' % k): (99.0 if g == 'MAXIMIZE' else -99.0) for k, g in enumerate(goals)}), infeasibility_reason='infeasible')
          act = vz.Trial(parameters={'x': 0.25})
          order = list(range(len(trials)))
          rng.shuffle(order)
          extra = [inf_t, inf2, act]
          rng.shuffle(extra)
          k0 = rng.randint(0, len(order))
          sup.AddTrials([trials[i] for i in order[:k0]] + extra + [trials[i] for i in order[k0:]])
          stats['studies'] += 1
          exp_ids = sorted(trials[i].id for i in range(len(trials)) if rec['front'][i])
          got = sorted(t.id for t in sup.GetBestTrials())
          stats['queries'] += 1
          if got != exp_ids:
            ctx.violation({'via': 'GetBestTrials', 'objectives': D, 'count': 'unset',
                           'what': 'fewer' if set(got) < set(exp_ids) else 'other'},
                          {'kind': 'best', 'points': rec['ps'], 'goals': goals, 'expected_front_ids': exp_ids, 'observed_ids': got})
          if D >= 2:
            got1 = [t.id for t in sup.GetBestTrials(count=1)]
            stats['queries'] += 1
            if len(got1) != 1 or got1[0] not in exp_ids:
              ctx.violation({'via': 'GetBestTrials', 'objectives': D, 'count': 1, 'what': 'not-on-front'},
                            {'kind': 'best', 'points': rec['ps'], 'goals': goals, 'expected_front_ids': exp_ids, 'observed_ids': got1})
          else:
            k = rng.randint(1, len(trials))
            gotk = [t.id for t in sup.GetBestTrials(count=k)]
            stats['queries'] += 1
            vals = sorted((p[0] for p in rec['ps']), reverse=True)
            gv = sorted((rec['ps'][[t.id for t in trials].index(i)][0] for i in gotk), reverse=True) if all(i in [t.id for t in trials] for i in gotk) else None
            if gv != vals[:k]:
              ctx.violation({'via': 'GetBestTrials', 'objectives': D, 'count': 'k', 'what': 'not-top-k'},
                            {'kind': 'best', 'points': rec['ps'], 'goals': goals, 'k': k, 'observed_ids': gotk})
      # ---- the query repeated while the study evolves: some trials are still pending at the first query and complete
      # (in place, as the runner does) before the second one; the answer must follow the current state
      for rec in rng.sample(recs, min(len(recs), 40 if not ctx.thorough else 200)):
        n = len(rec['ps'])
        if n < 2:
          continue
        problem = vz.ProblemStatement()
        problem.search_space.root.add_float_param('x', 0.0, 1.0)
        for k in range(D):
          problem.metric_information.append(vz.MetricInformation('m%d' % k, goal=vz.ObjectiveMetricGoal.MAXIMIZE))
        sup = lps.InRamPolicySupporter(problem)
        pend = set(rng.sample(range(n), rng.randint(1, n - 1)))
        trials = []
        for i, p in enumerate(rec['ps']):
          t = vz.Trial(parameters={'x': rng.random()})
          if i not in pend:
            t.complete(vz.Measurement({('m%d' % k): float(v) for k, v in enumerate(p)}))
          trials.append(t)
        sup.AddTrials(trials)
        stats['studies'] += 1

        def front_of(idx):
          pts = [rec['ps'][i] for i in idx]
          return sorted(trials[i].id for i in idx
                        if not any(all(a >= b for a, b in zip(q, rec['ps'][i])) and any(a > b for a, b in zip(q, rec['ps'][i])) for q in pts))
        done = [i for i in range(n) if i not in pend]
        got_a = sorted(t.id for t in sup.GetBestTrials())
        stats['queries'] += 1
        if got_a != front_of(done):
          ctx.violation({'via': 'GetBestTrials', 'objectives': D, 'count': 'unset', 'what': 'with-pending-trials'},
                        {'kind': 'best-evolving', 'points': rec['ps'], 'pending': sorted(pend), 'expected_front_ids': front_of(done), 'observed_ids': got_a})
        stored = {t.id: t for t in sup.trials}
        for i in sorted(pend):
          stored[trials[i].id].complete(vz.Measurement({('m%d' % k): float(v) for k, v in enumerate(rec['ps'][i])}))
        got_b = sorted(t.id for t in sup.GetBestTrials())
        stats['queries'] += 1
        exp_b = sorted(trials[i].id for i in range(n) if rec['front'][i])          # the whole multiset: TLC's front
        if got_b != exp_b:
          ctx.violation({'via': 'GetBestTrials', 'objectives': D, 'count': 'unset', 'what': 'after-pending-trials-completed'},
                        {'kind': 'best-evolving', 'points': rec['ps'], 'pending_then_completed': sorted(pend), 'expected_front_ids': exp_b, 'observed_ids': got_b})
  ctx.coverage['best_trials'] = stats
  ctx.coverage['traces_validated_against_impl'] = ctx.coverage.get('traces_validated_against_impl', 0) + stats['queries']
  ctx.log('  GetBestTrials: %s' % stats)
