"""C01 / C02 / C10, additional trace source: the repository's OWN service tests, recorded and judged.

lib/rectrace_plugin.py (a pytest plugin, no repository hook) records every top-level RPC of every servicer the tests
create, with the whole stored state before and after.  This driver abstracts each event into the vocabulary of
VizierAtomic (interned tokens) and lets TLC judge it with spec/VizierTraceLite.tla: the step predicates of C01 / C02 /
C10 on (pre, call, response, post).  A rejected event is attributed to the property named by the failing clause.
"""
import collections
import glob
import json
import os
import re
import subprocess
import sys

import tlc

VERIF = os.path.dirname(os.path.dirname(os.path.abspath(__file__)))
TESTS_QUICK = ['vizier/_src/service/vizier_service_test.py', 'vizier/_src/service/service_policy_supporter_test.py',
               'vizier/_src/service/clients_test.py']
TESTS_THOROUGH = TESTS_QUICK + ['vizier/_src/service/vizier_client_test.py', 'vizier/_src/algorithms/policies/designer_policy_test.py',
                                'vizier/_src/algorithms/policies/random_policy_test.py']
K_STUDIES, K_CLIENTS, K_IDS, K_CELLS = 3, 4, 30, 8
RPC_NAME = {'AddTrialMeasurement': 'AddMeasurement', 'CheckTrialEarlyStoppingState': 'CheckEarlyStopping'}
ES_STATUS = {'ACTIVE': 'ACTIVE', 'DONE': 'DONE', 'FAILED': 'FAILED'}
LV = re.compile(r'<<"LV", (\d+), "(\w+)">>')


def record(repo, outdir, tests, timeout):
  env = dict(os.environ, VERIF_RECORD_DIR=outdir, VERIF_REPO=repo,
             PYTHONPATH=os.pathsep.join([os.path.join(VERIF, 'envshim'), os.path.join(VERIF, 'lib')]))
  cmd = [sys.executable, '-m', 'pytest', '-q', '-p', 'vbplugin', '-p', 'rectrace_plugin', '-p', 'no:cacheprovider',
         '-k', 'not e2e_tuning and not Performance', '--timeout=600'] + tests
  p = subprocess.run(cmd, cwd=repo, env=env, capture_output=True, text=True, timeout=timeout)
  tail = (p.stdout or '').strip().splitlines()[-1:] or ['']
  return p.returncode, tail[0]


class Interner:

  def __init__(self, prefix):
    self.prefix, self.table = prefix, {}

  def __call__(self, x):
    key = json.dumps(x, sort_keys=True)
    if key not in self.table:
      self.table[key] = '%s%d' % (self.prefix, len(self.table) + 1)
    return self.table[key]


class Skip(Exception):
  pass


def kv_cell(kv):
  return (kv.get('ns', ''), kv.get('key', ''))


def kv_value(kv):
  return kv['value'] if 'value' in kv else ('proto:' + json.dumps(kv.get('proto'), sort_keys=True) if 'proto' in kv else '')


class Abstraction:
  """One event -> the model's vocabulary.  Token tables are per run (shared by all events)."""

  def __init__(self):
    self.params, self.meas, self.cfg, self.val = Interner('p'), Interner('m'), Interner('cfg'), Interner('v')

  def event(self, ev):
    if 'pre' not in ev or 'post' not in ev:
      raise Skip('no snapshot')
    names = []
    for snap in (ev['pre'], ev['post']):
      for owner, od in snap.items():
        if od and '_error' in od:
          raise Skip('snapshot error')
        for sname in (od or {}):
          if sname not in names:
            names.append(sname)
    req = ev['request']
    target = req.get('parent') or req.get('name') or req.get('trial_name') or ''
    m = re.match(r'^(owners/[^/]+/studies/[^/]+)', target)
    sname = m.group(1) if m else None
    if ev['rpc'] == 'CreateStudy':
      sname = (ev.get('response') or {}).get('name') or sname
    if sname and sname not in names:
      names.append(sname)
    if len(names) > K_STUDIES:
      # a servicer shared by many tests: judge the study the call names and the first few others (isolation witnesses)
      names = (([sname] if sname else []) + [n for n in sorted(names) if n != sname])[:K_STUDIES]
    clients, cells, ids = [], [], [0]
    for snap in (ev['pre'], ev['post']):
      for owner, od in snap.items():
        for n2, sd in (od or {}).items():
          if n2 not in names:
            continue
          for kv in sd['study'].get('study_spec', {}).get('metadata', []):
            cells.append(kv_cell(kv))
          for t in sd['trials']:
            ids.append(int(t['id']))
            if t.get('client_id'):
              clients.append(t['client_id'])
            for kv in t.get('metadata', []):
              cells.append(kv_cell(kv))
          clients += list(sd['ops'])
    if req.get('client_id'):
      clients.append(req['client_id'])
    tm = re.match(r'^owners/[^/]+/studies/[^/]+/trials/(\d+)$', req.get('name', '') or req.get('trial_name', '') or '')
    tid = int(tm.group(1)) if tm else 0
    ids.append(tid)
    clients = sorted(set(clients))
    cells = sorted(set(cells))
    if len(clients) > K_CLIENTS or max(ids) > K_IDS or len(cells) > K_CELLS:
      raise Skip('beyond the bounds of the trace model (%d clients, max id %d, %d cells)' % (len(clients), max(ids), len(cells)))
    self.S = {n: 's%d' % (k + 1) for k, n in enumerate(names)}
    self.W = {c: 'w%d' % (k + 1) for k, c in enumerate(clients)}
    self.C = {c: 'c%d' % (k + 1) for k, c in enumerate(cells)}
    pre, post = self.state(ev['pre']), self.state(ev['post'])
    rpc = RPC_NAME.get(ev['rpc'], ev['rpc'])
    call = {'rpc': rpc, 's': self.S.get(sname, 's1'), 't': tid if tid else 1, 'w': self.W.get(req.get('client_id', ''), 'w1'),
            'n': int(req.get('suggestion_count', 1) or 1)}
    s = call['s']
    new_ids = [k + 1 for k in range(K_IDS) if 'absent' in pre['trial'][s][k] and 'absent' not in post['trial'][s][k]]
    call['env'] = {'raise': False, 'ps': ['p'] * len(new_ids)}
    err = 'None' if 'error' not in ev else {'NotFoundError': 'NotFound', 'ImmutableStudyError': 'FailedPrecondition',
                                             'ImmutableTrialError': 'FailedPrecondition', 'AlreadyExistsError': 'AlreadyExists'}.get(ev['error'], 'Unknown')
    resp = {'err': err, 'val': {'op': {'done': False, 'err': False, 'trials': []}}}
    judge_suggest = False
    if rpc == 'SuggestTrials' and err == 'None' and isinstance(ev.get('response'), dict) and 'done' in ev['response']:
      r = ev['response']
      resp['val'] = {'op': {'done': bool(r['done']), 'err': bool(r['error']), 'trials': [int(x) for x in r['trials']]}}
      judge_suggest = 'client_id' in req and req['client_id'] in self.W
    return {'pre': pre, 'post': post, 'call': call, 'resp': resp, 'judge_suggest': judge_suggest}

  def meta(self, kvs):
    out = {c: 'None' for c in ['c%d' % (k + 1) for k in range(K_CELLS)]}
    for kv in kvs:
      out[self.C[kv_cell(kv)]] = self.val(kv_value(kv))
    return out

  def state(self, snap):
    studies = ['s%d' % (k + 1) for k in range(K_STUDIES)]
    workers = ['w%d' % (k + 1) for k in range(K_CLIENTS)]
    absent = {'absent': True}
    st = {'owner': any(od is not None for od in snap.values()),
          'study': {s: absent for s in studies}, 'trial': {s: [absent] * K_IDS for s in studies},
          'ops': {s: {w: [] for w in workers} for s in studies}, 'es': {s: [absent] * K_IDS for s in studies}}
    for owner, od in snap.items():
      for sname, sd in (od or {}).items():
        if sname not in self.S:
          continue
        s = self.S[sname]
        spec = dict(sd['study'].get('study_spec', {}))
        md = spec.pop('metadata', [])
        st['study'][s] = {'state': {'ACTIVE': 'ACTIVE', 'INACTIVE': 'INACTIVE', 'COMPLETED': 'COMPLETED'}.get(sd['study'].get('state'), 'UNSPEC'),
                          'cfg': self.cfg(spec), 'meta': self.meta(md)}
        row = [absent] * K_IDS
        for t in sd['trials']:
          fm = t.get('final_measurement')
          row[int(t['id']) - 1] = {
              'state': t.get('state', 'STATE_UNSPECIFIED'), 'client': self.W.get(t.get('client_id', ''), 'None') if t.get('client_id') else 'None',
              'params': self.params(t.get('parameters', [])), 'meas': [self.meas(m.get('metrics', [])) for m in t.get('measurements', [])],
              'final': self.meas(fm.get('metrics', [])) if fm and fm.get('metrics') else 'None', 'reason': t.get('infeasible_reason', ''),
              'meta': self.meta(t.get('metadata', []))}
        st['trial'][s] = row
        for w, ops in sd['ops'].items():
          ordered = sorted(ops, key=lambda o: int(o['name'].rsplit('/', 1)[-1]))
          st['ops'][s][self.W[w]] = [{'done': bool(o['done']), 'err': bool(o['error']), 'trials': sorted(int(x) for x in o['trials'])} for o in ordered]
        es = [absent] * K_IDS
        for tid, op in sd['es'].items():
          es[int(tid) - 1] = {'status': ES_STATUS.get(op.get('status'), 'UNKNOWN'), 'stop': bool(op.get('should_stop', False))}
        st['es'][s] = es
    return st


ATTR = {'C01': 'C01', 'C02': 'C02', 'C10': 'C10'}


def run(ctx, workdir, repo=None):
  """Returns the layer's coverage dict; reports rejected events as violations of ctx.prop only when the failing clause
  belongs to ctx.prop (the same recording is judged by C01, C02 and C10)."""
  repo = repo or os.environ.get('VERIF_REPO') or '/repo'
  recdir = os.path.join(workdir, 'rec')
  os.makedirs(recdir, exist_ok=True)
  tests = TESTS_THOROUGH if ctx.thorough else TESTS_QUICK
  rc, tail = record(repo, recdir, tests, 3000 if ctx.thorough else 900)
  files = sorted(glob.glob(os.path.join(recdir, '*.json')))
  if not files:
    # the tests could not run at all on this tree (e.g. an import error): nothing to judge here; the other layers speak
    ctx.notes.append('repository tests produced no trace (pytest rc=%s: %s)' % (rc, tail))
    ctx.coverage['repo_test_traces'] = {'pytest': tail, 'servicers_recorded': 0, 'events_judged': 0}
    ctx.log('  repository tests produced no trace (pytest rc=%s: %s)' % (rc, tail))
    return {'servicers_recorded': 0}
  ab = Abstraction()
  events, index, skipped = [], [], collections.Counter()
  concurrent = 0
  for f in files:
    d = json.load(open(f))
    if d['concurrent']:
      concurrent += 1
      continue
    for k, ev in enumerate(d['events']):
      try:
        events.append(ab.event(ev))
        index.append((d['test'], k, ev['rpc']))
      except Skip as e:
        skipped[re.sub(r'\d+', 'N', str(e))] += 1
  if not events:
    ctx.notes.append('no recorded event could be abstracted: %s' % dict(skipped))
    ctx.coverage['repo_test_traces'] = {'pytest': tail, 'servicers_recorded': len(files), 'events_judged': 0}
    return {'servicers_recorded': 0}
  # binding self-test: two corrupted copies of recorded events must be rejected by the trace spec
  import copy
  probes = []
  for ev in events:
    hit = [(s, k) for s, row in ev['pre']['trial'].items() for k, t in enumerate(row)
           if t.get('state') == 'SUCCEEDED' and 'absent' not in ev['post']['trial'][s][k]]
    if hit:
      s, k = hit[0]
      bad = copy.deepcopy(ev)
      bad['post']['trial'][s][k]['state'] = 'ACTIVE'
      probes.append(('C01_Transitions', bad))
      bad = copy.deepcopy(ev)
      bad['post']['trial'][s][k]['params'] = 'p-corrupted'
      probes.append(('C01_ParamsFrozen', bad))
      break
  if not probes:
    ctx.notes.append('no recorded event holds a completed trial: binding self-test skipped')
  path = os.path.join(workdir, 'lite.json')
  with open(path, 'w') as f:
    json.dump(events + [b for _, b in probes], f)
  cfg = os.path.join(workdir, 'lite.cfg')
  consts = {'Studies': {'s%d' % (k + 1) for k in range(K_STUDIES)}, 'Clients': {'w%d' % (k + 1) for k in range(K_CLIENTS)}, 'MaxId': K_IDS,
            'Cells': {'c%d' % (k + 1) for k in range(K_CELLS)}, 'Recycle': 'never'}
  tlc.write_cfg(cfg, constants=consts, constraints=['Pos'])
  res = tlc.must_ok(tlc.run_tlc('VizierTraceLite', cfg, workdir, workers=8, env={'TRACE_FILE': path}, timeout=1800), 'VizierTraceLite')
  verdicts = {int(m.group(1)): m.group(2) for m in LV.finditer(res.out)}
  if len(verdicts) != len(events) + len(probes):
    raise tlc.MachineryError('VizierTraceLite judged %d of %d events\n%s' % (len(verdicts), len(events) + len(probes), res.out[-1500:]))
  for k, (want, _) in enumerate(probes):
    got = verdicts.pop(len(events) + k + 1)
    if got != want:
      raise tlc.MachineryError('binding self-test: a corrupted recorded event was judged %s, expected %s' % (got, want))
  counts = collections.Counter(verdicts.values())
  by_rpc = collections.Counter(x[2] for x in index)
  for k, (test, pos, rpc) in enumerate(index):
    v = verdicts[k + 1]
    if v != 'ok' and v[:3] == ctx.prop:
      ctx.violation({'via': 'repo-test-trace', 'clause': v, 'rpc': rpc}, {'kind': 'repo-test-trace', 'test': test, 'event_index': pos, 'rpc': rpc, 'clause': v,
                                                                         'event': events[k]})
  layer = {'pytest': tail, 'corrupted_events_rejected': len(probes), 'servicers_recorded': len(files), 'concurrent_traces_left_to_C04': concurrent, 'events_judged': len(events),
           'events_by_rpc': dict(by_rpc), 'verdicts': dict(counts), 'events_not_abstracted': dict(skipped)}
  ctx.coverage['repo_test_traces'] = layer
  ctx.log('  repository tests recorded (%s): %d servicers, %d events judged by VizierTraceLite, verdicts %s, skipped %s' % (
      tail, len(files), len(events), dict(counts), dict(skipped)))
  return layer
