---------------------------- MODULE DesignerSession ----------------------------
(***************************************************************************)
(* C03 / C13 / C14: a designer session is a schedule of                    *)
(*    Suggest(n)  CompleteAll(feasible)  CompleteAll(infeasible)  Restart  *)
(* steps.  The model keeps only the bookkeeping (how many trials are       *)
(* active / completed) so that TLC enumerates exactly the well-formed      *)
(* schedules, including every placement of Restart marks; the designer's   *)
(* OUTPUT is an observation.  Mode "judge" reads the observations of four  *)
(* runs of the real designer on one schedule                               *)
(*    A live   B restarted (dump, fresh instance, load) at every mark      *)
(*    C same seed after perturbing global random state / another study     *)
(*    D another seed                                                       *)
(* and decides, on exact order keys (Num.tla):                             *)
(*    C03: every suggestion assigns every parameter once, inside domain    *)
(*    C13: A = B     C14: A = C, and A # D for randomised algorithms       *)
(***************************************************************************)
EXTENDS Num, FiniteSets, TLC, Json, IOUtils
CONSTANTS Mode, MaxLen, MaxBatch

Steps == {"S1", "S2", "S3", "CF", "CR", "CI", "R"}      \* CR: complete the active trials in reverse order (parallel workers)
BatchOf(s) == CASE s = "S1" -> 1 [] s = "S2" -> 2 [] s = "S3" -> 3 [] OTHER -> 0

VARIABLES sched, active, done
vars == <<sched, active, done>>
Init == sched = <<>> /\ active = 0 /\ done = 0
Step(s) ==
  /\ Len(sched) < MaxLen
  /\ CASE s \in {"S1", "S2", "S3"} -> BatchOf(s) <= MaxBatch /\ active' = active + BatchOf(s) /\ done' = done
       [] s \in {"CF", "CR", "CI"} -> active > 0 /\ active' = 0 /\ done' = done + active
       [] s = "R" -> sched # <<>> /\ sched[Len(sched)] # "R" /\ active' = active /\ done' = done
  /\ sched' = Append(sched, s)
Next == Mode = "enumerate" /\ \E s \in Steps : Step(s)
Spec == Init /\ [][Next]_vars
\* a schedule worth running: it suggests at least twice
Suggests == Cardinality({i \in DOMAIN sched : sched[i] \in {"S1", "S2", "S3"}})
Dump == IF Suggests >= 2 /\ sched[Len(sched)] \in {"S1", "S2", "S3"} THEN PrintT(ToJson([sched |-> sched])) ELSE TRUE

\* ------------------------------------------------------------------ judge
Obs == IF Mode = "judge" THEN JsonDeserialize(IOEnv.TRACE_FILE) ELSE <<>>

InDomain(p, v) ==
  CASE p.type = "DOUBLE"      -> v.kind = "num" /\ FBetween(p.lo, v.key, p.hi)
    [] p.type = "INTEGER"     -> v.kind = "num" /\ FBetween(p.lo, v.key, p.hi) /\ FEq(v.key, v.fl)
    [] p.type = "DISCRETE"    -> v.kind = "num" /\ \E i \in DOMAIN p.feas : FEq(p.feas[i], v.key)
    [] p.type = "CATEGORICAL" -> v.kind = "str" /\ \E i \in DOMAIN p.cats : p.cats[i] = v.s
    [] OTHER -> FALSE
\* a suggestion is a sequence of [name, v]; the space a sequence of parameter records
Complete(space, sg) == /\ Len(sg) = Len(space)
                       /\ \A i \in DOMAIN space : Cardinality({j \in DOMAIN sg : sg[j].name = space[i].name}) = 1
Inside(space, sg) == \A j \in DOMAIN sg : \E i \in DOMAIN space : space[i].name = sg[j].name /\ InDomain(space[i], sg[j].v)
AllRuns(o) == o.runs.A \o o.runs.B \o o.runs.C \o o.runs.D \o o.extra
V03(o) == IF \E k \in DOMAIN AllRuns(o) : ~Complete(o.space, AllRuns(o)[k]) THEN "incomplete_suggestion"
          ELSE IF \E k \in DOMAIN AllRuns(o) : ~Inside(o.space, AllRuns(o)[k]) THEN "out_of_domain"
          ELSE "ok"
\* randomised evolutionary designers (cmp = "state"): same population, phase and counters, i.e. the same public dump
\* after every step; all others (cmp = "sug"): the same suggestions
V13(o) == IF ~o.restartable THEN "ok"
          ELSE IF o.cmp = "sug" /\ o.runs.A # o.runs.B THEN "restart_diverges"
          ELSE IF o.cmp = "state" /\ o.state.A # o.state.B THEN "restart_state_differs"
          ELSE IF o.cmp = "state" /\ Len(o.runs.A) # Len(o.runs.B) THEN "restart_diverges"
          ELSE "ok"
V14(o) == IF o.runs.A # o.runs.C THEN "same_seed_differs"
          ELSE IF o.randomised /\ o.runs.A = o.runs.D THEN "seed_ignored" ELSE "ok"
JudgeOne == \A i \in DOMAIN Obs : PrintT(<<"DV", i, V03(Obs[i]), V13(Obs[i]), V14(Obs[i])>>)
JInit == sched = <<>> /\ active = 0 /\ done = 0 /\ JudgeOne
JSpec == JInit /\ [][FALSE]_vars
=============================================================================
