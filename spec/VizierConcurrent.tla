---------------------------- MODULE VizierConcurrent ----------------------------
(***************************************************************************)
(* Spec B (C04, design level): the servicer's RPC methods as processes     *)
(* that take one step per DataStore call and per lock acquisition, in the  *)
(* order vizier_service.py performs them (after the lock repairs of this   *)
(* round).  Each DataStore method is atomic (it holds the datastore lock). *)
(* Three lock tables as in the code: owner, study, operation.              *)
(*                                                                         *)
(* A scenario = a sequential prefix (folded with VizierAtomic.Apply) and   *)
(* one call per process.  TLC explores every interleaving and checks       *)
(*   - no deadlock (every process reaches Done),                           *)
(*   - Serializable: error classes of all calls and the final datastore    *)
(*     are those of SOME serial order of Apply, up to a renaming of ids,   *)
(*   - NoStuckOp: no unfinished suggestion / ACTIVE early-stopping         *)
(*     operation once everybody is done.                                   *)
(* The code-level layer (lib/sched.py + VizierLin.tla) does not depend on  *)
(* this module; the module finds bad interleavings with a shortest         *)
(* schedule and states which locking discipline the code is meant to have. *)
(***************************************************************************)
EXTENDS VizierAtomic

CONSTANTS Procs, Scenarios     \* Scenarios: set of [prefix : Seq(call), calls : [Procs -> call]]

RECURSIVE FoldApply(_, _)
FoldApply(s0, calls) == IF calls = <<>> THEN s0 ELSE FoldApply(Apply(s0, Head(calls)).st, Tail(calls))

Free == "free"
S == CHOOSE s \in Studies : TRUE
C1 == CHOOSE c \in Cells : TRUE

(* --algorithm VizierConcurrent
variables
  scen \in Scenarios,
  ds = FoldApply(InitSt, scen.prefix),
  ds0 = ds,
  ownerLock = Free, studyLock = Free, opLock = Free,
  res = [p \in Procs |-> "running"];

define
  StudyThere == ds.study[S] # Absent
  Imm == ds.study[S].state \in {"INACTIVE", "COMPLETED"}
  TrialThere(t) == ds.trial[S][t] # Absent
  Holds(p) == {l \in {"owner", "study", "op"} : (l = "owner" /\ ownerLock = p) \/ (l = "study" /\ studyLock = p) \/ (l = "op" /\ opLock = p)}
end define;

\* leaving the method by return or by an escaping exception releases every lock the process holds (Python `with`)
macro finish(e) begin
  res[self] := e;
  if ownerLock = self then ownerLock := Free; end if;
  if studyLock = self then studyLock := Free; end if;
  if opLock = self then opLock := Free; end if;
  goto Done;
end macro;

fair process worker \in Procs
variables c = scen.calls[self], tr = Absent, stu = Absent, snap = <<>>, id = 0, opn = 0, out = {}, pool = <<>>, k = 0, unf = <<>>, esop = Absent;
begin
 start:
  \* every mutating RPC except UpdateMetadata begins with _study_is_immutable -> datastore.load_study, outside any lock
  if c.rpc \in {"CreateTrial", "AddMeasurement", "CompleteTrial", "StopTrial", "DeleteTrial", "SuggestTrials", "CheckEarlyStopping"} then
    if ~StudyThere then finish("NotFound");
    elsif Imm then finish("FailedPrecondition");
    end if;
  end if;
 dispatch:
  if c.rpc = "CreateStudy" then
   cs_lock: await ownerLock = Free; ownerLock := self;
   cs_list: if StudyThere then finish("None"); end if;          \* list_studies: found by display name
   cs_new:  if StudyThere then finish("AlreadyExists");
            else ds := [ds EXCEPT !.study[S] = [state |-> "UNSPEC", cfg |-> c.cfg, meta |-> NoMeta], !.owner = TRUE]; finish("None"); end if;
  elsif c.rpc = "DeleteStudy" then
   dels:    if ~StudyThere then finish("NotFound");
            else ds := DeleteStudy(ds, S).st; finish("None"); end if;
  elsif c.rpc = "SetStudyState" then
   ss_lock: await studyLock = Free; studyLock := self;
   ss_load: if ~StudyThere then finish("NotFound"); else stu := ds.study[S]; end if;
   ss_upd:  if ~StudyThere then finish("NotFound");
            else ds.study[S] := [stu EXCEPT !.state = c.x]; finish("None"); end if;      \* update_study writes the copy read above
  elsif c.rpc = "UpdateMetadata" then
   um_lock: await studyLock = Free; studyLock := self;
   um_imm:  if ~StudyThere then finish("NotFound"); elsif Imm then finish("FailedPrecondition"); end if;
   um_upd:  if ~StudyThere then finish("None")        \* NotFoundError is a KeyError: reported in error_details, status OK
            else ds := UpdateMetadata(ds, S, c.d).st; finish("None"); end if;             \* datastore.update_metadata is all-or-nothing
  elsif c.rpc = "DeleteTrial" then
   dt_lock: await studyLock = Free; studyLock := self;
   dt_del:  if ~StudyThere \/ ~TrialThere(c.t) then finish("NotFound");
            else ds.trial[S][c.t] := Absent; finish("None"); end if;
  elsif c.rpc = "CreateTrial" then
   ct_lock: await studyLock = Free; studyLock := self;
   ct_max:  if ~StudyThere then finish("NotFound"); else id := MaxTrialId(ds, S) + 1; end if;
   ct_ins:  if id > MaxId then finish("ModelBound");
            elsif ~StudyThere then finish("NotFound");
            elsif TrialThere(id) then finish("AlreadyExists");
            else ds.trial[S][id] := IF c.c = None THEN NewTrial("REQUESTED", None, c.p, None) ELSE NewTrial("SUCCEEDED", None, c.p, c.c);
                 finish("None"); end if;
  elsif c.rpc \in {"AddMeasurement", "CompleteTrial", "StopTrial"} then
   tl_lock: await studyLock = Free; studyLock := self;
   tl_get:  if ~StudyThere \/ ~TrialThere(c.t) then finish("NotFound"); else tr := ds.trial[S][c.t]; end if;
   tl_upd:
     if c.rpc = "AddMeasurement" then
       if tr.state = "INFEASIBLE" then finish("None");
       elsif tr.state \notin Mutable then finish("FailedPrecondition");
       elsif ~StudyThere \/ ~TrialThere(c.t) then finish("NotFound");
       else ds.trial[S][c.t] := [tr EXCEPT !.meas = Append(@, c.m)]; finish("None"); end if;
     elsif c.rpc = "CompleteTrial" then
       if tr.state \notin Mutable then finish("FailedPrecondition");
       elsif c.f = None /\ ~c.inf /\ tr.meas = <<>> then finish("Unknown");
       elsif ~StudyThere \/ ~TrialThere(c.t) then finish("NotFound");
       else ds.trial[S][c.t] := [tr EXCEPT !.state = IF c.inf THEN "INFEASIBLE" ELSE "SUCCEEDED",
                                           !.final = IF c.f # None THEN c.f ELSE IF ~c.inf THEN tr.meas[Len(tr.meas)] ELSE tr.final,
                                           !.reason = IF c.inf THEN c.reason ELSE @];
            finish("None"); end if;
     else
       if tr.state = "ACTIVE" then
         if ~StudyThere \/ ~TrialThere(c.t) then finish("NotFound");
         else ds.trial[S][c.t] := [tr EXCEPT !.state = "STOPPING"]; finish("None"); end if;
       elsif tr.state \in {"STOPPING", "SUCCEEDED"} then finish("None");
       else finish("FailedPrecondition"); end if;
     end if;
  elsif c.rpc = "SuggestTrials" then
   st_lock: await opLock = Free; opLock := self;
   st_load: if ~StudyThere then finish("NotFound"); else stu := ds.study[S]; end if;
   st_unf:  \* list_suggestion_operations(not done): abandoned operations of this client are closed, one update each
            unf := SeqOf({i \in DOMAIN ds.ops[S][c.w] : ~ds.ops[S][c.w][i].done});
   st_close: while unf # <<>> do
              if ~StudyThere then finish("NotFound");
              else ds.ops[S][c.w][Head(unf)] := [@ EXCEPT !.done = TRUE, !.err = TRUE]; unf := Tail(unf); end if;
            end while;
   st_opn:  opn := Len(ds.ops[S][c.w]) + 1;                       \* max_suggestion_operation_number
   st_mkop: if ~StudyThere then finish("NotFound");
            else ds.ops[S][c.w] := Append(@, [done |-> FALSE, err |-> FALSE, trials |-> <<>>]); end if;
   st_list: if ~StudyThere then finish("NotFound");
            else snap := ds.trial[S];
                 pool := SeqOf({t \in Ids : ds.trial[S][t] # Absent /\ ds.trial[S][t].state = "REQUESTED"});
                 with own = {t \in Ids : ds.trial[S][t] # Absent /\ ds.trial[S][t].state = "ACTIVE" /\ ds.trial[S][t].client = c.w} do
                   if Cardinality(own) >= c.n then out := {SeqOf(own)[i] : i \in 1..c.n}; goto st_fin;
                   else out := own; end if;
                 end with;
            end if;
   st_pool: while Cardinality(out) < c.n /\ pool # <<>> do
     sp_lock: await studyLock = Free; studyLock := self;
     sp_get:  id := pool[Len(pool)]; pool := SubSeq(pool, 1, Len(pool) - 1);
              if ~StudyThere \/ ~TrialThere(id) then studyLock := Free; tr := Absent;         \* NotFoundError: continue
              else tr := ds.trial[S][id]; end if;
     sp_upd:  if tr = Absent then skip;
              elsif tr.state # "REQUESTED" then studyLock := Free;
              elsif ~StudyThere \/ ~TrialThere(id) then finish("NotFound");
              else ds.trial[S][id] := [tr EXCEPT !.state = "ACTIVE", !.client = c.w]; out := out \cup {id}; studyLock := Free; end if;
            end while;
   st_chk:  if Cardinality(out) >= c.n then goto st_fin; end if;
   st_desc: if ~StudyThere then finish("NotFound"); end if;          \* max_trial_id for the study descriptor
   st_pyth: if c.env.raise then
              if ~StudyThere then finish("NotFound");
              else ds.ops[S][c.w][opn] := [done |-> TRUE, err |-> TRUE, trials |-> <<>>]; finish("None"); end if;
            end if;
   sm_lock: await studyLock = Free; studyLock := self;
   st_meta: \* datastore.update_metadata with the algorithm's study metadata: under the study lock (it is an edit of the study)
            if ~StudyThere then finish("NotFound");      \* the KeyError branch tries to finish the operation, which is gone too
            else ds.study[S].meta := Merge(@, c.env.md); k := Len(c.env.ps); studyLock := Free; end if;
   st_new:  while Cardinality(out) < c.n /\ k > 0 do
     sn_lock: await studyLock = Free; studyLock := self;
     sn_max:  if ~StudyThere then finish("NotFound"); else id := MaxTrialId(ds, S) + 1; end if;
     sn_ins:  if id > MaxId then finish("ModelBound");
              elsif ~StudyThere then finish("NotFound");
              elsif TrialThere(id) then finish("AlreadyExists");
              else ds.trial[S][id] := NewTrial("ACTIVE", c.w, c.env.ps[k], None); out := out \cup {id}; k := k - 1; studyLock := Free; end if;
            end while;
   st_rest: while k > 0 do
     sr_lock: await studyLock = Free; studyLock := self;
     sr_max:  if ~StudyThere then finish("NotFound"); else id := MaxTrialId(ds, S) + 1; end if;
     sr_ins:  if id > MaxId then finish("ModelBound");
              elsif ~StudyThere then finish("NotFound");
              elsif TrialThere(id) then finish("AlreadyExists");
              else ds.trial[S][id] := NewTrial("REQUESTED", None, c.env.ps[Len(c.env.ps) - k + 1], None); k := k - 1; studyLock := Free; end if;
            end while;
   st_fin:  if ~StudyThere then finish("NotFound");
            else ds.ops[S][c.w][opn] := [done |-> TRUE, err |-> FALSE, trials |-> SeqOf(out)]; finish("None"); end if;
  elsif c.rpc = "CheckEarlyStopping" then
   es_lock: await studyLock = Free; studyLock := self;
   es_get:  if ~StudyThere \/ ~TrialThere(c.t) then finish("NotFound");
            elsif ds.trial[S][c.t].state \notin Mutable then finish("FailedPrecondition");
            else studyLock := Free; end if;
   es_olock: await opLock = Free; opLock := self;
   es_op:   esop := ds.es[S][c.t];                                   \* get_early_stopping_operation
   es_mk:   if esop = Absent then
              if ~StudyThere then finish("NotFound");
              else ds.es[S][c.t] := [status |-> "ACTIVE", stop |-> FALSE]; end if;
            elsif esop.status = "ACTIVE" \/ (esop.status = "DONE" /\ Recycle = "never") then finish("None");
            else
              if ~StudyThere then finish("NotFound");
              else ds.es[S][c.t] := [status |-> "ACTIVE", stop |-> FALSE]; end if;
            end if;
   es_load: if ~StudyThere then finish("NotFound"); end if;         \* load_study + max_trial_id
   es_pyth: if c.env.raise then
              if ~StudyThere then finish("NotFound");
              else ds.es[S][c.t] := [status |-> "FAILED", stop |-> FALSE]; finish("Unknown"); end if;
            end if;
   em_lock: await studyLock = Free; studyLock := self;
   es_meta: if ~StudyThere then finish("NotFound"); else studyLock := Free; end if;         \* update_metadata (empty delta), under the study lock
   es_done: if ~StudyThere then finish("NotFound");
            else ds.es[S][c.t] := [status |-> "DONE", stop |-> c.env.stop]; finish("None"); end if;
  end if;
end process;
end algorithm; *)
\* BEGIN TRANSLATION
VARIABLES pc, scen, ds, ds0, ownerLock, studyLock, opLock, res

(* define statement *)
StudyThere == ds.study[S] # Absent
Imm == ds.study[S].state \in {"INACTIVE", "COMPLETED"}
TrialThere(t) == ds.trial[S][t] # Absent
Holds(p) == {l \in {"owner", "study", "op"} : (l = "owner" /\ ownerLock = p) \/ (l = "study" /\ studyLock = p) \/ (l = "op" /\ opLock = p)}

VARIABLES c, tr, stu, snap, id, opn, out, pool, k, unf, esop

vars == << pc, scen, ds, ds0, ownerLock, studyLock, opLock, res, c, tr, stu, 
           snap, id, opn, out, pool, k, unf, esop >>

ProcSet == (Procs)

Init == (* Global variables *)
        /\ scen \in Scenarios
        /\ ds = FoldApply(InitSt, scen.prefix)
        /\ ds0 = ds
        /\ ownerLock = Free
        /\ studyLock = Free
        /\ opLock = Free
        /\ res = [p \in Procs |-> "running"]
        (* Process worker *)
        /\ c = [self \in Procs |-> scen.calls[self]]
        /\ tr = [self \in Procs |-> Absent]
        /\ stu = [self \in Procs |-> Absent]
        /\ snap = [self \in Procs |-> <<>>]
        /\ id = [self \in Procs |-> 0]
        /\ opn = [self \in Procs |-> 0]
        /\ out = [self \in Procs |-> {}]
        /\ pool = [self \in Procs |-> <<>>]
        /\ k = [self \in Procs |-> 0]
        /\ unf = [self \in Procs |-> <<>>]
        /\ esop = [self \in Procs |-> Absent]
        /\ pc = [self \in ProcSet |-> "start"]

start(self) == /\ pc[self] = "start"
               /\ IF c[self].rpc \in {"CreateTrial", "AddMeasurement", "CompleteTrial", "StopTrial", "DeleteTrial", "SuggestTrials", "CheckEarlyStopping"}
                     THEN /\ IF ~StudyThere
                                THEN /\ res' = [res EXCEPT ![self] = "NotFound"]
                                     /\ IF ownerLock = self
                                           THEN /\ ownerLock' = Free
                                           ELSE /\ TRUE
                                                /\ UNCHANGED ownerLock
                                     /\ IF studyLock = self
                                           THEN /\ studyLock' = Free
                                           ELSE /\ TRUE
                                                /\ UNCHANGED studyLock
                                     /\ IF opLock = self
                                           THEN /\ opLock' = Free
                                           ELSE /\ TRUE
                                                /\ UNCHANGED opLock
                                     /\ pc' = [pc EXCEPT ![self] = "Done"]
                                ELSE /\ IF Imm
                                           THEN /\ res' = [res EXCEPT ![self] = "FailedPrecondition"]
                                                /\ IF ownerLock = self
                                                      THEN /\ ownerLock' = Free
                                                      ELSE /\ TRUE
                                                           /\ UNCHANGED ownerLock
                                                /\ IF studyLock = self
                                                      THEN /\ studyLock' = Free
                                                      ELSE /\ TRUE
                                                           /\ UNCHANGED studyLock
                                                /\ IF opLock = self
                                                      THEN /\ opLock' = Free
                                                      ELSE /\ TRUE
                                                           /\ UNCHANGED opLock
                                                /\ pc' = [pc EXCEPT ![self] = "Done"]
                                           ELSE /\ pc' = [pc EXCEPT ![self] = "dispatch"]
                                                /\ UNCHANGED << ownerLock, 
                                                                studyLock, 
                                                                opLock, res >>
                     ELSE /\ pc' = [pc EXCEPT ![self] = "dispatch"]
                          /\ UNCHANGED << ownerLock, studyLock, opLock, res >>
               /\ UNCHANGED << scen, ds, ds0, c, tr, stu, snap, id, opn, out, 
                               pool, k, unf, esop >>

dispatch(self) == /\ pc[self] = "dispatch"
                  /\ IF c[self].rpc = "CreateStudy"
                        THEN /\ pc' = [pc EXCEPT ![self] = "cs_lock"]
                        ELSE /\ IF c[self].rpc = "DeleteStudy"
                                   THEN /\ pc' = [pc EXCEPT ![self] = "dels"]
                                   ELSE /\ IF c[self].rpc = "SetStudyState"
                                              THEN /\ pc' = [pc EXCEPT ![self] = "ss_lock"]
                                              ELSE /\ IF c[self].rpc = "UpdateMetadata"
                                                         THEN /\ pc' = [pc EXCEPT ![self] = "um_lock"]
                                                         ELSE /\ IF c[self].rpc = "DeleteTrial"
                                                                    THEN /\ pc' = [pc EXCEPT ![self] = "dt_lock"]
                                                                    ELSE /\ IF c[self].rpc = "CreateTrial"
                                                                               THEN /\ pc' = [pc EXCEPT ![self] = "ct_lock"]
                                                                               ELSE /\ IF c[self].rpc \in {"AddMeasurement", "CompleteTrial", "StopTrial"}
                                                                                          THEN /\ pc' = [pc EXCEPT ![self] = "tl_lock"]
                                                                                          ELSE /\ IF c[self].rpc = "SuggestTrials"
                                                                                                     THEN /\ pc' = [pc EXCEPT ![self] = "st_lock"]
                                                                                                     ELSE /\ IF c[self].rpc = "CheckEarlyStopping"
                                                                                                                THEN /\ pc' = [pc EXCEPT ![self] = "es_lock"]
                                                                                                                ELSE /\ pc' = [pc EXCEPT ![self] = "Done"]
                  /\ UNCHANGED << scen, ds, ds0, ownerLock, studyLock, opLock, 
                                  res, c, tr, stu, snap, id, opn, out, pool, k, 
                                  unf, esop >>

cs_lock(self) == /\ pc[self] = "cs_lock"
                 /\ ownerLock = Free
                 /\ ownerLock' = self
                 /\ pc' = [pc EXCEPT ![self] = "cs_list"]
                 /\ UNCHANGED << scen, ds, ds0, studyLock, opLock, res, c, tr, 
                                 stu, snap, id, opn, out, pool, k, unf, esop >>

cs_list(self) == /\ pc[self] = "cs_list"
                 /\ IF StudyThere
                       THEN /\ res' = [res EXCEPT ![self] = "None"]
                            /\ IF ownerLock = self
                                  THEN /\ ownerLock' = Free
                                  ELSE /\ TRUE
                                       /\ UNCHANGED ownerLock
                            /\ IF studyLock = self
                                  THEN /\ studyLock' = Free
                                  ELSE /\ TRUE
                                       /\ UNCHANGED studyLock
                            /\ IF opLock = self
                                  THEN /\ opLock' = Free
                                  ELSE /\ TRUE
                                       /\ UNCHANGED opLock
                            /\ pc' = [pc EXCEPT ![self] = "Done"]
                       ELSE /\ pc' = [pc EXCEPT ![self] = "cs_new"]
                            /\ UNCHANGED << ownerLock, studyLock, opLock, res >>
                 /\ UNCHANGED << scen, ds, ds0, c, tr, stu, snap, id, opn, out, 
                                 pool, k, unf, esop >>

cs_new(self) == /\ pc[self] = "cs_new"
                /\ IF StudyThere
                      THEN /\ res' = [res EXCEPT ![self] = "AlreadyExists"]
                           /\ IF ownerLock = self
                                 THEN /\ ownerLock' = Free
                                 ELSE /\ TRUE
                                      /\ UNCHANGED ownerLock
                           /\ IF studyLock = self
                                 THEN /\ studyLock' = Free
                                 ELSE /\ TRUE
                                      /\ UNCHANGED studyLock
                           /\ IF opLock = self
                                 THEN /\ opLock' = Free
                                 ELSE /\ TRUE
                                      /\ UNCHANGED opLock
                           /\ pc' = [pc EXCEPT ![self] = "Done"]
                           /\ ds' = ds
                      ELSE /\ ds' = [ds EXCEPT !.study[S] = [state |-> "UNSPEC", cfg |-> c[self].cfg, meta |-> NoMeta], !.owner = TRUE]
                           /\ res' = [res EXCEPT ![self] = "None"]
                           /\ IF ownerLock = self
                                 THEN /\ ownerLock' = Free
                                 ELSE /\ TRUE
                                      /\ UNCHANGED ownerLock
                           /\ IF studyLock = self
                                 THEN /\ studyLock' = Free
                                 ELSE /\ TRUE
                                      /\ UNCHANGED studyLock
                           /\ IF opLock = self
                                 THEN /\ opLock' = Free
                                 ELSE /\ TRUE
                                      /\ UNCHANGED opLock
                           /\ pc' = [pc EXCEPT ![self] = "Done"]
                /\ UNCHANGED << scen, ds0, c, tr, stu, snap, id, opn, out, 
                                pool, k, unf, esop >>

dels(self) == /\ pc[self] = "dels"
              /\ IF ~StudyThere
                    THEN /\ res' = [res EXCEPT ![self] = "NotFound"]
                         /\ IF ownerLock = self
                               THEN /\ ownerLock' = Free
                               ELSE /\ TRUE
                                    /\ UNCHANGED ownerLock
                         /\ IF studyLock = self
                               THEN /\ studyLock' = Free
                               ELSE /\ TRUE
                                    /\ UNCHANGED studyLock
                         /\ IF opLock = self
                               THEN /\ opLock' = Free
                               ELSE /\ TRUE
                                    /\ UNCHANGED opLock
                         /\ pc' = [pc EXCEPT ![self] = "Done"]
                         /\ ds' = ds
                    ELSE /\ ds' = DeleteStudy(ds, S).st
                         /\ res' = [res EXCEPT ![self] = "None"]
                         /\ IF ownerLock = self
                               THEN /\ ownerLock' = Free
                               ELSE /\ TRUE
                                    /\ UNCHANGED ownerLock
                         /\ IF studyLock = self
                               THEN /\ studyLock' = Free
                               ELSE /\ TRUE
                                    /\ UNCHANGED studyLock
                         /\ IF opLock = self
                               THEN /\ opLock' = Free
                               ELSE /\ TRUE
                                    /\ UNCHANGED opLock
                         /\ pc' = [pc EXCEPT ![self] = "Done"]
              /\ UNCHANGED << scen, ds0, c, tr, stu, snap, id, opn, out, pool, 
                              k, unf, esop >>

ss_lock(self) == /\ pc[self] = "ss_lock"
                 /\ studyLock = Free
                 /\ studyLock' = self
                 /\ pc' = [pc EXCEPT ![self] = "ss_load"]
                 /\ UNCHANGED << scen, ds, ds0, ownerLock, opLock, res, c, tr, 
                                 stu, snap, id, opn, out, pool, k, unf, esop >>

ss_load(self) == /\ pc[self] = "ss_load"
                 /\ IF ~StudyThere
                       THEN /\ res' = [res EXCEPT ![self] = "NotFound"]
                            /\ IF ownerLock = self
                                  THEN /\ ownerLock' = Free
                                  ELSE /\ TRUE
                                       /\ UNCHANGED ownerLock
                            /\ IF studyLock = self
                                  THEN /\ studyLock' = Free
                                  ELSE /\ TRUE
                                       /\ UNCHANGED studyLock
                            /\ IF opLock = self
                                  THEN /\ opLock' = Free
                                  ELSE /\ TRUE
                                       /\ UNCHANGED opLock
                            /\ pc' = [pc EXCEPT ![self] = "Done"]
                            /\ stu' = stu
                       ELSE /\ stu' = [stu EXCEPT ![self] = ds.study[S]]
                            /\ pc' = [pc EXCEPT ![self] = "ss_upd"]
                            /\ UNCHANGED << ownerLock, studyLock, opLock, res >>
                 /\ UNCHANGED << scen, ds, ds0, c, tr, snap, id, opn, out, 
                                 pool, k, unf, esop >>

ss_upd(self) == /\ pc[self] = "ss_upd"
                /\ IF ~StudyThere
                      THEN /\ res' = [res EXCEPT ![self] = "NotFound"]
                           /\ IF ownerLock = self
                                 THEN /\ ownerLock' = Free
                                 ELSE /\ TRUE
                                      /\ UNCHANGED ownerLock
                           /\ IF studyLock = self
                                 THEN /\ studyLock' = Free
                                 ELSE /\ TRUE
                                      /\ UNCHANGED studyLock
                           /\ IF opLock = self
                                 THEN /\ opLock' = Free
                                 ELSE /\ TRUE
                                      /\ UNCHANGED opLock
                           /\ pc' = [pc EXCEPT ![self] = "Done"]
                           /\ ds' = ds
                      ELSE /\ ds' = [ds EXCEPT !.study[S] = [stu[self] EXCEPT !.state = c[self].x]]
                           /\ res' = [res EXCEPT ![self] = "None"]
                           /\ IF ownerLock = self
                                 THEN /\ ownerLock' = Free
                                 ELSE /\ TRUE
                                      /\ UNCHANGED ownerLock
                           /\ IF studyLock = self
                                 THEN /\ studyLock' = Free
                                 ELSE /\ TRUE
                                      /\ UNCHANGED studyLock
                           /\ IF opLock = self
                                 THEN /\ opLock' = Free
                                 ELSE /\ TRUE
                                      /\ UNCHANGED opLock
                           /\ pc' = [pc EXCEPT ![self] = "Done"]
                /\ UNCHANGED << scen, ds0, c, tr, stu, snap, id, opn, out, 
                                pool, k, unf, esop >>

um_lock(self) == /\ pc[self] = "um_lock"
                 /\ studyLock = Free
                 /\ studyLock' = self
                 /\ pc' = [pc EXCEPT ![self] = "um_imm"]
                 /\ UNCHANGED << scen, ds, ds0, ownerLock, opLock, res, c, tr, 
                                 stu, snap, id, opn, out, pool, k, unf, esop >>

um_imm(self) == /\ pc[self] = "um_imm"
                /\ IF ~StudyThere
                      THEN /\ res' = [res EXCEPT ![self] = "NotFound"]
                           /\ IF ownerLock = self
                                 THEN /\ ownerLock' = Free
                                 ELSE /\ TRUE
                                      /\ UNCHANGED ownerLock
                           /\ IF studyLock = self
                                 THEN /\ studyLock' = Free
                                 ELSE /\ TRUE
                                      /\ UNCHANGED studyLock
                           /\ IF opLock = self
                                 THEN /\ opLock' = Free
                                 ELSE /\ TRUE
                                      /\ UNCHANGED opLock
                           /\ pc' = [pc EXCEPT ![self] = "Done"]
                      ELSE /\ IF Imm
                                 THEN /\ res' = [res EXCEPT ![self] = "FailedPrecondition"]
                                      /\ IF ownerLock = self
                                            THEN /\ ownerLock' = Free
                                            ELSE /\ TRUE
                                                 /\ UNCHANGED ownerLock
                                      /\ IF studyLock = self
                                            THEN /\ studyLock' = Free
                                            ELSE /\ TRUE
                                                 /\ UNCHANGED studyLock
                                      /\ IF opLock = self
                                            THEN /\ opLock' = Free
                                            ELSE /\ TRUE
                                                 /\ UNCHANGED opLock
                                      /\ pc' = [pc EXCEPT ![self] = "Done"]
                                 ELSE /\ pc' = [pc EXCEPT ![self] = "um_upd"]
                                      /\ UNCHANGED << ownerLock, studyLock, 
                                                      opLock, res >>
                /\ UNCHANGED << scen, ds, ds0, c, tr, stu, snap, id, opn, out, 
                                pool, k, unf, esop >>

um_upd(self) == /\ pc[self] = "um_upd"
                /\ IF ~StudyThere
                      THEN /\ res' = [res EXCEPT ![self] = "None"]
                           /\ IF ownerLock = self
                                 THEN /\ ownerLock' = Free
                                 ELSE /\ TRUE
                                      /\ UNCHANGED ownerLock
                           /\ IF studyLock = self
                                 THEN /\ studyLock' = Free
                                 ELSE /\ TRUE
                                      /\ UNCHANGED studyLock
                           /\ IF opLock = self
                                 THEN /\ opLock' = Free
                                 ELSE /\ TRUE
                                      /\ UNCHANGED opLock
                           /\ pc' = [pc EXCEPT ![self] = "Done"]
                           /\ ds' = ds
                      ELSE /\ ds' = UpdateMetadata(ds, S, c[self].d).st
                           /\ res' = [res EXCEPT ![self] = "None"]
                           /\ IF ownerLock = self
                                 THEN /\ ownerLock' = Free
                                 ELSE /\ TRUE
                                      /\ UNCHANGED ownerLock
                           /\ IF studyLock = self
                                 THEN /\ studyLock' = Free
                                 ELSE /\ TRUE
                                      /\ UNCHANGED studyLock
                           /\ IF opLock = self
                                 THEN /\ opLock' = Free
                                 ELSE /\ TRUE
                                      /\ UNCHANGED opLock
                           /\ pc' = [pc EXCEPT ![self] = "Done"]
                /\ UNCHANGED << scen, ds0, c, tr, stu, snap, id, opn, out, 
                                pool, k, unf, esop >>

dt_lock(self) == /\ pc[self] = "dt_lock"
                 /\ studyLock = Free
                 /\ studyLock' = self
                 /\ pc' = [pc EXCEPT ![self] = "dt_del"]
                 /\ UNCHANGED << scen, ds, ds0, ownerLock, opLock, res, c, tr, 
                                 stu, snap, id, opn, out, pool, k, unf, esop >>

dt_del(self) == /\ pc[self] = "dt_del"
                /\ IF ~StudyThere \/ ~TrialThere(c[self].t)
                      THEN /\ res' = [res EXCEPT ![self] = "NotFound"]
                           /\ IF ownerLock = self
                                 THEN /\ ownerLock' = Free
                                 ELSE /\ TRUE
                                      /\ UNCHANGED ownerLock
                           /\ IF studyLock = self
                                 THEN /\ studyLock' = Free
                                 ELSE /\ TRUE
                                      /\ UNCHANGED studyLock
                           /\ IF opLock = self
                                 THEN /\ opLock' = Free
                                 ELSE /\ TRUE
                                      /\ UNCHANGED opLock
                           /\ pc' = [pc EXCEPT ![self] = "Done"]
                           /\ ds' = ds
                      ELSE /\ ds' = [ds EXCEPT !.trial[S][c[self].t] = Absent]
                           /\ res' = [res EXCEPT ![self] = "None"]
                           /\ IF ownerLock = self
                                 THEN /\ ownerLock' = Free
                                 ELSE /\ TRUE
                                      /\ UNCHANGED ownerLock
                           /\ IF studyLock = self
                                 THEN /\ studyLock' = Free
                                 ELSE /\ TRUE
                                      /\ UNCHANGED studyLock
                           /\ IF opLock = self
                                 THEN /\ opLock' = Free
                                 ELSE /\ TRUE
                                      /\ UNCHANGED opLock
                           /\ pc' = [pc EXCEPT ![self] = "Done"]
                /\ UNCHANGED << scen, ds0, c, tr, stu, snap, id, opn, out, 
                                pool, k, unf, esop >>

ct_lock(self) == /\ pc[self] = "ct_lock"
                 /\ studyLock = Free
                 /\ studyLock' = self
                 /\ pc' = [pc EXCEPT ![self] = "ct_max"]
                 /\ UNCHANGED << scen, ds, ds0, ownerLock, opLock, res, c, tr, 
                                 stu, snap, id, opn, out, pool, k, unf, esop >>

ct_max(self) == /\ pc[self] = "ct_max"
                /\ IF ~StudyThere
                      THEN /\ res' = [res EXCEPT ![self] = "NotFound"]
                           /\ IF ownerLock = self
                                 THEN /\ ownerLock' = Free
                                 ELSE /\ TRUE
                                      /\ UNCHANGED ownerLock
                           /\ IF studyLock = self
                                 THEN /\ studyLock' = Free
                                 ELSE /\ TRUE
                                      /\ UNCHANGED studyLock
                           /\ IF opLock = self
                                 THEN /\ opLock' = Free
                                 ELSE /\ TRUE
                                      /\ UNCHANGED opLock
                           /\ pc' = [pc EXCEPT ![self] = "Done"]
                           /\ id' = id
                      ELSE /\ id' = [id EXCEPT ![self] = MaxTrialId(ds, S) + 1]
                           /\ pc' = [pc EXCEPT ![self] = "ct_ins"]
                           /\ UNCHANGED << ownerLock, studyLock, opLock, res >>
                /\ UNCHANGED << scen, ds, ds0, c, tr, stu, snap, opn, out, 
                                pool, k, unf, esop >>

ct_ins(self) == /\ pc[self] = "ct_ins"
                /\ IF id[self] > MaxId
                      THEN /\ res' = [res EXCEPT ![self] = "ModelBound"]
                           /\ IF ownerLock = self
                                 THEN /\ ownerLock' = Free
                                 ELSE /\ TRUE
                                      /\ UNCHANGED ownerLock
                           /\ IF studyLock = self
                                 THEN /\ studyLock' = Free
                                 ELSE /\ TRUE
                                      /\ UNCHANGED studyLock
                           /\ IF opLock = self
                                 THEN /\ opLock' = Free
                                 ELSE /\ TRUE
                                      /\ UNCHANGED opLock
                           /\ pc' = [pc EXCEPT ![self] = "Done"]
                           /\ ds' = ds
                      ELSE /\ IF ~StudyThere
                                 THEN /\ res' = [res EXCEPT ![self] = "NotFound"]
                                      /\ IF ownerLock = self
                                            THEN /\ ownerLock' = Free
                                            ELSE /\ TRUE
                                                 /\ UNCHANGED ownerLock
                                      /\ IF studyLock = self
                                            THEN /\ studyLock' = Free
                                            ELSE /\ TRUE
                                                 /\ UNCHANGED studyLock
                                      /\ IF opLock = self
                                            THEN /\ opLock' = Free
                                            ELSE /\ TRUE
                                                 /\ UNCHANGED opLock
                                      /\ pc' = [pc EXCEPT ![self] = "Done"]
                                      /\ ds' = ds
                                 ELSE /\ IF TrialThere(id[self])
                                            THEN /\ res' = [res EXCEPT ![self] = "AlreadyExists"]
                                                 /\ IF ownerLock = self
                                                       THEN /\ ownerLock' = Free
                                                       ELSE /\ TRUE
                                                            /\ UNCHANGED ownerLock
                                                 /\ IF studyLock = self
                                                       THEN /\ studyLock' = Free
                                                       ELSE /\ TRUE
                                                            /\ UNCHANGED studyLock
                                                 /\ IF opLock = self
                                                       THEN /\ opLock' = Free
                                                       ELSE /\ TRUE
                                                            /\ UNCHANGED opLock
                                                 /\ pc' = [pc EXCEPT ![self] = "Done"]
                                                 /\ ds' = ds
                                            ELSE /\ ds' = [ds EXCEPT !.trial[S][id[self]] = IF c[self].c = None THEN NewTrial("REQUESTED", None, c[self].p, None) ELSE NewTrial("SUCCEEDED", None, c[self].p, c[self].c)]
                                                 /\ res' = [res EXCEPT ![self] = "None"]
                                                 /\ IF ownerLock = self
                                                       THEN /\ ownerLock' = Free
                                                       ELSE /\ TRUE
                                                            /\ UNCHANGED ownerLock
                                                 /\ IF studyLock = self
                                                       THEN /\ studyLock' = Free
                                                       ELSE /\ TRUE
                                                            /\ UNCHANGED studyLock
                                                 /\ IF opLock = self
                                                       THEN /\ opLock' = Free
                                                       ELSE /\ TRUE
                                                            /\ UNCHANGED opLock
                                                 /\ pc' = [pc EXCEPT ![self] = "Done"]
                /\ UNCHANGED << scen, ds0, c, tr, stu, snap, id, opn, out, 
                                pool, k, unf, esop >>

tl_lock(self) == /\ pc[self] = "tl_lock"
                 /\ studyLock = Free
                 /\ studyLock' = self
                 /\ pc' = [pc EXCEPT ![self] = "tl_get"]
                 /\ UNCHANGED << scen, ds, ds0, ownerLock, opLock, res, c, tr, 
                                 stu, snap, id, opn, out, pool, k, unf, esop >>

tl_get(self) == /\ pc[self] = "tl_get"
                /\ IF ~StudyThere \/ ~TrialThere(c[self].t)
                      THEN /\ res' = [res EXCEPT ![self] = "NotFound"]
                           /\ IF ownerLock = self
                                 THEN /\ ownerLock' = Free
                                 ELSE /\ TRUE
                                      /\ UNCHANGED ownerLock
                           /\ IF studyLock = self
                                 THEN /\ studyLock' = Free
                                 ELSE /\ TRUE
                                      /\ UNCHANGED studyLock
                           /\ IF opLock = self
                                 THEN /\ opLock' = Free
                                 ELSE /\ TRUE
                                      /\ UNCHANGED opLock
                           /\ pc' = [pc EXCEPT ![self] = "Done"]
                           /\ tr' = tr
                      ELSE /\ tr' = [tr EXCEPT ![self] = ds.trial[S][c[self].t]]
                           /\ pc' = [pc EXCEPT ![self] = "tl_upd"]
                           /\ UNCHANGED << ownerLock, studyLock, opLock, res >>
                /\ UNCHANGED << scen, ds, ds0, c, stu, snap, id, opn, out, 
                                pool, k, unf, esop >>

tl_upd(self) == /\ pc[self] = "tl_upd"
                /\ IF c[self].rpc = "AddMeasurement"
                      THEN /\ IF tr[self].state = "INFEASIBLE"
                                 THEN /\ res' = [res EXCEPT ![self] = "None"]
                                      /\ IF ownerLock = self
                                            THEN /\ ownerLock' = Free
                                            ELSE /\ TRUE
                                                 /\ UNCHANGED ownerLock
                                      /\ IF studyLock = self
                                            THEN /\ studyLock' = Free
                                            ELSE /\ TRUE
                                                 /\ UNCHANGED studyLock
                                      /\ IF opLock = self
                                            THEN /\ opLock' = Free
                                            ELSE /\ TRUE
                                                 /\ UNCHANGED opLock
                                      /\ pc' = [pc EXCEPT ![self] = "Done"]
                                      /\ ds' = ds
                                 ELSE /\ IF tr[self].state \notin Mutable
                                            THEN /\ res' = [res EXCEPT ![self] = "FailedPrecondition"]
                                                 /\ IF ownerLock = self
                                                       THEN /\ ownerLock' = Free
                                                       ELSE /\ TRUE
                                                            /\ UNCHANGED ownerLock
                                                 /\ IF studyLock = self
                                                       THEN /\ studyLock' = Free
                                                       ELSE /\ TRUE
                                                            /\ UNCHANGED studyLock
                                                 /\ IF opLock = self
                                                       THEN /\ opLock' = Free
                                                       ELSE /\ TRUE
                                                            /\ UNCHANGED opLock
                                                 /\ pc' = [pc EXCEPT ![self] = "Done"]
                                                 /\ ds' = ds
                                            ELSE /\ IF ~StudyThere \/ ~TrialThere(c[self].t)
                                                       THEN /\ res' = [res EXCEPT ![self] = "NotFound"]
                                                            /\ IF ownerLock = self
                                                                  THEN /\ ownerLock' = Free
                                                                  ELSE /\ TRUE
                                                                       /\ UNCHANGED ownerLock
                                                            /\ IF studyLock = self
                                                                  THEN /\ studyLock' = Free
                                                                  ELSE /\ TRUE
                                                                       /\ UNCHANGED studyLock
                                                            /\ IF opLock = self
                                                                  THEN /\ opLock' = Free
                                                                  ELSE /\ TRUE
                                                                       /\ UNCHANGED opLock
                                                            /\ pc' = [pc EXCEPT ![self] = "Done"]
                                                            /\ ds' = ds
                                                       ELSE /\ ds' = [ds EXCEPT !.trial[S][c[self].t] = [tr[self] EXCEPT !.meas = Append(@, c[self].m)]]
                                                            /\ res' = [res EXCEPT ![self] = "None"]
                                                            /\ IF ownerLock = self
                                                                  THEN /\ ownerLock' = Free
                                                                  ELSE /\ TRUE
                                                                       /\ UNCHANGED ownerLock
                                                            /\ IF studyLock = self
                                                                  THEN /\ studyLock' = Free
                                                                  ELSE /\ TRUE
                                                                       /\ UNCHANGED studyLock
                                                            /\ IF opLock = self
                                                                  THEN /\ opLock' = Free
                                                                  ELSE /\ TRUE
                                                                       /\ UNCHANGED opLock
                                                            /\ pc' = [pc EXCEPT ![self] = "Done"]
                      ELSE /\ IF c[self].rpc = "CompleteTrial"
                                 THEN /\ IF tr[self].state \notin Mutable
                                            THEN /\ res' = [res EXCEPT ![self] = "FailedPrecondition"]
                                                 /\ IF ownerLock = self
                                                       THEN /\ ownerLock' = Free
                                                       ELSE /\ TRUE
                                                            /\ UNCHANGED ownerLock
                                                 /\ IF studyLock = self
                                                       THEN /\ studyLock' = Free
                                                       ELSE /\ TRUE
                                                            /\ UNCHANGED studyLock
                                                 /\ IF opLock = self
                                                       THEN /\ opLock' = Free
                                                       ELSE /\ TRUE
                                                            /\ UNCHANGED opLock
                                                 /\ pc' = [pc EXCEPT ![self] = "Done"]
                                                 /\ ds' = ds
                                            ELSE /\ IF c[self].f = None /\ ~c[self].inf /\ tr[self].meas = <<>>
                                                       THEN /\ res' = [res EXCEPT ![self] = "Unknown"]
                                                            /\ IF ownerLock = self
                                                                  THEN /\ ownerLock' = Free
                                                                  ELSE /\ TRUE
                                                                       /\ UNCHANGED ownerLock
                                                            /\ IF studyLock = self
                                                                  THEN /\ studyLock' = Free
                                                                  ELSE /\ TRUE
                                                                       /\ UNCHANGED studyLock
                                                            /\ IF opLock = self
                                                                  THEN /\ opLock' = Free
                                                                  ELSE /\ TRUE
                                                                       /\ UNCHANGED opLock
                                                            /\ pc' = [pc EXCEPT ![self] = "Done"]
                                                            /\ ds' = ds
                                                       ELSE /\ IF ~StudyThere \/ ~TrialThere(c[self].t)
                                                                  THEN /\ res' = [res EXCEPT ![self] = "NotFound"]
                                                                       /\ IF ownerLock = self
                                                                             THEN /\ ownerLock' = Free
                                                                             ELSE /\ TRUE
                                                                                  /\ UNCHANGED ownerLock
                                                                       /\ IF studyLock = self
                                                                             THEN /\ studyLock' = Free
                                                                             ELSE /\ TRUE
                                                                                  /\ UNCHANGED studyLock
                                                                       /\ IF opLock = self
                                                                             THEN /\ opLock' = Free
                                                                             ELSE /\ TRUE
                                                                                  /\ UNCHANGED opLock
                                                                       /\ pc' = [pc EXCEPT ![self] = "Done"]
                                                                       /\ ds' = ds
                                                                  ELSE /\ ds' = [ds EXCEPT !.trial[S][c[self].t] = [tr[self] EXCEPT !.state = IF c[self].inf THEN "INFEASIBLE" ELSE "SUCCEEDED",
                                                                                                                                    !.final = IF c[self].f # None THEN c[self].f ELSE IF ~c[self].inf THEN tr[self].meas[Len(tr[self].meas)] ELSE tr[self].final,
                                                                                                                                    !.reason = IF c[self].inf THEN c[self].reason ELSE @]]
                                                                       /\ res' = [res EXCEPT ![self] = "None"]
                                                                       /\ IF ownerLock = self
                                                                             THEN /\ ownerLock' = Free
                                                                             ELSE /\ TRUE
                                                                                  /\ UNCHANGED ownerLock
                                                                       /\ IF studyLock = self
                                                                             THEN /\ studyLock' = Free
                                                                             ELSE /\ TRUE
                                                                                  /\ UNCHANGED studyLock
                                                                       /\ IF opLock = self
                                                                             THEN /\ opLock' = Free
                                                                             ELSE /\ TRUE
                                                                                  /\ UNCHANGED opLock
                                                                       /\ pc' = [pc EXCEPT ![self] = "Done"]
                                 ELSE /\ IF tr[self].state = "ACTIVE"
                                            THEN /\ IF ~StudyThere \/ ~TrialThere(c[self].t)
                                                       THEN /\ res' = [res EXCEPT ![self] = "NotFound"]
                                                            /\ IF ownerLock = self
                                                                  THEN /\ ownerLock' = Free
                                                                  ELSE /\ TRUE
                                                                       /\ UNCHANGED ownerLock
                                                            /\ IF studyLock = self
                                                                  THEN /\ studyLock' = Free
                                                                  ELSE /\ TRUE
                                                                       /\ UNCHANGED studyLock
                                                            /\ IF opLock = self
                                                                  THEN /\ opLock' = Free
                                                                  ELSE /\ TRUE
                                                                       /\ UNCHANGED opLock
                                                            /\ pc' = [pc EXCEPT ![self] = "Done"]
                                                            /\ ds' = ds
                                                       ELSE /\ ds' = [ds EXCEPT !.trial[S][c[self].t] = [tr[self] EXCEPT !.state = "STOPPING"]]
                                                            /\ res' = [res EXCEPT ![self] = "None"]
                                                            /\ IF ownerLock = self
                                                                  THEN /\ ownerLock' = Free
                                                                  ELSE /\ TRUE
                                                                       /\ UNCHANGED ownerLock
                                                            /\ IF studyLock = self
                                                                  THEN /\ studyLock' = Free
                                                                  ELSE /\ TRUE
                                                                       /\ UNCHANGED studyLock
                                                            /\ IF opLock = self
                                                                  THEN /\ opLock' = Free
                                                                  ELSE /\ TRUE
                                                                       /\ UNCHANGED opLock
                                                            /\ pc' = [pc EXCEPT ![self] = "Done"]
                                            ELSE /\ IF tr[self].state \in {"STOPPING", "SUCCEEDED"}
                                                       THEN /\ res' = [res EXCEPT ![self] = "None"]
                                                            /\ IF ownerLock = self
                                                                  THEN /\ ownerLock' = Free
                                                                  ELSE /\ TRUE
                                                                       /\ UNCHANGED ownerLock
                                                            /\ IF studyLock = self
                                                                  THEN /\ studyLock' = Free
                                                                  ELSE /\ TRUE
                                                                       /\ UNCHANGED studyLock
                                                            /\ IF opLock = self
                                                                  THEN /\ opLock' = Free
                                                                  ELSE /\ TRUE
                                                                       /\ UNCHANGED opLock
                                                            /\ pc' = [pc EXCEPT ![self] = "Done"]
                                                       ELSE /\ res' = [res EXCEPT ![self] = "FailedPrecondition"]
                                                            /\ IF ownerLock = self
                                                                  THEN /\ ownerLock' = Free
                                                                  ELSE /\ TRUE
                                                                       /\ UNCHANGED ownerLock
                                                            /\ IF studyLock = self
                                                                  THEN /\ studyLock' = Free
                                                                  ELSE /\ TRUE
                                                                       /\ UNCHANGED studyLock
                                                            /\ IF opLock = self
                                                                  THEN /\ opLock' = Free
                                                                  ELSE /\ TRUE
                                                                       /\ UNCHANGED opLock
                                                            /\ pc' = [pc EXCEPT ![self] = "Done"]
                                                 /\ ds' = ds
                /\ UNCHANGED << scen, ds0, c, tr, stu, snap, id, opn, out, 
                                pool, k, unf, esop >>

st_lock(self) == /\ pc[self] = "st_lock"
                 /\ opLock = Free
                 /\ opLock' = self
                 /\ pc' = [pc EXCEPT ![self] = "st_load"]
                 /\ UNCHANGED << scen, ds, ds0, ownerLock, studyLock, res, c, 
                                 tr, stu, snap, id, opn, out, pool, k, unf, 
                                 esop >>

st_load(self) == /\ pc[self] = "st_load"
                 /\ IF ~StudyThere
                       THEN /\ res' = [res EXCEPT ![self] = "NotFound"]
                            /\ IF ownerLock = self
                                  THEN /\ ownerLock' = Free
                                  ELSE /\ TRUE
                                       /\ UNCHANGED ownerLock
                            /\ IF studyLock = self
                                  THEN /\ studyLock' = Free
                                  ELSE /\ TRUE
                                       /\ UNCHANGED studyLock
                            /\ IF opLock = self
                                  THEN /\ opLock' = Free
                                  ELSE /\ TRUE
                                       /\ UNCHANGED opLock
                            /\ pc' = [pc EXCEPT ![self] = "Done"]
                            /\ stu' = stu
                       ELSE /\ stu' = [stu EXCEPT ![self] = ds.study[S]]
                            /\ pc' = [pc EXCEPT ![self] = "st_unf"]
                            /\ UNCHANGED << ownerLock, studyLock, opLock, res >>
                 /\ UNCHANGED << scen, ds, ds0, c, tr, snap, id, opn, out, 
                                 pool, k, unf, esop >>

st_unf(self) == /\ pc[self] = "st_unf"
                /\ unf' = [unf EXCEPT ![self] = SeqOf({i \in DOMAIN ds.ops[S][c[self].w] : ~ds.ops[S][c[self].w][i].done})]
                /\ pc' = [pc EXCEPT ![self] = "st_close"]
                /\ UNCHANGED << scen, ds, ds0, ownerLock, studyLock, opLock, 
                                res, c, tr, stu, snap, id, opn, out, pool, k, 
                                esop >>

st_close(self) == /\ pc[self] = "st_close"
                  /\ IF unf[self] # <<>>
                        THEN /\ IF ~StudyThere
                                   THEN /\ res' = [res EXCEPT ![self] = "NotFound"]
                                        /\ IF ownerLock = self
                                              THEN /\ ownerLock' = Free
                                              ELSE /\ TRUE
                                                   /\ UNCHANGED ownerLock
                                        /\ IF studyLock = self
                                              THEN /\ studyLock' = Free
                                              ELSE /\ TRUE
                                                   /\ UNCHANGED studyLock
                                        /\ IF opLock = self
                                              THEN /\ opLock' = Free
                                              ELSE /\ TRUE
                                                   /\ UNCHANGED opLock
                                        /\ pc' = [pc EXCEPT ![self] = "Done"]
                                        /\ UNCHANGED << ds, unf >>
                                   ELSE /\ ds' = [ds EXCEPT !.ops[S][c[self].w][Head(unf[self])] = [@ EXCEPT !.done = TRUE, !.err = TRUE]]
                                        /\ unf' = [unf EXCEPT ![self] = Tail(unf[self])]
                                        /\ pc' = [pc EXCEPT ![self] = "st_close"]
                                        /\ UNCHANGED << ownerLock, studyLock, 
                                                        opLock, res >>
                        ELSE /\ pc' = [pc EXCEPT ![self] = "st_opn"]
                             /\ UNCHANGED << ds, ownerLock, studyLock, opLock, 
                                             res, unf >>
                  /\ UNCHANGED << scen, ds0, c, tr, stu, snap, id, opn, out, 
                                  pool, k, esop >>

st_opn(self) == /\ pc[self] = "st_opn"
                /\ opn' = [opn EXCEPT ![self] = Len(ds.ops[S][c[self].w]) + 1]
                /\ pc' = [pc EXCEPT ![self] = "st_mkop"]
                /\ UNCHANGED << scen, ds, ds0, ownerLock, studyLock, opLock, 
                                res, c, tr, stu, snap, id, out, pool, k, unf, 
                                esop >>

st_mkop(self) == /\ pc[self] = "st_mkop"
                 /\ IF ~StudyThere
                       THEN /\ res' = [res EXCEPT ![self] = "NotFound"]
                            /\ IF ownerLock = self
                                  THEN /\ ownerLock' = Free
                                  ELSE /\ TRUE
                                       /\ UNCHANGED ownerLock
                            /\ IF studyLock = self
                                  THEN /\ studyLock' = Free
                                  ELSE /\ TRUE
                                       /\ UNCHANGED studyLock
                            /\ IF opLock = self
                                  THEN /\ opLock' = Free
                                  ELSE /\ TRUE
                                       /\ UNCHANGED opLock
                            /\ pc' = [pc EXCEPT ![self] = "Done"]
                            /\ ds' = ds
                       ELSE /\ ds' = [ds EXCEPT !.ops[S][c[self].w] = Append(@, [done |-> FALSE, err |-> FALSE, trials |-> <<>>])]
                            /\ pc' = [pc EXCEPT ![self] = "st_list"]
                            /\ UNCHANGED << ownerLock, studyLock, opLock, res >>
                 /\ UNCHANGED << scen, ds0, c, tr, stu, snap, id, opn, out, 
                                 pool, k, unf, esop >>

st_list(self) == /\ pc[self] = "st_list"
                 /\ IF ~StudyThere
                       THEN /\ res' = [res EXCEPT ![self] = "NotFound"]
                            /\ IF ownerLock = self
                                  THEN /\ ownerLock' = Free
                                  ELSE /\ TRUE
                                       /\ UNCHANGED ownerLock
                            /\ IF studyLock = self
                                  THEN /\ studyLock' = Free
                                  ELSE /\ TRUE
                                       /\ UNCHANGED studyLock
                            /\ IF opLock = self
                                  THEN /\ opLock' = Free
                                  ELSE /\ TRUE
                                       /\ UNCHANGED opLock
                            /\ pc' = [pc EXCEPT ![self] = "Done"]
                            /\ UNCHANGED << snap, out, pool >>
                       ELSE /\ snap' = [snap EXCEPT ![self] = ds.trial[S]]
                            /\ pool' = [pool EXCEPT ![self] = SeqOf({t \in Ids : ds.trial[S][t] # Absent /\ ds.trial[S][t].state = "REQUESTED"})]
                            /\ LET own == {t \in Ids : ds.trial[S][t] # Absent /\ ds.trial[S][t].state = "ACTIVE" /\ ds.trial[S][t].client = c[self].w} IN
                                 IF Cardinality(own) >= c[self].n
                                    THEN /\ out' = [out EXCEPT ![self] = {SeqOf(own)[i] : i \in 1..c[self].n}]
                                         /\ pc' = [pc EXCEPT ![self] = "st_fin"]
                                    ELSE /\ out' = [out EXCEPT ![self] = own]
                                         /\ pc' = [pc EXCEPT ![self] = "st_pool"]
                            /\ UNCHANGED << ownerLock, studyLock, opLock, res >>
                 /\ UNCHANGED << scen, ds, ds0, c, tr, stu, id, opn, k, unf, 
                                 esop >>

st_pool(self) == /\ pc[self] = "st_pool"
                 /\ IF Cardinality(out[self]) < c[self].n /\ pool[self] # <<>>
                       THEN /\ pc' = [pc EXCEPT ![self] = "sp_lock"]
                       ELSE /\ pc' = [pc EXCEPT ![self] = "st_chk"]
                 /\ UNCHANGED << scen, ds, ds0, ownerLock, studyLock, opLock, 
                                 res, c, tr, stu, snap, id, opn, out, pool, k, 
                                 unf, esop >>

sp_lock(self) == /\ pc[self] = "sp_lock"
                 /\ studyLock = Free
                 /\ studyLock' = self
                 /\ pc' = [pc EXCEPT ![self] = "sp_get"]
                 /\ UNCHANGED << scen, ds, ds0, ownerLock, opLock, res, c, tr, 
                                 stu, snap, id, opn, out, pool, k, unf, esop >>

sp_get(self) == /\ pc[self] = "sp_get"
                /\ id' = [id EXCEPT ![self] = pool[self][Len(pool[self])]]
                /\ pool' = [pool EXCEPT ![self] = SubSeq(pool[self], 1, Len(pool[self]) - 1)]
                /\ IF ~StudyThere \/ ~TrialThere(id'[self])
                      THEN /\ studyLock' = Free
                           /\ tr' = [tr EXCEPT ![self] = Absent]
                      ELSE /\ tr' = [tr EXCEPT ![self] = ds.trial[S][id'[self]]]
                           /\ UNCHANGED studyLock
                /\ pc' = [pc EXCEPT ![self] = "sp_upd"]
                /\ UNCHANGED << scen, ds, ds0, ownerLock, opLock, res, c, stu, 
                                snap, opn, out, k, unf, esop >>

sp_upd(self) == /\ pc[self] = "sp_upd"
                /\ IF tr[self] = Absent
                      THEN /\ TRUE
                           /\ pc' = [pc EXCEPT ![self] = "st_pool"]
                           /\ UNCHANGED << ds, ownerLock, studyLock, opLock, 
                                           res, out >>
                      ELSE /\ IF tr[self].state # "REQUESTED"
                                 THEN /\ studyLock' = Free
                                      /\ pc' = [pc EXCEPT ![self] = "st_pool"]
                                      /\ UNCHANGED << ds, ownerLock, opLock, 
                                                      res, out >>
                                 ELSE /\ IF ~StudyThere \/ ~TrialThere(id[self])
                                            THEN /\ res' = [res EXCEPT ![self] = "NotFound"]
                                                 /\ IF ownerLock = self
                                                       THEN /\ ownerLock' = Free
                                                       ELSE /\ TRUE
                                                            /\ UNCHANGED ownerLock
                                                 /\ IF studyLock = self
                                                       THEN /\ studyLock' = Free
                                                       ELSE /\ TRUE
                                                            /\ UNCHANGED studyLock
                                                 /\ IF opLock = self
                                                       THEN /\ opLock' = Free
                                                       ELSE /\ TRUE
                                                            /\ UNCHANGED opLock
                                                 /\ pc' = [pc EXCEPT ![self] = "Done"]
                                                 /\ UNCHANGED << ds, out >>
                                            ELSE /\ ds' = [ds EXCEPT !.trial[S][id[self]] = [tr[self] EXCEPT !.state = "ACTIVE", !.client = c[self].w]]
                                                 /\ out' = [out EXCEPT ![self] = out[self] \cup {id[self]}]
                                                 /\ studyLock' = Free
                                                 /\ pc' = [pc EXCEPT ![self] = "st_pool"]
                                                 /\ UNCHANGED << ownerLock, 
                                                                 opLock, res >>
                /\ UNCHANGED << scen, ds0, c, tr, stu, snap, id, opn, pool, k, 
                                unf, esop >>

st_chk(self) == /\ pc[self] = "st_chk"
                /\ IF Cardinality(out[self]) >= c[self].n
                      THEN /\ pc' = [pc EXCEPT ![self] = "st_fin"]
                      ELSE /\ pc' = [pc EXCEPT ![self] = "st_desc"]
                /\ UNCHANGED << scen, ds, ds0, ownerLock, studyLock, opLock, 
                                res, c, tr, stu, snap, id, opn, out, pool, k, 
                                unf, esop >>

st_desc(self) == /\ pc[self] = "st_desc"
                 /\ IF ~StudyThere
                       THEN /\ res' = [res EXCEPT ![self] = "NotFound"]
                            /\ IF ownerLock = self
                                  THEN /\ ownerLock' = Free
                                  ELSE /\ TRUE
                                       /\ UNCHANGED ownerLock
                            /\ IF studyLock = self
                                  THEN /\ studyLock' = Free
                                  ELSE /\ TRUE
                                       /\ UNCHANGED studyLock
                            /\ IF opLock = self
                                  THEN /\ opLock' = Free
                                  ELSE /\ TRUE
                                       /\ UNCHANGED opLock
                            /\ pc' = [pc EXCEPT ![self] = "Done"]
                       ELSE /\ pc' = [pc EXCEPT ![self] = "st_pyth"]
                            /\ UNCHANGED << ownerLock, studyLock, opLock, res >>
                 /\ UNCHANGED << scen, ds, ds0, c, tr, stu, snap, id, opn, out, 
                                 pool, k, unf, esop >>

st_pyth(self) == /\ pc[self] = "st_pyth"
                 /\ IF c[self].env.raise
                       THEN /\ IF ~StudyThere
                                  THEN /\ res' = [res EXCEPT ![self] = "NotFound"]
                                       /\ IF ownerLock = self
                                             THEN /\ ownerLock' = Free
                                             ELSE /\ TRUE
                                                  /\ UNCHANGED ownerLock
                                       /\ IF studyLock = self
                                             THEN /\ studyLock' = Free
                                             ELSE /\ TRUE
                                                  /\ UNCHANGED studyLock
                                       /\ IF opLock = self
                                             THEN /\ opLock' = Free
                                             ELSE /\ TRUE
                                                  /\ UNCHANGED opLock
                                       /\ pc' = [pc EXCEPT ![self] = "Done"]
                                       /\ ds' = ds
                                  ELSE /\ ds' = [ds EXCEPT !.ops[S][c[self].w][opn[self]] = [done |-> TRUE, err |-> TRUE, trials |-> <<>>]]
                                       /\ res' = [res EXCEPT ![self] = "None"]
                                       /\ IF ownerLock = self
                                             THEN /\ ownerLock' = Free
                                             ELSE /\ TRUE
                                                  /\ UNCHANGED ownerLock
                                       /\ IF studyLock = self
                                             THEN /\ studyLock' = Free
                                             ELSE /\ TRUE
                                                  /\ UNCHANGED studyLock
                                       /\ IF opLock = self
                                             THEN /\ opLock' = Free
                                             ELSE /\ TRUE
                                                  /\ UNCHANGED opLock
                                       /\ pc' = [pc EXCEPT ![self] = "Done"]
                       ELSE /\ pc' = [pc EXCEPT ![self] = "sm_lock"]
                            /\ UNCHANGED << ds, ownerLock, studyLock, opLock, 
                                            res >>
                 /\ UNCHANGED << scen, ds0, c, tr, stu, snap, id, opn, out, 
                                 pool, k, unf, esop >>

sm_lock(self) == /\ pc[self] = "sm_lock"
                 /\ studyLock = Free
                 /\ studyLock' = self
                 /\ pc' = [pc EXCEPT ![self] = "st_meta"]
                 /\ UNCHANGED << scen, ds, ds0, ownerLock, opLock, res, c, tr, 
                                 stu, snap, id, opn, out, pool, k, unf, esop >>

st_meta(self) == /\ pc[self] = "st_meta"
                 /\ IF ~StudyThere
                       THEN /\ res' = [res EXCEPT ![self] = "NotFound"]
                            /\ IF ownerLock = self
                                  THEN /\ ownerLock' = Free
                                  ELSE /\ TRUE
                                       /\ UNCHANGED ownerLock
                            /\ IF studyLock = self
                                  THEN /\ studyLock' = Free
                                  ELSE /\ TRUE
                                       /\ UNCHANGED studyLock
                            /\ IF opLock = self
                                  THEN /\ opLock' = Free
                                  ELSE /\ TRUE
                                       /\ UNCHANGED opLock
                            /\ pc' = [pc EXCEPT ![self] = "Done"]
                            /\ UNCHANGED << ds, k >>
                       ELSE /\ ds' = [ds EXCEPT !.study[S].meta = Merge(@, c[self].env.md)]
                            /\ k' = [k EXCEPT ![self] = Len(c[self].env.ps)]
                            /\ studyLock' = Free
                            /\ pc' = [pc EXCEPT ![self] = "st_new"]
                            /\ UNCHANGED << ownerLock, opLock, res >>
                 /\ UNCHANGED << scen, ds0, c, tr, stu, snap, id, opn, out, 
                                 pool, unf, esop >>

st_new(self) == /\ pc[self] = "st_new"
                /\ IF Cardinality(out[self]) < c[self].n /\ k[self] > 0
                      THEN /\ pc' = [pc EXCEPT ![self] = "sn_lock"]
                      ELSE /\ pc' = [pc EXCEPT ![self] = "st_rest"]
                /\ UNCHANGED << scen, ds, ds0, ownerLock, studyLock, opLock, 
                                res, c, tr, stu, snap, id, opn, out, pool, k, 
                                unf, esop >>

sn_lock(self) == /\ pc[self] = "sn_lock"
                 /\ studyLock = Free
                 /\ studyLock' = self
                 /\ pc' = [pc EXCEPT ![self] = "sn_max"]
                 /\ UNCHANGED << scen, ds, ds0, ownerLock, opLock, res, c, tr, 
                                 stu, snap, id, opn, out, pool, k, unf, esop >>

sn_max(self) == /\ pc[self] = "sn_max"
                /\ IF ~StudyThere
                      THEN /\ res' = [res EXCEPT ![self] = "NotFound"]
                           /\ IF ownerLock = self
                                 THEN /\ ownerLock' = Free
                                 ELSE /\ TRUE
                                      /\ UNCHANGED ownerLock
                           /\ IF studyLock = self
                                 THEN /\ studyLock' = Free
                                 ELSE /\ TRUE
                                      /\ UNCHANGED studyLock
                           /\ IF opLock = self
                                 THEN /\ opLock' = Free
                                 ELSE /\ TRUE
                                      /\ UNCHANGED opLock
                           /\ pc' = [pc EXCEPT ![self] = "Done"]
                           /\ id' = id
                      ELSE /\ id' = [id EXCEPT ![self] = MaxTrialId(ds, S) + 1]
                           /\ pc' = [pc EXCEPT ![self] = "sn_ins"]
                           /\ UNCHANGED << ownerLock, studyLock, opLock, res >>
                /\ UNCHANGED << scen, ds, ds0, c, tr, stu, snap, opn, out, 
                                pool, k, unf, esop >>

sn_ins(self) == /\ pc[self] = "sn_ins"
                /\ IF id[self] > MaxId
                      THEN /\ res' = [res EXCEPT ![self] = "ModelBound"]
                           /\ IF ownerLock = self
                                 THEN /\ ownerLock' = Free
                                 ELSE /\ TRUE
                                      /\ UNCHANGED ownerLock
                           /\ IF studyLock = self
                                 THEN /\ studyLock' = Free
                                 ELSE /\ TRUE
                                      /\ UNCHANGED studyLock
                           /\ IF opLock = self
                                 THEN /\ opLock' = Free
                                 ELSE /\ TRUE
                                      /\ UNCHANGED opLock
                           /\ pc' = [pc EXCEPT ![self] = "Done"]
                           /\ UNCHANGED << ds, out, k >>
                      ELSE /\ IF ~StudyThere
                                 THEN /\ res' = [res EXCEPT ![self] = "NotFound"]
                                      /\ IF ownerLock = self
                                            THEN /\ ownerLock' = Free
                                            ELSE /\ TRUE
                                                 /\ UNCHANGED ownerLock
                                      /\ IF studyLock = self
                                            THEN /\ studyLock' = Free
                                            ELSE /\ TRUE
                                                 /\ UNCHANGED studyLock
                                      /\ IF opLock = self
                                            THEN /\ opLock' = Free
                                            ELSE /\ TRUE
                                                 /\ UNCHANGED opLock
                                      /\ pc' = [pc EXCEPT ![self] = "Done"]
                                      /\ UNCHANGED << ds, out, k >>
                                 ELSE /\ IF TrialThere(id[self])
                                            THEN /\ res' = [res EXCEPT ![self] = "AlreadyExists"]
                                                 /\ IF ownerLock = self
                                                       THEN /\ ownerLock' = Free
                                                       ELSE /\ TRUE
                                                            /\ UNCHANGED ownerLock
                                                 /\ IF studyLock = self
                                                       THEN /\ studyLock' = Free
                                                       ELSE /\ TRUE
                                                            /\ UNCHANGED studyLock
                                                 /\ IF opLock = self
                                                       THEN /\ opLock' = Free
                                                       ELSE /\ TRUE
                                                            /\ UNCHANGED opLock
                                                 /\ pc' = [pc EXCEPT ![self] = "Done"]
                                                 /\ UNCHANGED << ds, out, k >>
                                            ELSE /\ ds' = [ds EXCEPT !.trial[S][id[self]] = NewTrial("ACTIVE", c[self].w, c[self].env.ps[k[self]], None)]
                                                 /\ out' = [out EXCEPT ![self] = out[self] \cup {id[self]}]
                                                 /\ k' = [k EXCEPT ![self] = k[self] - 1]
                                                 /\ studyLock' = Free
                                                 /\ pc' = [pc EXCEPT ![self] = "st_new"]
                                                 /\ UNCHANGED << ownerLock, 
                                                                 opLock, res >>
                /\ UNCHANGED << scen, ds0, c, tr, stu, snap, id, opn, pool, 
                                unf, esop >>

st_rest(self) == /\ pc[self] = "st_rest"
                 /\ IF k[self] > 0
                       THEN /\ pc' = [pc EXCEPT ![self] = "sr_lock"]
                       ELSE /\ pc' = [pc EXCEPT ![self] = "st_fin"]
                 /\ UNCHANGED << scen, ds, ds0, ownerLock, studyLock, opLock, 
                                 res, c, tr, stu, snap, id, opn, out, pool, k, 
                                 unf, esop >>

sr_lock(self) == /\ pc[self] = "sr_lock"
                 /\ studyLock = Free
                 /\ studyLock' = self
                 /\ pc' = [pc EXCEPT ![self] = "sr_max"]
                 /\ UNCHANGED << scen, ds, ds0, ownerLock, opLock, res, c, tr, 
                                 stu, snap, id, opn, out, pool, k, unf, esop >>

sr_max(self) == /\ pc[self] = "sr_max"
                /\ IF ~StudyThere
                      THEN /\ res' = [res EXCEPT ![self] = "NotFound"]
                           /\ IF ownerLock = self
                                 THEN /\ ownerLock' = Free
                                 ELSE /\ TRUE
                                      /\ UNCHANGED ownerLock
                           /\ IF studyLock = self
                                 THEN /\ studyLock' = Free
                                 ELSE /\ TRUE
                                      /\ UNCHANGED studyLock
                           /\ IF opLock = self
                                 THEN /\ opLock' = Free
                                 ELSE /\ TRUE
                                      /\ UNCHANGED opLock
                           /\ pc' = [pc EXCEPT ![self] = "Done"]
                           /\ id' = id
                      ELSE /\ id' = [id EXCEPT ![self] = MaxTrialId(ds, S) + 1]
                           /\ pc' = [pc EXCEPT ![self] = "sr_ins"]
                           /\ UNCHANGED << ownerLock, studyLock, opLock, res >>
                /\ UNCHANGED << scen, ds, ds0, c, tr, stu, snap, opn, out, 
                                pool, k, unf, esop >>

sr_ins(self) == /\ pc[self] = "sr_ins"
                /\ IF id[self] > MaxId
                      THEN /\ res' = [res EXCEPT ![self] = "ModelBound"]
                           /\ IF ownerLock = self
                                 THEN /\ ownerLock' = Free
                                 ELSE /\ TRUE
                                      /\ UNCHANGED ownerLock
                           /\ IF studyLock = self
                                 THEN /\ studyLock' = Free
                                 ELSE /\ TRUE
                                      /\ UNCHANGED studyLock
                           /\ IF opLock = self
                                 THEN /\ opLock' = Free
                                 ELSE /\ TRUE
                                      /\ UNCHANGED opLock
                           /\ pc' = [pc EXCEPT ![self] = "Done"]
                           /\ UNCHANGED << ds, k >>
                      ELSE /\ IF ~StudyThere
                                 THEN /\ res' = [res EXCEPT ![self] = "NotFound"]
                                      /\ IF ownerLock = self
                                            THEN /\ ownerLock' = Free
                                            ELSE /\ TRUE
                                                 /\ UNCHANGED ownerLock
                                      /\ IF studyLock = self
                                            THEN /\ studyLock' = Free
                                            ELSE /\ TRUE
                                                 /\ UNCHANGED studyLock
                                      /\ IF opLock = self
                                            THEN /\ opLock' = Free
                                            ELSE /\ TRUE
                                                 /\ UNCHANGED opLock
                                      /\ pc' = [pc EXCEPT ![self] = "Done"]
                                      /\ UNCHANGED << ds, k >>
                                 ELSE /\ IF TrialThere(id[self])
                                            THEN /\ res' = [res EXCEPT ![self] = "AlreadyExists"]
                                                 /\ IF ownerLock = self
                                                       THEN /\ ownerLock' = Free
                                                       ELSE /\ TRUE
                                                            /\ UNCHANGED ownerLock
                                                 /\ IF studyLock = self
                                                       THEN /\ studyLock' = Free
                                                       ELSE /\ TRUE
                                                            /\ UNCHANGED studyLock
                                                 /\ IF opLock = self
                                                       THEN /\ opLock' = Free
                                                       ELSE /\ TRUE
                                                            /\ UNCHANGED opLock
                                                 /\ pc' = [pc EXCEPT ![self] = "Done"]
                                                 /\ UNCHANGED << ds, k >>
                                            ELSE /\ ds' = [ds EXCEPT !.trial[S][id[self]] = NewTrial("REQUESTED", None, c[self].env.ps[Len(c[self].env.ps) - k[self] + 1], None)]
                                                 /\ k' = [k EXCEPT ![self] = k[self] - 1]
                                                 /\ studyLock' = Free
                                                 /\ pc' = [pc EXCEPT ![self] = "st_rest"]
                                                 /\ UNCHANGED << ownerLock, 
                                                                 opLock, res >>
                /\ UNCHANGED << scen, ds0, c, tr, stu, snap, id, opn, out, 
                                pool, unf, esop >>

st_fin(self) == /\ pc[self] = "st_fin"
                /\ IF ~StudyThere
                      THEN /\ res' = [res EXCEPT ![self] = "NotFound"]
                           /\ IF ownerLock = self
                                 THEN /\ ownerLock' = Free
                                 ELSE /\ TRUE
                                      /\ UNCHANGED ownerLock
                           /\ IF studyLock = self
                                 THEN /\ studyLock' = Free
                                 ELSE /\ TRUE
                                      /\ UNCHANGED studyLock
                           /\ IF opLock = self
                                 THEN /\ opLock' = Free
                                 ELSE /\ TRUE
                                      /\ UNCHANGED opLock
                           /\ pc' = [pc EXCEPT ![self] = "Done"]
                           /\ ds' = ds
                      ELSE /\ ds' = [ds EXCEPT !.ops[S][c[self].w][opn[self]] = [done |-> TRUE, err |-> FALSE, trials |-> SeqOf(out[self])]]
                           /\ res' = [res EXCEPT ![self] = "None"]
                           /\ IF ownerLock = self
                                 THEN /\ ownerLock' = Free
                                 ELSE /\ TRUE
                                      /\ UNCHANGED ownerLock
                           /\ IF studyLock = self
                                 THEN /\ studyLock' = Free
                                 ELSE /\ TRUE
                                      /\ UNCHANGED studyLock
                           /\ IF opLock = self
                                 THEN /\ opLock' = Free
                                 ELSE /\ TRUE
                                      /\ UNCHANGED opLock
                           /\ pc' = [pc EXCEPT ![self] = "Done"]
                /\ UNCHANGED << scen, ds0, c, tr, stu, snap, id, opn, out, 
                                pool, k, unf, esop >>

es_lock(self) == /\ pc[self] = "es_lock"
                 /\ studyLock = Free
                 /\ studyLock' = self
                 /\ pc' = [pc EXCEPT ![self] = "es_get"]
                 /\ UNCHANGED << scen, ds, ds0, ownerLock, opLock, res, c, tr, 
                                 stu, snap, id, opn, out, pool, k, unf, esop >>

es_get(self) == /\ pc[self] = "es_get"
                /\ IF ~StudyThere \/ ~TrialThere(c[self].t)
                      THEN /\ res' = [res EXCEPT ![self] = "NotFound"]
                           /\ IF ownerLock = self
                                 THEN /\ ownerLock' = Free
                                 ELSE /\ TRUE
                                      /\ UNCHANGED ownerLock
                           /\ IF studyLock = self
                                 THEN /\ studyLock' = Free
                                 ELSE /\ TRUE
                                      /\ UNCHANGED studyLock
                           /\ IF opLock = self
                                 THEN /\ opLock' = Free
                                 ELSE /\ TRUE
                                      /\ UNCHANGED opLock
                           /\ pc' = [pc EXCEPT ![self] = "Done"]
                      ELSE /\ IF ds.trial[S][c[self].t].state \notin Mutable
                                 THEN /\ res' = [res EXCEPT ![self] = "FailedPrecondition"]
                                      /\ IF ownerLock = self
                                            THEN /\ ownerLock' = Free
                                            ELSE /\ TRUE
                                                 /\ UNCHANGED ownerLock
                                      /\ IF studyLock = self
                                            THEN /\ studyLock' = Free
                                            ELSE /\ TRUE
                                                 /\ UNCHANGED studyLock
                                      /\ IF opLock = self
                                            THEN /\ opLock' = Free
                                            ELSE /\ TRUE
                                                 /\ UNCHANGED opLock
                                      /\ pc' = [pc EXCEPT ![self] = "Done"]
                                 ELSE /\ studyLock' = Free
                                      /\ pc' = [pc EXCEPT ![self] = "es_olock"]
                                      /\ UNCHANGED << ownerLock, opLock, res >>
                /\ UNCHANGED << scen, ds, ds0, c, tr, stu, snap, id, opn, out, 
                                pool, k, unf, esop >>

es_olock(self) == /\ pc[self] = "es_olock"
                  /\ opLock = Free
                  /\ opLock' = self
                  /\ pc' = [pc EXCEPT ![self] = "es_op"]
                  /\ UNCHANGED << scen, ds, ds0, ownerLock, studyLock, res, c, 
                                  tr, stu, snap, id, opn, out, pool, k, unf, 
                                  esop >>

es_op(self) == /\ pc[self] = "es_op"
               /\ esop' = [esop EXCEPT ![self] = ds.es[S][c[self].t]]
               /\ pc' = [pc EXCEPT ![self] = "es_mk"]
               /\ UNCHANGED << scen, ds, ds0, ownerLock, studyLock, opLock, 
                               res, c, tr, stu, snap, id, opn, out, pool, k, 
                               unf >>

es_mk(self) == /\ pc[self] = "es_mk"
               /\ IF esop[self] = Absent
                     THEN /\ IF ~StudyThere
                                THEN /\ res' = [res EXCEPT ![self] = "NotFound"]
                                     /\ IF ownerLock = self
                                           THEN /\ ownerLock' = Free
                                           ELSE /\ TRUE
                                                /\ UNCHANGED ownerLock
                                     /\ IF studyLock = self
                                           THEN /\ studyLock' = Free
                                           ELSE /\ TRUE
                                                /\ UNCHANGED studyLock
                                     /\ IF opLock = self
                                           THEN /\ opLock' = Free
                                           ELSE /\ TRUE
                                                /\ UNCHANGED opLock
                                     /\ pc' = [pc EXCEPT ![self] = "Done"]
                                     /\ ds' = ds
                                ELSE /\ ds' = [ds EXCEPT !.es[S][c[self].t] = [status |-> "ACTIVE", stop |-> FALSE]]
                                     /\ pc' = [pc EXCEPT ![self] = "es_load"]
                                     /\ UNCHANGED << ownerLock, studyLock, 
                                                     opLock, res >>
                     ELSE /\ IF esop[self].status = "ACTIVE" \/ (esop[self].status = "DONE" /\ Recycle = "never")
                                THEN /\ res' = [res EXCEPT ![self] = "None"]
                                     /\ IF ownerLock = self
                                           THEN /\ ownerLock' = Free
                                           ELSE /\ TRUE
                                                /\ UNCHANGED ownerLock
                                     /\ IF studyLock = self
                                           THEN /\ studyLock' = Free
                                           ELSE /\ TRUE
                                                /\ UNCHANGED studyLock
                                     /\ IF opLock = self
                                           THEN /\ opLock' = Free
                                           ELSE /\ TRUE
                                                /\ UNCHANGED opLock
                                     /\ pc' = [pc EXCEPT ![self] = "Done"]
                                     /\ ds' = ds
                                ELSE /\ IF ~StudyThere
                                           THEN /\ res' = [res EXCEPT ![self] = "NotFound"]
                                                /\ IF ownerLock = self
                                                      THEN /\ ownerLock' = Free
                                                      ELSE /\ TRUE
                                                           /\ UNCHANGED ownerLock
                                                /\ IF studyLock = self
                                                      THEN /\ studyLock' = Free
                                                      ELSE /\ TRUE
                                                           /\ UNCHANGED studyLock
                                                /\ IF opLock = self
                                                      THEN /\ opLock' = Free
                                                      ELSE /\ TRUE
                                                           /\ UNCHANGED opLock
                                                /\ pc' = [pc EXCEPT ![self] = "Done"]
                                                /\ ds' = ds
                                           ELSE /\ ds' = [ds EXCEPT !.es[S][c[self].t] = [status |-> "ACTIVE", stop |-> FALSE]]
                                                /\ pc' = [pc EXCEPT ![self] = "es_load"]
                                                /\ UNCHANGED << ownerLock, 
                                                                studyLock, 
                                                                opLock, res >>
               /\ UNCHANGED << scen, ds0, c, tr, stu, snap, id, opn, out, pool, 
                               k, unf, esop >>

es_load(self) == /\ pc[self] = "es_load"
                 /\ IF ~StudyThere
                       THEN /\ res' = [res EXCEPT ![self] = "NotFound"]
                            /\ IF ownerLock = self
                                  THEN /\ ownerLock' = Free
                                  ELSE /\ TRUE
                                       /\ UNCHANGED ownerLock
                            /\ IF studyLock = self
                                  THEN /\ studyLock' = Free
                                  ELSE /\ TRUE
                                       /\ UNCHANGED studyLock
                            /\ IF opLock = self
                                  THEN /\ opLock' = Free
                                  ELSE /\ TRUE
                                       /\ UNCHANGED opLock
                            /\ pc' = [pc EXCEPT ![self] = "Done"]
                       ELSE /\ pc' = [pc EXCEPT ![self] = "es_pyth"]
                            /\ UNCHANGED << ownerLock, studyLock, opLock, res >>
                 /\ UNCHANGED << scen, ds, ds0, c, tr, stu, snap, id, opn, out, 
                                 pool, k, unf, esop >>

es_pyth(self) == /\ pc[self] = "es_pyth"
                 /\ IF c[self].env.raise
                       THEN /\ IF ~StudyThere
                                  THEN /\ res' = [res EXCEPT ![self] = "NotFound"]
                                       /\ IF ownerLock = self
                                             THEN /\ ownerLock' = Free
                                             ELSE /\ TRUE
                                                  /\ UNCHANGED ownerLock
                                       /\ IF studyLock = self
                                             THEN /\ studyLock' = Free
                                             ELSE /\ TRUE
                                                  /\ UNCHANGED studyLock
                                       /\ IF opLock = self
                                             THEN /\ opLock' = Free
                                             ELSE /\ TRUE
                                                  /\ UNCHANGED opLock
                                       /\ pc' = [pc EXCEPT ![self] = "Done"]
                                       /\ ds' = ds
                                  ELSE /\ ds' = [ds EXCEPT !.es[S][c[self].t] = [status |-> "FAILED", stop |-> FALSE]]
                                       /\ res' = [res EXCEPT ![self] = "Unknown"]
                                       /\ IF ownerLock = self
                                             THEN /\ ownerLock' = Free
                                             ELSE /\ TRUE
                                                  /\ UNCHANGED ownerLock
                                       /\ IF studyLock = self
                                             THEN /\ studyLock' = Free
                                             ELSE /\ TRUE
                                                  /\ UNCHANGED studyLock
                                       /\ IF opLock = self
                                             THEN /\ opLock' = Free
                                             ELSE /\ TRUE
                                                  /\ UNCHANGED opLock
                                       /\ pc' = [pc EXCEPT ![self] = "Done"]
                       ELSE /\ pc' = [pc EXCEPT ![self] = "em_lock"]
                            /\ UNCHANGED << ds, ownerLock, studyLock, opLock, 
                                            res >>
                 /\ UNCHANGED << scen, ds0, c, tr, stu, snap, id, opn, out, 
                                 pool, k, unf, esop >>

em_lock(self) == /\ pc[self] = "em_lock"
                 /\ studyLock = Free
                 /\ studyLock' = self
                 /\ pc' = [pc EXCEPT ![self] = "es_meta"]
                 /\ UNCHANGED << scen, ds, ds0, ownerLock, opLock, res, c, tr, 
                                 stu, snap, id, opn, out, pool, k, unf, esop >>

es_meta(self) == /\ pc[self] = "es_meta"
                 /\ IF ~StudyThere
                       THEN /\ res' = [res EXCEPT ![self] = "NotFound"]
                            /\ IF ownerLock = self
                                  THEN /\ ownerLock' = Free
                                  ELSE /\ TRUE
                                       /\ UNCHANGED ownerLock
                            /\ IF studyLock = self
                                  THEN /\ studyLock' = Free
                                  ELSE /\ TRUE
                                       /\ UNCHANGED studyLock
                            /\ IF opLock = self
                                  THEN /\ opLock' = Free
                                  ELSE /\ TRUE
                                       /\ UNCHANGED opLock
                            /\ pc' = [pc EXCEPT ![self] = "Done"]
                       ELSE /\ studyLock' = Free
                            /\ pc' = [pc EXCEPT ![self] = "es_done"]
                            /\ UNCHANGED << ownerLock, opLock, res >>
                 /\ UNCHANGED << scen, ds, ds0, c, tr, stu, snap, id, opn, out, 
                                 pool, k, unf, esop >>

es_done(self) == /\ pc[self] = "es_done"
                 /\ IF ~StudyThere
                       THEN /\ res' = [res EXCEPT ![self] = "NotFound"]
                            /\ IF ownerLock = self
                                  THEN /\ ownerLock' = Free
                                  ELSE /\ TRUE
                                       /\ UNCHANGED ownerLock
                            /\ IF studyLock = self
                                  THEN /\ studyLock' = Free
                                  ELSE /\ TRUE
                                       /\ UNCHANGED studyLock
                            /\ IF opLock = self
                                  THEN /\ opLock' = Free
                                  ELSE /\ TRUE
                                       /\ UNCHANGED opLock
                            /\ pc' = [pc EXCEPT ![self] = "Done"]
                            /\ ds' = ds
                       ELSE /\ ds' = [ds EXCEPT !.es[S][c[self].t] = [status |-> "DONE", stop |-> c[self].env.stop]]
                            /\ res' = [res EXCEPT ![self] = "None"]
                            /\ IF ownerLock = self
                                  THEN /\ ownerLock' = Free
                                  ELSE /\ TRUE
                                       /\ UNCHANGED ownerLock
                            /\ IF studyLock = self
                                  THEN /\ studyLock' = Free
                                  ELSE /\ TRUE
                                       /\ UNCHANGED studyLock
                            /\ IF opLock = self
                                  THEN /\ opLock' = Free
                                  ELSE /\ TRUE
                                       /\ UNCHANGED opLock
                            /\ pc' = [pc EXCEPT ![self] = "Done"]
                 /\ UNCHANGED << scen, ds0, c, tr, stu, snap, id, opn, out, 
                                 pool, k, unf, esop >>

worker(self) == start(self) \/ dispatch(self) \/ cs_lock(self)
                   \/ cs_list(self) \/ cs_new(self) \/ dels(self)
                   \/ ss_lock(self) \/ ss_load(self) \/ ss_upd(self)
                   \/ um_lock(self) \/ um_imm(self) \/ um_upd(self)
                   \/ dt_lock(self) \/ dt_del(self) \/ ct_lock(self)
                   \/ ct_max(self) \/ ct_ins(self) \/ tl_lock(self)
                   \/ tl_get(self) \/ tl_upd(self) \/ st_lock(self)
                   \/ st_load(self) \/ st_unf(self) \/ st_close(self)
                   \/ st_opn(self) \/ st_mkop(self) \/ st_list(self)
                   \/ st_pool(self) \/ sp_lock(self) \/ sp_get(self)
                   \/ sp_upd(self) \/ st_chk(self) \/ st_desc(self)
                   \/ st_pyth(self) \/ sm_lock(self) \/ st_meta(self)
                   \/ st_new(self) \/ sn_lock(self) \/ sn_max(self)
                   \/ sn_ins(self) \/ st_rest(self) \/ sr_lock(self)
                   \/ sr_max(self) \/ sr_ins(self) \/ st_fin(self)
                   \/ es_lock(self) \/ es_get(self) \/ es_olock(self)
                   \/ es_op(self) \/ es_mk(self) \/ es_load(self)
                   \/ es_pyth(self) \/ em_lock(self) \/ es_meta(self)
                   \/ es_done(self)

(* Allow infinite stuttering to prevent deadlock on termination. *)
Terminating == /\ \A self \in ProcSet: pc[self] = "Done"
               /\ UNCHANGED vars

Next == (\E self \in Procs: worker(self))
           \/ Terminating

Spec == /\ Init /\ [][Next]_vars
        /\ \A self \in Procs : WF_vars(worker(self))

Termination == <>(\A self \in ProcSet: pc[self] = "Done")

\* END TRANSLATION

\* ---------------------------------------------------------------- properties
AllDone == \A p \in Procs : pc[p] = "Done"
Perms2 == {f \in [Ids -> Ids] : \A a, b \in Ids : a # b => f[a] # f[b]}
RenTrials(trs, f) == [t \in Ids |-> trs[CHOOSE u \in Ids : f[u] = t]]
RenOps(ops, f) == [w \in DOMAIN ops |-> [i \in DOMAIN ops[w] |->
                     [ops[w][i] EXCEPT !.trials = SeqOf({f[ops[w][i].trials[j]] : j \in DOMAIN ops[w][i].trials})]]]
MaskEsB(e) == [t \in DOMAIN e |-> IF e[t] = Absent THEN Absent ELSE [status |-> e[t].status, stop |-> FALSE]]
Ren(p, f) == [owner |-> p.owner, study |-> p.study,
              trial |-> [s \in DOMAIN p.trial |-> RenTrials(p.trial[s], f)],
              ops   |-> [s \in DOMAIN p.ops |-> RenOps(p.ops[s], f)],
              es    |-> [s \in DOMAIN p.es |-> MaskEsB(RenTrials(p.es[s], f))]]
Orders == {o \in [1..Cardinality(Procs) -> Procs] : \A i, j \in DOMAIN o : i # j => o[i] # o[j]}
RECURSIVE SerialRun(_, _, _)
SerialRun(s0, o, i) ==
  IF i > Len(o) THEN [st |-> s0, errs |-> <<>>]
  ELSE LET r == Apply(s0, scen.calls[o[i]])
           rest == SerialRun(r.st, o, i + 1)
       IN [st |-> rest.st, errs |-> <<[p |-> o[i], e |-> r.resp.err]>> \o rest.errs]
ExplainedBy(o) == LET sr == SerialRun(ds0, o, 1) IN
                  /\ \A i \in DOMAIN sr.errs : res[sr.errs[i].p] = sr.errs[i].e
                  /\ \E f \in Perms2 : Ren(ds, f) = Ren(sr.st, [t \in Ids |-> t])
InModel == \A p \in Procs : res[p] # "ModelBound"
Serializable == (AllDone /\ InModel) => \E o \in Orders : ExplainedBy(o)
NoStuckOp == AllDone => /\ \A w \in Clients : \A i \in DOMAIN ds.ops[S][w] : ds.ops[S][w][i].done
                        /\ \A t \in Ids : ds.es[S][t] # Absent => ds.es[S][t].status # "ACTIVE"
LocksFreeAtEnd == AllDone => ownerLock = Free /\ studyLock = Free /\ opLock = Free
\* reporting variants (CONSTRAINTs that print instead of stopping at the first violation)
Short(cl) == <<cl.rpc, IF "w" \in DOMAIN cl THEN cl.w ELSE "-", IF "t" \in DOMAIN cl THEN cl.t ELSE 0>>
SerReport == IF AllDone /\ InModel /\ ~(\E o \in Orders : ExplainedBy(o))
             THEN PrintT(<<"NONSER", scen.name, [p \in Procs |-> Short(scen.calls[p])], res>>) ELSE TRUE
StuckReport == IF AllDone /\ ~NoStuckOp
             THEN PrintT(<<"STUCK", scen.name, [p \in Procs |-> Short(scen.calls[p])], res>>) ELSE TRUE
=============================================================================
