---------------------------- MODULE Grid ----------------------------
(***************************************************************************)
(* C13, the part that is genuinely model-checked: grid search.             *)
(* Exact model of GridSearchDesigner's index arithmetic: the k-th          *)
(* suggestion (k = 0, 1, ...) is the point whose i-th coordinate is        *)
(* (k div (Dims[1] * ... * Dims[i-1])) mod Dims[i]; the only persistent    *)
(* state is current_index.  A session is a sequence of Suggest(n) steps    *)
(* with Restart steps (dump -> fresh instance -> load) anywhere.           *)
(* TLC checks, for all batch-size sequences and restart positions, that    *)
(* the first |grid| suggestions are pairwise distinct and cover the grid,  *)
(* and prints every session (batch sizes and restart positions); the real  *)
(* designer - direct, and hosted in the service across servicer restarts   *)
(* on an SQLite file - runs each of them.  The visiting ORDER written here *)
(* (Point) is the one the code uses today; C13 does not prescribe it, so   *)
(* the driver judges the observed runs order-free: valid grid points, the  *)
(* first |grid| pairwise distinct and covering, and a session with         *)
(* restarts identical to the live session with the same batch sizes.       *)
(***************************************************************************)
EXTENDS Naturals, Sequences, FiniteSets, TLC, Json
CONSTANTS D1, D2, D3, MaxBatch, Extra    \* per-parameter grid sizes (D3 = 0: two parameters); sessions run to |grid| + Extra suggestions
Dims == IF D3 = 0 THEN <<D1, D2>> ELSE <<D1, D2, D3>>

RECURSIVE Prod(_, _)
Prod(d, i) == IF i = 0 THEN 1 ELSE d[i] * Prod(d, i - 1)
G == Prod(Dims, Len(Dims))
Point(k) == [i \in DOMAIN Dims |-> (k \div Prod(Dims, i - 1)) % Dims[i]]

VARIABLES idx, out, steps
vars == <<idx, out, steps>>
Init == idx = 0 /\ out = <<>> /\ steps = <<>>
Suggest(n) == /\ Len(out) < G + Extra
              /\ out' = out \o [j \in 1..n |-> Point(idx + j - 1)]
              /\ idx' = idx + n
              /\ steps' = Append(steps, n)
\* dump writes current_index, load restores it into a fresh instance: the model's state is unchanged
Restart == /\ steps # <<>> /\ steps[Len(steps)] # 0 /\ Len(out) < G + Extra
           /\ steps' = Append(steps, 0) /\ UNCHANGED <<idx, out>>
Next == Restart \/ \E n \in 1..MaxBatch : Suggest(n)
Spec == Init /\ [][Next]_vars

EachPointOnce == \A i, j \in DOMAIN out : (i < j /\ j <= G) => out[i] # out[j]
CoversGrid == Len(out) >= G => {out[i] : i \in 1..G} = {Point(k) : k \in 0..(G - 1)}
RepeatsInOrder == \A i \in DOMAIN out : i > G => out[i] = out[i - G]
Dump == IF Len(out) >= G + Extra THEN PrintT(ToJson([steps |-> steps, out |-> out])) ELSE TRUE
=============================================================================
