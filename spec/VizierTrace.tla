---------------------------- MODULE VizierTrace ----------------------------
(***************************************************************************)
(* Trace specification for recorded sequential executions of the real      *)
(* servicer (direction 1: code -> spec).  A trace file holds many traces;  *)
(* each event is  [call, resp, post]  = abstract call (with the            *)
(* environment's choices), abstract response, full projected state after   *)
(* the call.  One TLC run validates all traces (tid chosen in Init).       *)
(*                                                                         *)
(* Every step is judged against Apply and against the per-property step    *)
(* predicates of VizierAtomic evaluated on the OBSERVED step; verdict names *)
(* the first failing clause and the trace stops there (cascade rule).      *)
(***************************************************************************)
EXTENDS VizierAtomic, Json, IOUtils

Traces == JsonDeserialize(IOEnv.TRACE_FILE)
N == Len(Traces)

VARIABLES tid, l, st, verdict
vars == <<tid, l, st, verdict>>

AsSet(q) == {q[i] : i \in DOMAIN q}
RespMatches(c, model, obs) ==
  /\ model.err = obs.err
  /\ IF model.err # None THEN TRUE
     ELSE IF c.rpc \in {"ListStudies", "ListOptimalTrials"} THEN model.val = AsSet(obs.val)
     ELSE model.val = obs.val

\* resp as the property predicates expect it (sets where the model has sets)
AsModelResp(c, obs) ==
  IF obs.err = None /\ c.rpc \in {"ListStudies", "ListOptimalTrials"} THEN [err |-> None, val |-> AsSet(obs.val)] ELSE obs

Judge(a, e) ==
  LET c == e.call
      b == e.post
      o == AsModelResp(c, e.resp)
      r == Apply(a, c)
      \* the choice the code makes today is tried first; any other allowed choice (VizierAtomic.Variants) explains it as well
      byDefault == RespMatches(c, r.resp, e.resp) /\ r.st = b
      explained == byDefault \/ \E v \in Variants(a, c) : RespMatches(c, Apply(a, v).resp, e.resp) /\ Apply(a, v).st = b
      respOk == RespMatches(c, r.resp, e.resp) \/ \E v \in Variants(a, c) : RespMatches(c, Apply(a, v).resp, e.resp)
      metaOnly == \E v \in Variants(a, c) : RespMatches(c, Apply(a, v).resp, e.resp) /\ StripMeta(Apply(a, v).st) = StripMeta(b)
  IN IF ~explained /\ ~respOk THEN "A_resp"
     ELSE IF ~explained /\ metaOnly THEN "A_state_meta"
     ELSE IF ~explained THEN "A_state"
     ELSE IF ~StepTransitions(a, b, c) THEN "C01_Transitions"
     ELSE IF ~StepParamsFrozen(a, b, c) THEN "C01_ParamsFrozen"
     ELSE IF ~StepCompletedFrozen(a, b, c) THEN "C01_CompletedFrozen"
     ELSE IF ~StepErrorsPure(a, b, c, o) THEN "C01_ErrorsPure"
     ELSE IF ~StepImmutableStudy(a, b, c) THEN "C01_ImmutableStudy"
     ELSE IF ~StepOnlyNamedTrial(a, b, c) THEN "C01_OnlyNamedTrial"
     ELSE IF ~StepOneOwner(a, b, c) THEN "C02_OneOwner"
     ELSE IF ~StepFreshIds(a, b, c) THEN "C02_FreshIds"
     ELSE IF ~StepSuggest(a, b, c, o) THEN "C02_Suggest"
     ELSE IF ~ActiveHasOwner(b) THEN "C02_ActiveHasOwner"
     ELSE IF ~RequestedUnowned(b) THEN "C02_RequestedUnowned"
     ELSE IF ~NoUnfinishedOp(b) THEN "C06_NoUnfinishedOp"
     ELSE IF ~NoActiveEs(b) THEN "C06_NoActiveEs"
     ELSE IF ~StepReported(a, b, c, o) THEN "C06_Reported"
     ELSE IF ~StepMetaIsolation(a, b, c) THEN "C10_Isolation"
     ELSE IF ~StepMetaLWW(a, b, c, o) THEN "C10_LWW"
     ELSE IF ~StepOptimal(a, b, c, o) THEN "C11_Optimal"
     ELSE "ok"

Init == tid \in 1..N /\ l = 1 /\ st = InitSt /\ verdict = "ok"

Step == /\ verdict = "ok"
        /\ l <= Len(Traces[tid])
        /\ verdict' = Judge(st, Traces[tid][l])
        /\ st' = Traces[tid][l].post
        /\ l' = l + 1 /\ tid' = tid

Spec == Init /\ [][Step]_vars
Pos == PrintT(<<"POS", tid, l, verdict>>)

\* Diagnostic (single trace, single position): what the model expected.
Diag == PrintT(ToJson([tid |-> tid, l |-> l, verdict |-> verdict]))
=============================================================================
