--------------------------- MODULE MetadataStore ---------------------------
(* vz.Metadata, the object through which algorithms and users read and write metadata (vizier/_src/pyvizier/shared/
   common.py): one shared table of cells (namespace, key) -> value, looked at through HANDLES that differ only in their
   current namespace.  ns() / abs_ns() make new handles on the SAME table; item access, len, iteration and clear() see
   the current namespace only; namespaces(), subnamespaces(), all_items() and truthiness see the table; attach() copies
   the part of another object at or below ITS current namespace under this handle's current namespace, item by item.

   C10 ("an exact last-writer-wins key-value store across namespaces") at the level of this class: a write changes one
   cell and nothing else, whatever handle it goes through; every handle sees it at once; namespaces never leak into each
   other; attach keeps the tree.

   Two handles (h1 stays where it is created, h2 is moved by ns / abs_ns), namespaces over two components up to depth
   MaxNs, one or two keys.  Every transition is printed with what every observer must return afterwards;
   drivers/c10_metadata.py replays every history into the real class and compares all observers after every step. *)
EXTENDS Naturals, Sequences, FiniteSets, TLC, Json

CONSTANTS Comps, Keys, Vals, MaxNs, MaxDepth

Absent == "Absent"
RECURSIVE NsUpTo(_)
NsUpTo(n) == IF n = 0 THEN {<<>>} ELSE NsUpTo(n - 1) \cup {Append(s, c) : s \in {t \in NsUpTo(n - 1) : Len(t) = n - 1}, c \in Comps}
Nss == NsUpTo(MaxNs)
Cells == Nss \X Keys
Handles == {"h1", "h2"}
\* the other objects handed to attach(): their cells and the current namespace of the handle that is passed
Others == { [cells |-> (<< <<>>, "k1" >> :> "v2"), at |-> <<>>],
            [cells |-> (<< <<"a">>, "k1" >> :> "v1") @@ (<< <<"a", "b">>, "k1" >> :> "v2") @@ (<< <<>>, "k1" >> :> "v2"), at |-> <<"a">>],
            [cells |-> (<< <<"b">>, "k1" >> :> "v1"), at |-> <<>>],
            [cells |-> (<< <<"b">>, "k1" >> :> "v1"), at |-> <<"a">>] }      \* nothing at or below the handle: attaches nothing

IsPrefix(p, s) == Len(p) <= Len(s) /\ SubSeq(s, 1, Len(p)) = p
Rel(p, s) == SubSeq(s, Len(p) + 1, Len(s))

VARIABLES data, cur, hist, out
vars == <<data, cur, hist, out>>
View == <<data, cur>>

Init == data = [c \in Cells |-> Absent] /\ cur = [h \in Handles |-> <<>>] /\ hist = <<>> /\ out = "ok"
Step(rec) == hist' = Append(hist, rec)
En == Len(hist) < MaxDepth

NonEmpty(d, ns) == \E k \in Keys : d[<<ns, k>>] # Absent

\* ---- handles
Ns(c) == /\ En
         /\ \E src \in Handles : Len(cur[src]) < MaxNs /\ cur' = [cur EXCEPT !["h2"] = Append(cur[src], c)] /\ Step([op |-> "ns", src |-> src, c |-> c])
         /\ UNCHANGED data /\ out' = "ok"
AbsNs(ns) == En /\ cur' = [cur EXCEPT !["h2"] = ns] /\ Step([op |-> "abs_ns", ns |-> ns]) /\ UNCHANGED data /\ out' = "ok"
\* ---- cells of the current namespace
Set(h, k, v) == En /\ data' = [data EXCEPT ![<<cur[h], k>>] = v] /\ Step([op |-> "set", h |-> h, k |-> k, v |-> v]) /\ UNCHANGED cur /\ out' = "ok"
Del(h, k) == /\ En /\ Step([op |-> "del", h |-> h, k |-> k]) /\ UNCHANGED cur
             /\ IF data[<<cur[h], k>>] = Absent THEN data' = data /\ out' = "KeyError"
                ELSE data' = [data EXCEPT ![<<cur[h], k>>] = Absent] /\ out' = "ok"
Clear(h) == /\ En /\ data' = [c \in Cells |-> IF c[1] = cur[h] THEN Absent ELSE data[c]] /\ Step([op |-> "clear", h |-> h]) /\ UNCHANGED cur /\ out' = "ok"
\* ---- attach: o = [cells : function from a set of cells to values, at : namespace of the other object's handle]
Attach(h, o) ==
  LET below == {c \in DOMAIN o.cells : IsPrefix(o.at, c[1])}
      Target(c) == <<cur[h] \o Rel(o.at, c[1]), c[2]>>
  IN /\ En /\ \A c \in below : Len(Target(c)[1]) <= MaxNs
     /\ data' = [c \in Cells |-> IF \E b \in below : Target(b) = c THEN o.cells[CHOOSE b \in below : Target(b) = c] ELSE data[c]]
     /\ Step([op |-> "attach", h |-> h, at |-> o.at, items |-> {<<b[1], b[2], o.cells[b]>> : b \in DOMAIN o.cells}])
     /\ UNCHANGED cur /\ out' = "ok"

Next == \/ \E c \in Comps : Ns(c)
        \/ \E ns \in Nss : AbsNs(ns)
        \/ \E h \in Handles, k \in Keys, v \in Vals : Set(h, k, v)
        \/ \E h \in Handles, k \in Keys : Del(h, k)
        \/ \E h \in Handles : Clear(h)
        \/ \E h \in Handles, o \in Others : Attach(h, o)
Spec == Init /\ [][Next]_vars

\* ---- what every observer returns in a state
Obs(h) == [len |-> Cardinality({k \in Keys : data[<<cur[h], k>>] # Absent}),
           items |-> {<<k, data[<<cur[h], k>>]>> : k \in {k2 \in Keys : data[<<cur[h], k2>>] # Absent}},
           cur |-> cur[h],
           sub |-> {Rel(cur[h], ns) : ns \in {n \in Nss : IsPrefix(cur[h], n) /\ NonEmpty(data, n)}}]
Table == {<<c[1], c[2], data[c]>> : c \in {x \in Cells : data[x] # Absent}}
Dump == hist # <<>> => PrintT(ToJson([hist |-> hist, out |-> out, table |-> Table, namespaces |-> {ns \in Nss : NonEmpty(data, ns)},
                                        truthy |-> (Table # {}), h1 |-> Obs("h1"), h2 |-> Obs("h2")]))

-----------------------------------------------------------------------------
Last == hist'[Len(hist')]
\* a write through any handle changes exactly the cell it names
SetIsLocal == [][(Len(hist') > Len(hist) /\ Last.op = "set") =>
                   \A c \in Cells : data'[c] = IF c = <<cur[Last.h], Last.k>> THEN Last.v ELSE data[c]]_vars
\* deleting / clearing never reaches another namespace
DelIsLocal == [][(Len(hist') > Len(hist) /\ Last.op \in {"del", "clear"}) => \A c \in Cells : c[1] # cur[Last.h] => data'[c] = data[c]]_vars
\* moving a handle changes no cell; an error changes nothing
HandlesArePure == [][(Len(hist') > Len(hist) /\ (Last.op \in {"ns", "abs_ns"} \/ out' # "ok")) => data' = data]_vars
\* attach writes only at or below the handle's current namespace, and what it does not overwrite stays
AttachStaysBelow == [][(Len(hist') > Len(hist) /\ Last.op = "attach") => \A c \in Cells : ~IsPrefix(cur[Last.h], c[1]) => data'[c] = data[c]]_vars
=============================================================================
