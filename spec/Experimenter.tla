---------------------------- MODULE Experimenter ----------------------------
(***************************************************************************)
(* C20: benchmark experimenters.  Wrapper stackings are TERMS over a base  *)
(* catalog; TLC enumerates every valid term up to MaxDepth wrappers        *)
(* (validity: shifting needs continuous parameters, permuting needs        *)
(* discrete ones, ...).  The numeric behaviour is observed, not modelled:  *)
(* mode "judge" decides on exact order keys (Num.tla)                      *)
(*   protocol - every trial COMPLETED with exactly the metrics of the      *)
(*              problem statement, or INFEASIBLE; parameters untouched;    *)
(*              problem_statement() returned by value;                     *)
(*   laws     - the outermost wrapper W of a term W(E) transforms only     *)
(*              what it documents, with the inner experimenter E as the    *)
(*              oracle at the mapped point.                                *)
(***************************************************************************)
EXTENDS Num, Sequences, FiniteSets, TLC, Json, IOUtils
CONSTANTS Mode, MaxDepth

\* SphereBox: the sphere on the box [2,3] x [-0.5,0.5] (ranges of length exactly 1 that do not start at 0)
Bases == {"Sphere", "BuecheRastrigin", "Branin", "SphereBox"}
Wrappers == {"ShiftPos", "ShiftNeg", "SignFlip", "Noisy", "Discretize", "Permute", "Normalize", "HashInfeasible", "HyperCube"}
\* the parameter kind a term exposes: continuous until discretised
Kind(t) == IF \E i \in DOMAIN t.ws : t.ws[i] = "Discretize" THEN "discrete" ELSE "continuous"
RECURSIVE ValidFrom(_, _, _)
ValidFrom(ws, i, kind) ==
  IF i > Len(ws) THEN TRUE
  ELSE LET w == ws[i] IN
       /\ (w \in {"ShiftPos", "ShiftNeg", "Discretize"} => kind = "continuous")
       /\ (w = "Permute" => kind = "discrete")
       /\ (w = "Normalize" => kind = "continuous")
       /\ (w = "HyperCube" => kind = "continuous")
       /\ ValidFrom(ws, i + 1, IF w = "Discretize" THEN "discrete" ELSE kind)
\* ws[1] is the innermost wrapper
RECURSIVE SeqsUpTo(_, _)
SeqsUpTo(S, n) == IF n = 0 THEN {<<>>} ELSE SeqsUpTo(S, n - 1) \cup {Append(q, x) : q \in SeqsUpTo(S, n - 1), x \in S}
\* a multi-objective base (two objectives evaluated by two experimenters) is used unwrapped: the wrappers are single-objective
\* the fixed shifts (up to 2.0) do not fit into the unit-length box: the shifting wrapper refuses them by design
\* (nor into the unit cube a HyperCube wrapper exposes)
Fits(b, ws) == \A i \in DOMAIN ws : ws[i] \in {"ShiftPos", "ShiftNeg"} => (b # "SphereBox" /\ \A j \in 1..(i - 1) : ws[j] # "HyperCube")
Terms == {t \in {[base |-> b, ws |-> ws] : b \in Bases, ws \in {q \in SeqsUpTo(Wrappers, MaxDepth) : ValidFrom(q, 1, "continuous")}} : Fits(t.base, t.ws)}
         \cup {[base |-> "MultiObjective", ws |-> <<>>]}

VARIABLE term
Init == IF Mode = "enumerate" THEN term \in Terms ELSE term = "judge"
Spec == Init /\ [][UNCHANGED term]_term
Dump == Mode # "enumerate" \/ PrintT(ToJson(term))

\* ------------------------------------------------------------------ judge
Obs == IF Mode = "judge" THEN JsonDeserialize(IOEnv.TRACE_FILE) ELSE <<>>
\* per evaluated trial: [status, metrics_ok, params_kept, val (key), inner (key: inner experimenter at the mapped point),
\*                       lo, hi (tolerance interval around the value the law predicts), inner_infeasible]
Protocol(o) == /\ o.statement_by_value
               /\ \A i \in DOMAIN o.trials : LET t == o.trials[i] IN
                    /\ t.status \in {"COMPLETED", "INFEASIBLE"}
                    /\ (t.status = "COMPLETED" => t.metrics_ok)
                    /\ t.params_kept
\* a wrapper with a pointwise or order law reports the infeasibility of the point it evaluated: "completes ... or marks it infeasible"
InfeasibleFaithful(o) == o.law \in {"pointwise", "order"} =>
                           \A i \in DOMAIN o.trials : o.trials[i].inner_marked_infeasible => o.trials[i].status = "INFEASIBLE"
Completed(o) == {i \in DOMAIN o.trials : o.trials[i].status = "COMPLETED" /\ ~o.trials[i].inner_infeasible}
LawPointwise(o) == \A i \in Completed(o) : FBetween(o.trials[i].lo, o.trials[i].val, o.trials[i].hi)
LawOrder(o) == \A i, j \in Completed(o) : FLt(o.trials[i].inner, o.trials[j].inner) => FLeq(o.trials[i].val, o.trials[j].val)
Verdict(o) ==
  IF o.refused THEN "refused"
  ELSE IF ~Protocol(o) THEN "protocol"
  ELSE IF ~InfeasibleFaithful(o) THEN "infeasible_reported_as_completed_" \o o.outer
  ELSE IF o.law = "pointwise" /\ ~LawPointwise(o) THEN "law_" \o o.outer
  ELSE IF o.law = "order" /\ ~LawOrder(o) THEN "law_" \o o.outer
  ELSE IF ~o.extra_ok THEN "law_" \o o.outer \o "_extra"
  ELSE IF ~o.batch_equals_single THEN "batch_evaluation_differs_from_single"
  ELSE "ok"
JudgeAll == \A i \in DOMAIN Obs : PrintT(<<"EV", i, Verdict(Obs[i])>>)
JInit == term = "judge" /\ JudgeAll
JSpec == JInit /\ [][FALSE]_term
=============================================================================
