---------------------------- MODULE ClientApi ----------------------------
(***************************************************************************)
(* The user-facing client (vizier.service.clients.Study / Trial) as a      *)
(* state machine: every client method is the RPC sequence it issues over   *)
(* VizierAtomic.Apply, with the CLIENT-LEVEL contract for outcomes         *)
(* (vizier/client/client_abc.py):                                          *)
(*   - ResourceNotFound for a missing study (from_resource_name) or trial  *)
(*     (get_trial);                                                        *)
(*   - suggest on a study that is not active returns the empty list;       *)
(*   - a failed suggestion operation or a rejected metadata update raises  *)
(*     RuntimeError;                                                       *)
(*   - every other failure surfaces with the error class of the RPC.       *)
(* The same behaviours are replayed against the in-process service, a gRPC *)
(* server and a gRPC server with a separate Pythia server (C08): all three *)
(* must produce the outcome and state computed here.                       *)
(***************************************************************************)
EXTENDS VizierAtomic, Json

CONSTANTS Ops,        \* set of client method names enabled
          Params, Meas, Vals, MaxCount, MaxDeliver, MaxDepth, Cfgs

VARIABLES st, out, hist
vars == <<st, out, hist>>

Val(x) == [exc |-> None, val |-> x]
Exc(e) == [exc |-> e, val |-> None]
R(s2, o) == [st |-> s2, out |-> o]
\* outcome of a plain RPC passed through: error class kept
Pass(r, f(_)) == IF r.resp.err # None THEN R(r.st, Exc(r.resp.err)) ELSE R(r.st, Val(f(r.resp.val)))
Unit(x) == "Done"
TrialView(tr) == [state |-> tr.state, params |-> tr.params, final |-> tr.final, meas |-> tr.meas]

OneCell(c, v) == [x \in Cells |-> IF x = c THEN v ELSE None]

ClientOp(s0, o) ==
  CASE o.op = "from_study_config" ->
         Pass(Apply(s0, [rpc |-> "CreateStudy", s |-> o.s, cfg |-> o.cfg]), LAMBDA v : v.name)
    [] o.op = "from_resource_name" ->
         LET r == Apply(s0, [rpc |-> "GetStudy", s |-> o.s]) IN
         IF r.resp.err # None THEN R(s0, Exc("ResourceNotFound")) ELSE R(s0, Val(o.s))
    [] o.op = "suggest" ->
         LET r == Apply(s0, [rpc |-> "SuggestTrials", s |-> o.s, w |-> o.w, n |-> o.n, env |-> o.env]) IN
         IF r.resp.err = "FailedPrecondition" THEN R(r.st, Val(<<>>))
         ELSE IF r.resp.err # None THEN R(r.st, Exc(r.resp.err))
         ELSE IF r.resp.val.op.err THEN R(r.st, Exc("RuntimeError"))
         ELSE R(r.st, Val(r.resp.val.op.trials))
    [] o.op = "add_trial" ->      \* get_study_config, assert_contains, CreateTrial
         LET g == Apply(s0, [rpc |-> "GetStudy", s |-> o.s]) IN
         IF g.resp.err # None THEN R(s0, Exc(g.resp.err))
         ELSE Pass(Apply(s0, [rpc |-> "CreateTrial", s |-> o.s, p |-> o.p, c |-> o.c]), LAMBDA v : v.id)
    [] o.op = "request" ->
         Pass(Apply(s0, [rpc |-> "CreateTrial", s |-> o.s, p |-> o.p, c |-> None]), LAMBDA v : v.id)
    [] o.op = "trials" ->
         Pass(Apply(s0, [rpc |-> "ListTrials", s |-> o.s]),
              LAMBDA v : [t \in Ids |-> IF v[t] = Absent THEN Absent ELSE TrialView(v[t])])
    [] o.op = "get_trial" ->
         LET r == Apply(s0, [rpc |-> "GetTrial", s |-> o.s, t |-> o.t]) IN
         IF r.resp.err = "NotFound" THEN R(s0, Exc("ResourceNotFound")) ELSE Pass(r, LAMBDA v : o.t)
    [] o.op = "materialize" ->
         Pass(Apply(s0, [rpc |-> "GetTrial", s |-> o.s, t |-> o.t]), TrialView)
    [] o.op = "optimal_trials" ->
         Pass(Apply(s0, [rpc |-> "ListOptimalTrials", s |-> o.s]), LAMBDA v : v)
    [] o.op = "set_state" ->
         Pass(Apply(s0, [rpc |-> "SetStudyState", s |-> o.s, x |-> o.x]), Unit)
    [] o.op = "materialize_state" ->
         Pass(Apply(s0, [rpc |-> "GetStudy", s |-> o.s]), LAMBDA v : IF v.state = "UNSPEC" THEN "ACTIVE" ELSE v.state)
    [] o.op = "delete_study" ->
         Pass(Apply(s0, [rpc |-> "DeleteStudy", s |-> o.s]), Unit)
    [] o.op = "study_update_metadata" ->
         LET r == Apply(s0, [rpc |-> "UpdateMetadata", s |-> o.s,
                             d |-> [study |-> OneCell(o.c, o.v), t |-> 0, t2 |-> 0, trial |-> NoMeta]]) IN
         Pass(r, Unit)
    [] o.op = "trial_update_metadata" ->
         LET r == Apply(s0, [rpc |-> "UpdateMetadata", s |-> o.s,
                             d |-> [study |-> NoMeta, t |-> o.t, t2 |-> 0, trial |-> OneCell(o.c, o.v)]]) IN
         IF r.resp.err = None /\ r.resp.val = "ErrorDetails" THEN R(r.st, Exc("RuntimeError")) ELSE Pass(r, Unit)
    [] o.op = "complete" ->
         Pass(Apply(s0, [rpc |-> "CompleteTrial", s |-> o.s, t |-> o.t, f |-> o.f, inf |-> o.inf,
                         reason |-> IF o.inf THEN "r1" ELSE ""]),
              LAMBDA v : v.final)
    [] o.op = "add_measurement" ->
         Pass(Apply(s0, [rpc |-> "AddMeasurement", s |-> o.s, t |-> o.t, m |-> o.m]), Unit)
    [] o.op = "stop" ->
         Pass(Apply(s0, [rpc |-> "StopTrial", s |-> o.s, t |-> o.t]), Unit)
    [] o.op = "check_early_stopping" ->
         Pass(Apply(s0, [rpc |-> "CheckEarlyStopping", s |-> o.s, t |-> o.t, env |-> o.env]), LAMBDA v : v.stop)
    [] o.op = "delete_trial" ->
         Pass(Apply(s0, [rpc |-> "DeleteTrial", s |-> o.s, t |-> o.t]), Unit)

Init == st = InitSt /\ out = Val(None) /\ hist = <<>>
Do(o) == LET r == ClientOp(st, o) IN st' = r.st /\ out' = r.out /\ hist' = Append(hist, o)

RECURSIVE SeqsUpTo(_, _)
SeqsUpTo(S, n) == IF n = 0 THEN {<<>>} ELSE SeqsUpTo(S, n - 1) \cup {Append(q, x) : q \in SeqsUpTo(S, n - 1), x \in S}
SuggestEnvs == [raise : {FALSE}, ps : SeqsUpTo(Params, MaxDeliver), md : {NoMeta}] \cup [raise : {TRUE}, ps : {<<>>}, md : {NoMeta}]
StopEnvs == [raise : {FALSE}, stop : BOOLEAN] \cup [raise : {TRUE}, stop : {FALSE}]

En(k) == k \in Ops /\ Len(hist) < MaxDepth
OFromConfig == En("from_study_config") /\ \E s \in Studies, cfg \in Cfgs : Do([op |-> "from_study_config", s |-> s, cfg |-> cfg])
OFromName == En("from_resource_name") /\ \E s \in Studies : Do([op |-> "from_resource_name", s |-> s])
OSuggest == En("suggest") /\ \E s \in Studies, w \in Clients, n \in 1..MaxCount, env \in SuggestEnvs :
              SuggestWithinBound(st, s, env) /\ Do([op |-> "suggest", s |-> s, w |-> w, n |-> n, env |-> env])
OAddTrial == En("add_trial") /\ \E s \in Studies, p \in Params, c \in Meas :
              MaxTrialId(st, s) < MaxId /\ Do([op |-> "add_trial", s |-> s, p |-> p, c |-> c])
ORequest == En("request") /\ \E s \in Studies, p \in Params :
              MaxTrialId(st, s) < MaxId /\ Do([op |-> "request", s |-> s, p |-> p])
OTrials == En("trials") /\ \E s \in Studies : Do([op |-> "trials", s |-> s])
OGetTrial == En("get_trial") /\ \E s \in Studies, t \in Ids : Do([op |-> "get_trial", s |-> s, t |-> t])
OMaterialize == En("materialize") /\ \E s \in Studies, t \in Ids : Do([op |-> "materialize", s |-> s, t |-> t])
OOptimal == En("optimal_trials") /\ \E s \in Studies : Do([op |-> "optimal_trials", s |-> s])
OSetState == En("set_state") /\ \E s \in Studies, x \in {"ACTIVE", "INACTIVE", "COMPLETED"} : Do([op |-> "set_state", s |-> s, x |-> x])
OMatState == En("materialize_state") /\ \E s \in Studies : Do([op |-> "materialize_state", s |-> s])
ODeleteStudy == En("delete_study") /\ \E s \in Studies : Do([op |-> "delete_study", s |-> s])
OStudyMeta == En("study_update_metadata") /\ \E s \in Studies, c \in Cells, v \in Vals :
              Do([op |-> "study_update_metadata", s |-> s, c |-> c, v |-> v])
OTrialMeta == En("trial_update_metadata") /\ \E s \in Studies, t \in Ids, c \in Cells, v \in Vals :
              Do([op |-> "trial_update_metadata", s |-> s, t |-> t, c |-> c, v |-> v])
OComplete == En("complete") /\ \E s \in Studies, t \in Ids, f \in Meas \cup {None}, inf \in BOOLEAN :
              Do([op |-> "complete", s |-> s, t |-> t, f |-> f, inf |-> inf])
OAddMeas == En("add_measurement") /\ \E s \in Studies, t \in Ids, m \in Meas : Do([op |-> "add_measurement", s |-> s, t |-> t, m |-> m])
OStop == En("stop") /\ \E s \in Studies, t \in Ids : Do([op |-> "stop", s |-> s, t |-> t])
OCheckEs == En("check_early_stopping") /\ \E s \in Studies, t \in Ids, env \in StopEnvs :
              Do([op |-> "check_early_stopping", s |-> s, t |-> t, env |-> env])
ODeleteTrial == En("delete_trial") /\ \E s \in Studies, t \in Ids : Do([op |-> "delete_trial", s |-> s, t |-> t])

Next == \/ OFromConfig \/ OFromName \/ OSuggest \/ OAddTrial \/ ORequest \/ OTrials \/ OGetTrial \/ OMaterialize \/ OOptimal
        \/ OSetState \/ OMatState \/ ODeleteStudy \/ OStudyMeta \/ OTrialMeta \/ OComplete \/ OAddMeas \/ OStop \/ OCheckEs
        \/ ODeleteTrial
Spec == Init /\ [][Next]_vars
Dump == PrintT(ToJson([hist |-> hist, st |-> st, out |-> out]))
View == st

\* ---- client-level properties (checked on the model)
Last == hist'[Len(hist')]
\* the contract's promised exceptions
NotFoundIsPromised == [][(Last.op \in {"from_resource_name"} /\ st.study[Last.s] = Absent) => out'.exc = "ResourceNotFound"]_vars
MissingTrialIsPromised == [][(Last.op = "get_trial" /\ st.study[Last.s] # Absent /\ st.trial[Last.s][Last.t] = Absent)
                               => out'.exc = "ResourceNotFound"]_vars
FinishedStudySuggestsNothing == [][(Last.op = "suggest" /\ st.study[Last.s] # Absent /\ Immutable(st, Last.s))
                               => (out' = Val(<<>>) /\ st' = st)]_vars
ExceptionsArePure == [][(out'.exc # None /\ Last.op \notin {"suggest", "check_early_stopping"}) => st' = st]_vars
LifecycleStillHolds == [][StepTransitions(st, st', [rpc |-> "client"]) /\ StepCompletedFrozen(st, st', [rpc |-> "client"])]_vars
=============================================================================
