---------------------------- MODULE VizierAtomic ----------------------------
(***************************************************************************)
(* Sequential reference model of the Vizier service API.                   *)
(*                                                                         *)
(* Pure operators: every RPC is  Rpc(st, args...[, env]) -> [st, resp].    *)
(* Written from vizier/_src/service/vizier_service.py, one branch per      *)
(* handle_exception site / early return, in source order; what the         *)
(* docstrings promise where code and documentation differ (those places    *)
(* are marked DOC).  Every other module of the family (VizierService,      *)
(* VizierTrace, VizierLin, VizierCrash, ClientApi, Delivery) is built on   *)
(* Apply below, so the semantics of an RPC is written exactly once.        *)
(*                                                                         *)
(* Typing discipline (TLC compares only like with like): "absent" is the   *)
(* record [absent |-> TRUE]; optional strings use "None".                  *)
(***************************************************************************)
EXTENDS Integers, Sequences, FiniteSets, TLC

CONSTANTS Studies,     \* study ids (strings)
          Clients,     \* worker ids (strings)
          MaxId,       \* model bound on trial ids
          Cells,       \* metadata cells: strings naming a (namespace, key) pair
          Recycle      \* "always" | "never": early-stopping operation recycling period 0 / 1 day

None == "None"
Absent == [absent |-> TRUE]
Ids == 1..MaxId

Mutable == {"ACTIVE", "STOPPING"}
NoMeta == [c \in Cells |-> None]

\* ---- measurement tokens -> metric values (metric "a" and metric "b").
\* "mp" reports only metric a; "mn" reports a = NaN (b = 1); "mi", "mj" report a = +infinity (9 in the model) with b = 2, 1.
MA(m) == CASE m = "m1" -> 1 [] m = "m2" -> 2 [] m = "m3" -> 1 [] m = "mp" -> 2 [] m = "mi" -> 9 [] m = "mj" -> 9 [] OTHER -> 0
MB(m) == CASE m = "m1" -> 2 [] m = "m2" -> 1 [] m = "m3" -> 1 [] m = "mn" -> 1 [] m = "mi" -> 2 [] m = "mj" -> 1 [] OTHER -> 0
HasB(m) == m # "mp"
ANaN(m) == m = "mn"
\* ---- metric configurations
TwoMetrics(cfg) == cfg = "maxmin2"
\* sign-adjusted objective vector (larger is better)
Obj(cfg, m) == CASE cfg = "max1"    -> <<MA(m) + 10>>
                 [] cfg = "min1"    -> <<10 - MA(m)>>
                 [] cfg = "maxmin2" -> <<MA(m) + 10, 10 - MB(m)>>

InitSt == [owner |-> FALSE,
           study |-> [s \in Studies |-> Absent],
           trial |-> [s \in Studies |-> [t \in Ids |-> Absent]],
           ops   |-> [s \in Studies |-> [w \in Clients |-> <<>>]],
           es    |-> [s \in Studies |-> [t \in Ids |-> Absent]]]

StudyPresent(st, s) == st.study[s] # Absent
Present(st, s, t) == st.trial[s][t] # Absent
Immutable(st, s) == st.study[s].state \in {"INACTIVE", "COMPLETED"}
IdsOf(st, s) == {t \in Ids : Present(st, s, t)}
MaxOf(S) == IF S = {} THEN 0 ELSE CHOOSE m \in S : \A x \in S : x <= m
MinOf(S) == CHOOSE m \in S : \A x \in S : m <= x
MaxTrialId(st, s) == MaxOf(IdsOf(st, s))

Ok(st, r) == [st |-> st, resp |-> [err |-> None, val |-> r]]
Err(st, e) == [st |-> st, resp |-> [err |-> e, val |-> None]]
SetTrial(st, s, t, rec) == [st EXCEPT !.trial[s][t] = rec]

RECURSIVE SeqOf(_)
SeqOf(S) == IF S = {} THEN <<>> ELSE LET m == MinOf(S) IN <<m>> \o SeqOf(S \ {m})
Take(sq, n) == SubSeq(sq, 1, IF n < Len(sq) THEN n ELSE Len(sq))

NewTrial(state, client, p, final) ==
  [state |-> state, client |-> client, params |-> p, meas |-> <<>>, final |-> final,
   reason |-> "", meta |-> NoMeta]

\* ------------------------------------------------------------------ studies
\* CreateStudy is "create or load by display name": an existing study is returned as stored.
CreateStudy(st, s, cfg) ==
  IF StudyPresent(st, s) THEN Ok(st, [name |-> s, study |-> st.study[s]])
  ELSE LET rec == [state |-> "UNSPEC", cfg |-> cfg, meta |-> NoMeta] IN
       Ok([st EXCEPT !.study[s] = rec, !.owner = TRUE], [name |-> s, study |-> rec])

GetStudy(st, s) == IF StudyPresent(st, s) THEN Ok(st, st.study[s]) ELSE Err(st, "NotFound")

ListStudies(st) == IF ~st.owner THEN Err(st, "NotFound")
                   ELSE Ok(st, {s \in Studies : StudyPresent(st, s)})

\* A study is deleted together with its trials and operations (resource hierarchy).
DeleteStudy(st, s) ==
  IF ~StudyPresent(st, s) THEN Err(st, "NotFound")
  ELSE Ok([st EXCEPT !.study[s] = Absent,
                     !.trial[s] = [t \in Ids |-> Absent],
                     !.ops[s] = [w \in Clients |-> <<>>],
                     !.es[s] = [t \in Ids |-> Absent]], "Empty")

SetStudyState(st, s, x) ==
  IF ~StudyPresent(st, s) THEN Err(st, "NotFound")
  ELSE LET rec == [st.study[s] EXCEPT !.state = x] IN Ok([st EXCEPT !.study[s] = rec], rec)

\* ------------------------------------------------------------------- trials
\* Guard shared by every trial-mutating RPC: _study_is_immutable first.
StudyGuard(st, s) == IF ~StudyPresent(st, s) THEN "NotFound"
                     ELSE IF Immutable(st, s) THEN "FailedPrecondition" ELSE None

\* completedWith = None: the trial is queued as REQUESTED whatever state / client the caller
\* put into the request; otherwise it is stored SUCCEEDED with that final measurement.
CreateTrial(st, s, p, completedWith) ==
  IF StudyGuard(st, s) # None THEN Err(st, StudyGuard(st, s))
  ELSE LET id == MaxTrialId(st, s) + 1
           rec == IF completedWith = None THEN NewTrial("REQUESTED", None, p, None)
                  ELSE NewTrial("SUCCEEDED", None, p, completedWith)
       IN Ok(SetTrial(st, s, id, rec), [id |-> id, trial |-> rec])

GetTrial(st, s, t) == IF StudyPresent(st, s) /\ Present(st, s, t) THEN Ok(st, st.trial[s][t]) ELSE Err(st, "NotFound")

ListTrials(st, s) == IF ~StudyPresent(st, s) THEN Err(st, "NotFound") ELSE Ok(st, st.trial[s])

AddMeasurement(st, s, t, m) ==
  IF StudyGuard(st, s) # None THEN Err(st, StudyGuard(st, s))
  ELSE IF ~Present(st, s, t) THEN Err(st, "NotFound")
  ELSE LET tr == st.trial[s][t] IN
       IF tr.state = "INFEASIBLE" THEN Ok(st, tr)       \* explicit no-op in the code
       ELSE IF tr.state \notin Mutable THEN Err(st, "FailedPrecondition")
       ELSE LET n == [tr EXCEPT !.meas = Append(@, m)] IN Ok(SetTrial(st, s, t, n), n)

CompleteTrial(st, s, t, final, infeasible, reason) ==
  IF StudyGuard(st, s) # None THEN Err(st, StudyGuard(st, s))
  ELSE IF ~Present(st, s, t) THEN Err(st, "NotFound")
  ELSE LET tr == st.trial[s][t] IN
       IF tr.state \notin Mutable THEN Err(st, "FailedPrecondition")
       ELSE IF final = None /\ ~infeasible /\ tr.meas = <<>> THEN Err(st, "Unknown")   \* ValueError -> UNKNOWN
       ELSE LET f == IF final # None THEN final
                     ELSE IF ~infeasible THEN tr.meas[Len(tr.meas)] ELSE tr.final
                n == [tr EXCEPT !.state = IF infeasible THEN "INFEASIBLE" ELSE "SUCCEEDED",
                                !.final = f,
                                !.reason = IF infeasible THEN reason ELSE @]
            IN Ok(SetTrial(st, s, t, n), n)

StopTrial(st, s, t) ==
  IF StudyGuard(st, s) # None THEN Err(st, StudyGuard(st, s))
  ELSE IF ~Present(st, s, t) THEN Err(st, "NotFound")
  ELSE LET tr == st.trial[s][t] IN
       IF tr.state = "ACTIVE" THEN LET n == [tr EXCEPT !.state = "STOPPING"] IN Ok(SetTrial(st, s, t, n), n)
       ELSE IF tr.state \in {"STOPPING", "SUCCEEDED"} THEN Ok(st, tr)
       ELSE Err(st, "FailedPrecondition")

\* Deleting a trial removes its early-stopping operation too?  No: neither datastore does, and the
\* API does not say; the model keeps es[s][t] (it is only ever consulted for a present trial).
DeleteTrial(st, s, t) ==
  IF StudyGuard(st, s) # None THEN Err(st, StudyGuard(st, s))
  ELSE IF ~Present(st, s, t) THEN Err(st, "NotFound")
  ELSE Ok(SetTrial(st, s, t, Absent), "Empty")

\* ----------------------------------------------------------------- metadata
Merge(old, upd) == [c \in Cells |-> IF upd[c] # None THEN upd[c] ELSE old[c]]

\* A stateful algorithm persists its state in study metadata and computes the next state from the stored one: the
\* metadata value "inc" in env.md stands for "the successor of what is stored now" (None -> v1 -> v2 -> v1 ...).
BumpVal(v) == IF v = "v1" THEN "v2" ELSE "v1"
EffMd(meta, md) == [c \in Cells |-> IF md[c] = "inc" THEN BumpVal(meta[c]) ELSE md[c]]

\* ----------------------------------------------------------------- suggest
\* env = [raise |-> BOOLEAN,            the algorithm raises
\*        ps    |-> Seq(param token),   the suggestions it delivers, in its order
\*        md    |-> [Cells -> value \cup {None}]]   study metadata it asks to be written
\* Enabling condition for the model bound (checked by the caller, never truncated here):
SuggestWithinBound(st, s, env) == MaxTrialId(st, s) + Len(env.ps) <= MaxId

\* What C02 leaves to the implementation is a CHOICE, a record
\*   [own  |-> which of the worker's own ACTIVE trials are returned when it holds more than n,
\*    pool |-> which queued REQUESTED trials are taken when the pool is larger than what is still needed,
\*    perm |-> pairing of the algorithm's suggestions with the new ids: new id base+j gets ps[perm[j]],
\*    act  |-> which of the new ids (as offsets 1..k) are handed out ACTIVE; the others are queued REQUESTED].
\* A call whose env carries no field "ch" is executed with DefaultChoice, the choice the code makes today (lowest own ids,
\* newest pool trials, suggestions consumed from the end of the delivered list, surplus queued in list order).
\* Variants(st, c) below is the set of all calls that differ from c only in the choice: judges of observed behaviour
\* accept an outcome explained by ANY variant.
SuggestParts(st, s, w, n, env) ==
  LET own  == {t \in IdsOf(st, s) : st.trial[s][t].state = "ACTIVE" /\ st.trial[s][t].client = w}
      pool == {t \in IdsOf(st, s) : st.trial[s][t].state = "REQUESTED"}
      needPool == IF Cardinality(own) >= n THEN 0 ELSE n - Cardinality(own)
      takeN == IF needPool < Cardinality(pool) THEN needPool ELSE Cardinality(pool)
      need == IF Cardinality(own) >= n THEN 0 ELSE n - Cardinality(own) - takeN
      k == IF need = 0 \/ env.raise THEN 0 ELSE Len(env.ps)
      useN == IF k < need THEN k ELSE need
  IN [own |-> own, pool |-> pool, takeN |-> takeN, need |-> need, k |-> k, useN |-> useN]
Lowest(S, m) == {t \in S : Cardinality({u \in S : u < t}) < m}
Highest(S, m) == {t \in S : Cardinality({u \in S : u > t}) < m}
DefaultChoice(st, s, w, n, env) ==
  LET q == SuggestParts(st, s, w, n, env) IN
  [own  |-> IF Cardinality(q.own) >= n THEN Lowest(q.own, n) ELSE q.own,
   pool |-> Highest(q.pool, q.takeN),
   perm |-> [j \in 1..q.k |-> IF j <= q.useN THEN q.k - j + 1 ELSE j - q.useN],
   act  |-> 1..q.useN]
PermsOf(k) == {f \in [1..k -> 1..k] : \A i, j \in 1..k : i # j => f[i] # f[j]}
Choices(st, s, w, n, env) ==
  LET q == SuggestParts(st, s, w, n, env) IN
  [own  : IF Cardinality(q.own) >= n THEN {S \in SUBSET q.own : Cardinality(S) = n} ELSE {q.own},
   pool : {S \in SUBSET q.pool : Cardinality(S) = q.takeN},
   perm : PermsOf(q.k),
   act  : {S \in SUBSET (1..q.k) : Cardinality(S) = q.useN}]

SuggestFresh(st, s, w, n, env, ch) ==
  LET ops == st.ops[s][w]
      q == SuggestParts(st, s, w, n, env)
      own == q.own
      finish(st2, ids, err) ==
        LET op == [done |-> TRUE, err |-> err, trials |-> ids] IN
        [st |-> [st2 EXCEPT !.ops[s][w] = Append(@, op)],
         resp |-> [err |-> None, val |-> [num |-> Len(ops) + 1, op |-> op]]]
  IN IF Cardinality(own) >= n THEN finish(st, SeqOf(ch.own), FALSE)
     ELSE
     LET taken == ch.pool
         st1 == [st EXCEPT !.trial[s] = [t \in Ids |-> IF t \in taken
                                            THEN [st.trial[s][t] EXCEPT !.state = "ACTIVE", !.client = w]
                                            ELSE st.trial[s][t]]]
         have == own \cup taken
     IN IF q.need = 0 THEN finish(st1, SeqOf(have), FALSE)
        ELSE IF env.raise THEN finish(st1, <<>>, TRUE)      \* DOC: "Error-ed" operation, done
        ELSE
        LET st1m == [st1 EXCEPT !.study[s].meta = Merge(@, EffMd(@, env.md))]
            base == MaxTrialId(st1m, s)
            k == q.k                                  \* DOC: a short delivery (k < need) is handed out as it is
            st2 == [st1m EXCEPT !.trial[s] = [t \in Ids |->
                       IF t \in (base + 1)..(base + k)
                         THEN IF (t - base) \in ch.act THEN NewTrial("ACTIVE", w, env.ps[ch.perm[t - base]], None)
                              ELSE NewTrial("REQUESTED", None, env.ps[ch.perm[t - base]], None)
                       ELSE st1m.trial[s][t]]]
        IN finish(st2, SeqOf(have \cup {base + j : j \in ch.act}), FALSE)

SuggestTrials(st, s, w, n, env) ==
  IF StudyGuard(st, s) # None THEN Err(st, StudyGuard(st, s))
  ELSE
  \* An operation of this client that is still unfinished was abandoned (SuggestTrials runs to completion under the
  \* operation lock; only a dead server leaves one behind): it is closed with an error and a new operation starts.
  LET st0 == [st EXCEPT !.ops[s][w] = [i \in DOMAIN @ |-> IF @[i].done THEN @[i] ELSE [@[i] EXCEPT !.done = TRUE, !.err = TRUE]]]
  IN SuggestFresh(st0, s, w, n, env, IF "ch" \in DOMAIN env THEN env.ch ELSE DefaultChoice(st0, s, w, n, env))

GetOperation(st, s, w, i) ==
  IF StudyPresent(st, s) /\ i \in DOMAIN st.ops[s][w] THEN Ok(st, st.ops[s][w][i]) ELSE Err(st, "NotFound")

\* ---------------------------------------------------------- early stopping
\* env = [raise |-> BOOLEAN, stop |-> BOOLEAN]  (the algorithm's verdict for the requested trial), optionally
\*       self |-> BOOLEAN : the algorithm decides about the requested trial at all (default TRUE); the code says
\*                          "Pythia does not guarantee that the output_operation's id will be in the decisions";
\*       also |-> sequence of other trial ids it decides about in the same answer (same verdict).
\* No decision about the requested trial means "do not stop" (Policy docstring); the operation is finished all the same,
\* otherwise every later check of the trial would be answered from it without reaching the algorithm again (C06).
\* An operation record is [status \in {"ACTIVE","DONE","FAILED"}, stop].
EsSelf(env) == IF "self" \in DOMAIN env THEN env.self ELSE TRUE
EsAlsoIds(env) == IF "also" \in DOMAIN env THEN {env.also[i] : i \in DOMAIN env.also} ELSE {}     \* a sequence (JSON array)
CheckEarlyStopping(st, s, t, env) ==
  IF StudyGuard(st, s) # None THEN Err(st, StudyGuard(st, s))
  ELSE IF ~Present(st, s, t) THEN Err(st, "NotFound")
  ELSE IF st.trial[s][t].state \notin Mutable THEN Err(st, "FailedPrecondition")
  ELSE LET op == st.es[s][t] IN
       IF op # Absent /\ (op.status = "ACTIVE" \/ (op.status = "DONE" /\ Recycle = "never"))
         THEN Ok(st, [stop |-> op.stop])
       ELSE IF env.raise
         \* DOC (C06): the failure is reported and the next check reaches the algorithm again.
         THEN [st |-> [st EXCEPT !.es[s][t] = [status |-> "FAILED", stop |-> FALSE]],
               resp |-> [err |-> "Unknown", val |-> None]]
       ELSE LET mine == [status |-> "DONE", stop |-> EsSelf(env) /\ env.stop]
                other == [status |-> "DONE", stop |-> env.stop]
            IN Ok([st EXCEPT !.es[s] = [u \in Ids |-> IF u = t THEN mine ELSE IF u \in EsAlsoIds(env) THEN other ELSE @[u]]],
                  [stop |-> mine.stop])

\* delta = [study |-> [Cells -> Vals \cup {None}], t |-> trial id or 0, trial |-> [Cells -> Vals \cup {None}],
\*          t2 |-> second trial id or 0 (written with the same cells as t)]
\* (None = cell not mentioned).
\* a trial is named by the request only through a metadatum written to it
\* t2 = -1: the request also names a malformed trial id ("0"); the whole update is refused and nothing changes
DeltaTrials(d) == IF \A c \in Cells : d.trial[c] = None THEN {} ELSE {x \in {d.t, d.t2} : x # 0}
UpdateMetadata(st, s, d) ==
  IF StudyGuard(st, s) # None THEN Err(st, StudyGuard(st, s))
  ELSE IF -1 \in DeltaTrials(d) THEN Err(st, "Unknown")
  ELSE IF \E x \in DeltaTrials(d) : ~Present(st, s, x)
         THEN Ok(st, "ErrorDetails")      \* reported in the response, nothing changes (all-or-nothing)
  ELSE LET st1 == [st EXCEPT !.study[s].meta = Merge(@, d.study)]
           st2 == [st1 EXCEPT !.trial[s] = [x \in Ids |-> IF x \in DeltaTrials(d)
                                               THEN [st1.trial[s][x] EXCEPT !.meta = Merge(@, d.trial)]
                                               ELSE st1.trial[s][x]]]
       IN Ok(st2, "Empty")

\* ----------------------------------------------------------- optimal trials
Dominates(p, q) == (\A i \in DOMAIN p : p[i] >= q[i]) /\ (\E i \in DOMAIN p : p[i] > q[i])
Considered(st, s) == {t \in IdsOf(st, s) :
                        /\ st.trial[s][t].state = "SUCCEEDED"
                        /\ st.trial[s][t].final # None
                        /\ ~ANaN(st.trial[s][t].final)           \* DOC (C11): objective not a number -> never reported
                        /\ (TwoMetrics(st.study[s].cfg) => HasB(st.trial[s][t].final))}
ListOptimalTrials(st, s) ==
  IF ~StudyPresent(st, s) THEN Err(st, "NotFound")
  ELSE LET cfg == st.study[s].cfg
           C == Considered(st, s)
           v(t) == Obj(cfg, st.trial[s][t].final)
       IN Ok(st, {t \in C : ~\E u \in C : Dominates(v(u), v(t))})

\* ------------------------------------------------------------------- Apply
\* One call record per RPC; environment choices travel inside the record (field env).
Apply(st, c) ==
  CASE c.rpc = "CreateStudy"        -> CreateStudy(st, c.s, c.cfg)
    [] c.rpc = "GetStudy"           -> GetStudy(st, c.s)
    [] c.rpc = "ListStudies"        -> ListStudies(st)
    [] c.rpc = "DeleteStudy"        -> DeleteStudy(st, c.s)
    [] c.rpc = "SetStudyState"      -> SetStudyState(st, c.s, c.x)
    [] c.rpc = "CreateTrial"        -> CreateTrial(st, c.s, c.p, c.c)
    [] c.rpc = "GetTrial"           -> GetTrial(st, c.s, c.t)
    [] c.rpc = "ListTrials"         -> ListTrials(st, c.s)
    [] c.rpc = "AddMeasurement"     -> AddMeasurement(st, c.s, c.t, c.m)
    [] c.rpc = "CompleteTrial"      -> CompleteTrial(st, c.s, c.t, c.f, c.inf, c.reason)
    [] c.rpc = "StopTrial"          -> StopTrial(st, c.s, c.t)
    [] c.rpc = "DeleteTrial"        -> DeleteTrial(st, c.s, c.t)
    [] c.rpc = "SuggestTrials"      -> SuggestTrials(st, c.s, c.w, c.n, c.env)
    [] c.rpc = "GetOperation"       -> GetOperation(st, c.s, c.w, c.i)
    [] c.rpc = "CheckEarlyStopping" -> CheckEarlyStopping(st, c.s, c.t, c.env)
    [] c.rpc = "UpdateMetadata"     -> UpdateMetadata(st, c.s, c.d)
    [] c.rpc = "ListOptimalTrials"  -> ListOptimalTrials(st, c.s)

\* every call that differs from c only in what C02 leaves open (see Choices)
Variants(st, c) ==
  IF c.rpc = "SuggestTrials" /\ StudyGuard(st, c.s) = None
  THEN LET base == [x \in DOMAIN c.env \ {"ch"} |-> c.env[x]]
       IN {[c EXCEPT !.env = [x \in DOMAIN base \cup {"ch"} |-> IF x = "ch" THEN ch ELSE base[x]]] :
             ch \in Choices(st, c.s, c.w, c.n, base)}
  ELSE {c}
\* an observed (response, post-state) is explained by the model when some variant of the call produces it; the default
\* choice is tried first (TLC evaluates the disjunction left to right)
\* a state with every metadata cell blanked: two states that differ only in metadata agree on it
StripMeta(a) == [a EXCEPT !.study = [s \in Studies |-> IF a.study[s] = Absent THEN Absent ELSE [a.study[s] EXCEPT !.meta = NoMeta]],
                          !.trial = [s \in Studies |-> [t \in Ids |-> IF a.trial[s][t] = Absent THEN Absent
                                                                    ELSE [a.trial[s][t] EXCEPT !.meta = NoMeta]]]]
Matches(c, model, obs) == model.err = obs.err /\ (model.err # None \/ model.val = obs.val)

\* -------------------------------------------- property vocabulary (shared)
Legal == {<<"REQUESTED","ACTIVE">>, <<"ACTIVE","STOPPING">>, <<"ACTIVE","SUCCEEDED">>, <<"ACTIVE","INFEASIBLE">>,
          <<"STOPPING","SUCCEEDED">>, <<"STOPPING","INFEASIBLE">>}
Core(tr) == [state |-> tr.state, params |-> tr.params, meas |-> tr.meas, final |-> tr.final, reason |-> tr.reason]
Completed(tr) == tr.state \in {"SUCCEEDED", "INFEASIBLE"}

\* Step predicates over a (pre, post, call, resp) quadruple: used as action properties of Spec A
\* and, on observed states, by the trace specification.
BothT(a, b, s, t) == a.trial[s][t] # Absent /\ b.trial[s][t] # Absent
\* the same id denotes the same incarnation unless this very call deleted/re-created it
SameInc(c, s, t) == ~(c.rpc = "DeleteStudy" /\ c.s = s) /\ ~(c.rpc = "DeleteTrial" /\ c.s = s /\ c.t = t)

StepTransitions(a, b, c) == \A s \in Studies, t \in Ids :
      (BothT(a, b, s, t) /\ a.trial[s][t].state # b.trial[s][t].state)
        => <<a.trial[s][t].state, b.trial[s][t].state>> \in Legal
StepParamsFrozen(a, b, c) == \A s \in Studies, t \in Ids : BothT(a, b, s, t) => b.trial[s][t].params = a.trial[s][t].params
StepCompletedFrozen(a, b, c) == \A s \in Studies, t \in Ids :
      (BothT(a, b, s, t) /\ Completed(a.trial[s][t])) => Core(b.trial[s][t]) = Core(a.trial[s][t])
\* errors change nothing -- except that a failed early-stopping check records the failure on its operation
StepErrorsPure(a, b, c, r) == r.err # None => (IF c.rpc = "CheckEarlyStopping" THEN [b EXCEPT !.es = a.es] = a ELSE b = a)
StepImmutableStudy(a, b, c) == \A s \in Studies :
      (a.study[s] # Absent /\ a.study[s].state \in {"INACTIVE", "COMPLETED"} /\ b.study[s] # Absent)
        => (b.trial[s] = a.trial[s] /\ b.study[s].meta = a.study[s].meta /\ b.ops[s] = a.ops[s] /\ b.es[s] = a.es[s])
StepOnlyNamedTrial(a, b, c) ==
      c.rpc \in {"AddMeasurement", "CompleteTrial", "StopTrial", "DeleteTrial"} =>
        \A s \in Studies, t \in Ids : (s # c.s \/ t # c.t) => b.trial[s][t] = a.trial[s][t]

StepOneOwner(a, b, c) == \A s \in Studies, t \in Ids :
      (BothT(a, b, s, t) /\ a.trial[s][t].client # None) => b.trial[s][t].client = a.trial[s][t].client
StepFreshIds(a, b, c) == \A s \in Studies : (b.study[s] # Absent /\ a.study[s] # Absent) =>
      \A t \in Ids : (a.trial[s][t] = Absent /\ b.trial[s][t] # Absent) =>
         \A u \in Ids : a.trial[s][u] # Absent => u < t
ActiveHasOwner(a) == \A s \in Studies, t \in Ids :
      a.trial[s][t] # Absent => ((a.trial[s][t].state \in {"ACTIVE", "STOPPING"}) => a.trial[s][t].client # None)
RequestedUnowned(a) == \A s \in Studies, t \in Ids :
      a.trial[s][t] # Absent => (a.trial[s][t].state = "REQUESTED" => a.trial[s][t].client = None)
\* C02: what a successful SuggestTrials hands out
StepSuggest(a, b, c, r) ==
  (c.rpc = "SuggestTrials" /\ r.err = None /\ r.val.op.done /\ ~r.val.op.err /\
   {i \in DOMAIN a.ops[c.s][c.w] : ~a.ops[c.s][c.w][i].done} = {}) =>
    LET ids == r.val.op.trials
        idset == {ids[i] : i \in DOMAIN ids}
        own == {t \in IdsOf(a, c.s) : a.trial[c.s][t].state = "ACTIVE" /\ a.trial[c.s][t].client = c.w}
        pool == {t \in IdsOf(a, c.s) : a.trial[c.s][t].state = "REQUESTED"}
        k == Len(c.env.ps)
        avail == Cardinality(own) + Cardinality(pool) + (IF Cardinality(own) + Cardinality(pool) >= c.n THEN 0 ELSE k)
    IN /\ Cardinality(idset) = Len(ids)                                   \* no trial twice
       /\ Len(ids) = (IF avail < c.n THEN avail ELSE c.n)                 \* exactly N, fewer only on short delivery
       /\ \A t \in idset : b.trial[c.s][t].state = "ACTIVE" /\ b.trial[c.s][t].client = c.w
       /\ (Cardinality(own) >= c.n => (b.trial = a.trial /\ idset \subseteq own))     \* sticky, creates nothing
       /\ (Cardinality(own) < c.n => own \subseteq idset)                  \* own first
       /\ (Cardinality(own) + Cardinality(pool) >= c.n => IdsOf(b, c.s) = IdsOf(a, c.s))  \* pool before new
       /\ (Cardinality(own) + Cardinality(pool) < c.n =>                   \* surplus queued, not dropped
             /\ pool \subseteq idset
             /\ Cardinality(IdsOf(b, c.s) \ IdsOf(a, c.s)) = k
             /\ \A t \in (IdsOf(b, c.s) \ IdsOf(a, c.s)) \ idset : b.trial[c.s][t].state = "REQUESTED")
\* C06
NoUnfinishedOp(a) == \A s \in Studies, w \in Clients : \A i \in DOMAIN a.ops[s][w] : a.ops[s][w][i].done
NoActiveEs(a) == \A s \in Studies, t \in Ids : a.es[s][t] # Absent => a.es[s][t].status # "ACTIVE"
StepReported(a, b, c, r) ==
  /\ (c.rpc = "SuggestTrials" /\ r.err = None /\ c.env.raise /\ NoUnfinishedOp(a)) =>
        LET own == {t \in IdsOf(a, c.s) : a.trial[c.s][t].state = "ACTIVE" /\ a.trial[c.s][t].client = c.w}
            pool == {t \in IdsOf(a, c.s) : a.trial[c.s][t].state = "REQUESTED"}
        IN (Cardinality(own) + Cardinality(pool) < c.n) => (r.val.op.done /\ r.val.op.err)
  /\ (c.rpc = "CheckEarlyStopping" /\ c.env.raise /\ r.err = None) =>
        (a.es[c.s][c.t] # Absent /\ a.es[c.s][c.t].status # "FAILED")
\* C10
StepMetaIsolation(a, b, c) ==
  /\ c.rpc \notin {"UpdateMetadata", "SuggestTrials", "DeleteStudy", "CreateStudy"} =>
       \A s \in Studies : (a.study[s] # Absent /\ b.study[s] # Absent) => b.study[s].meta = a.study[s].meta
  /\ c.rpc # "UpdateMetadata" => \A s \in Studies, t \in Ids : BothT(a, b, s, t) => b.trial[s][t].meta = a.trial[s][t].meta
StepMetaLWW(a, b, c, r) ==
  (c.rpc = "UpdateMetadata" /\ r.err = None) =>
     IF r.val = "ErrorDetails" THEN b = a
     ELSE /\ \A x \in Cells : b.study[c.s].meta[x] = (IF c.d.study[x] # None THEN c.d.study[x] ELSE a.study[c.s].meta[x])
          /\ \A t \in Ids : a.trial[c.s][t] # Absent =>
               \A x \in Cells : b.trial[c.s][t].meta[x] =
                  (IF t \in DeltaTrials(c.d) /\ c.d.trial[x] # None THEN c.d.trial[x] ELSE a.trial[c.s][t].meta[x])
          /\ \A s2 \in Studies \ {c.s} : b.study[s2] = a.study[s2] /\ b.trial[s2] = a.trial[s2]
\* C11
StepOptimal(a, b, c, r) ==
  (c.rpc = "ListOptimalTrials" /\ r.err = None) =>
     /\ b = a
     /\ \A t \in r.val : /\ a.trial[c.s][t].state = "SUCCEEDED"
                         /\ a.trial[c.s][t].final # None /\ ~ANaN(a.trial[c.s][t].final)
     /\ r.val = {t \in Considered(a, c.s) : ~\E u \in Considered(a, c.s) :
                    Dominates(Obj(a.study[c.s].cfg, a.trial[c.s][u].final), Obj(a.study[c.s].cfg, a.trial[c.s][t].final))}
=============================================================================
