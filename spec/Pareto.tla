---------------------------- MODULE Pareto ----------------------------
(***************************************************************************)
(* C11, library half: the DEFINITION of Pareto optimality, evaluated by    *)
(* TLC on every multiset of at most MaxN points of the grid (0..V-1)^D.    *)
(* The state is a sequence of points kept in non-decreasing lexicographic  *)
(* order, so BFS enumerates every multiset exactly once (duplicates and    *)
(* single-coordinate ties included by construction).  For each multiset    *)
(* TLC prints                                                              *)
(*   front[i]   - nobody dominates point i                                 *)
(*   rank[i]    - number of points dominating point i                      *)
(*   against[m] - for every split of the indices by bitmask m (bit i set:  *)
(*                point i is among the judged points, otherwise among the  *)
(*                dominating points): which judged points are optimal,     *)
(*                in both modes (strict: an equal point does not dominate) *)
(* and the driver feeds all orders of the multiset to every Pareto routine *)
(* of the library.                                                         *)
(***************************************************************************)
EXTENDS Naturals, Sequences, FiniteSets, TLC, Json, IOUtils
CONSTANTS D, V, MaxN
Points == [1..D -> 0..(V-1)]
VARIABLE ps
Init == ps = <<>>
Leq(p, q) == \/ p = q
             \/ \E i \in 1..D : p[i] < q[i] /\ \A j \in 1..(i-1) : p[j] = q[j]
AddSorted == Len(ps) < MaxN /\ \E p \in Points : (IF ps = <<>> THEN TRUE ELSE Leq(ps[Len(ps)], p)) /\ ps' = Append(ps, p)
Spec == Init /\ [][AddSorted]_ps

GeqAll(p, q) == \A i \in 1..D : p[i] >= q[i]
Dominates(p, q) == GeqAll(p, q) /\ (\E i \in 1..D : p[i] > q[i])
Front == [i \in DOMAIN ps |-> ~\E j \in DOMAIN ps : Dominates(ps[j], ps[i])]
Rank  == [i \in DOMAIN ps |-> Cardinality({j \in DOMAIN ps : Dominates(ps[j], ps[i])})]

RECURSIVE Pow2(_)
Pow2(n) == IF n = 0 THEN 1 ELSE 2 * Pow2(n - 1)
InMask(m, i) == (m \div Pow2(i - 1)) % 2 = 1
Against == [m \in 0..(Pow2(Len(ps)) - 1) |->
              [strict |-> [i \in DOMAIN ps |-> InMask(m, i) /\ ~\E j \in DOMAIN ps : ~InMask(m, j) /\ Dominates(ps[j], ps[i])],
               weak   |-> [i \in DOMAIN ps |-> InMask(m, i) /\ ~\E j \in DOMAIN ps : ~InMask(m, j) /\ GeqAll(ps[j], ps[i])]]]

Dump == PrintT(ToJson([ps |-> ps, front |-> Front, rank |-> Rank, against |-> Against]))

\* ---- large point sets (the accelerated routines shard / recurse only on sets far larger than TLC can enumerate): the
\* driver draws them (seeded; grids with many ties, a late sole dominator, ascending chains), runs the routines and TLC
\* judges every answer against the same definition.  One observation: [pts: Seq(Seq(Nat)), got: Seq(BOOLEAN)].
LargeObs == JsonDeserialize(IOEnv.TRACE_FILE)
DomL(p, q) == (\A i \in DOMAIN p : p[i] >= q[i]) /\ (\E i \in DOMAIN p : p[i] > q[i])
FrontOf(pts) == [i \in DOMAIN pts |-> ~\E j \in DOMAIN pts : DomL(pts[j], pts[i])]
JudgeLarge == \A k \in DOMAIN LargeObs : PrintT(<<"PLV", k, IF LargeObs[k].got = FrontOf(LargeObs[k].pts) THEN "ok" ELSE "wrong_front">>)
JInit == ps = <<>> /\ JudgeLarge
JSpec == JInit /\ [][FALSE]_ps

\* sanity properties of the definition itself (checked by TLC on every multiset)
FrontNonEmpty == ps # <<>> => \E i \in DOMAIN ps : Front[i]
FrontIffRankZero == \A i \in DOMAIN ps : Front[i] <=> Rank[i] = 0
DuplicatesAgree == \A i, j \in DOMAIN ps : ps[i] = ps[j] => Front[i] = Front[j]
StrictImpliedByWeak == \A m \in DOMAIN Against : \A i \in DOMAIN ps : Against[m].weak[i] => Against[m].strict[i]
=============================================================================
