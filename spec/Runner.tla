---------------------------- MODULE Runner ----------------------------
(***************************************************************************)
(* C14, benchmark half: the runner protocol as a small state machine over  *)
(* a BenchmarkState (how many trials are ACTIVE / COMPLETED).  TLC         *)
(* enumerates every runner program of at most MaxLen subroutines that      *)
(* produces at least one completed trial and computes the bookkeeping the  *)
(* real runner must reproduce; two executions of each program with the     *)
(* same seed must produce the identical trial sequence (judged on order    *)
(* keys by the driver's observation record: equal = TRUE).                 *)
(***************************************************************************)
EXTENDS Naturals, Sequences, TLC, Json
CONSTANTS MaxLen
Subs == {"GenEval1", "GenEval2", "Gen1", "Gen2", "Fill2", "EvalActive"}
VARIABLES prog, active, done
Init == prog = <<>> /\ active = 0 /\ done = 0
Run(s) == /\ Len(prog) < MaxLen
          /\ prog' = Append(prog, s)
          /\ CASE s = "GenEval1" -> active' = active /\ done' = done + 1
               [] s = "GenEval2" -> active' = active /\ done' = done + 2
               [] s = "Gen1" -> active' = active + 1 /\ done' = done
               [] s = "Gen2" -> active' = active + 2 /\ done' = done
               [] s = "Fill2" -> active' = (IF active < 2 THEN 2 ELSE active) /\ done' = done
               [] s = "EvalActive" -> active' = 0 /\ done' = done + active
Next == \E s \in Subs : Run(s)
Spec == Init /\ [][Next]_<<prog, active, done>>
Dump == IF done > 0 THEN PrintT(ToJson([prog |-> prog, active |-> active, done |-> done])) ELSE TRUE
=============================================================================
