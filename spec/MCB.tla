---- MODULE MCB ----
(* Model for VizierConcurrent.tla: the scenarios (prefix x concurrent calls) checked exhaustively. *)
EXTENDS VizierConcurrent
NM == [cc \in Cells |-> "None"]
CS == [rpc |-> "CreateStudy", s |-> "s1", cfg |-> "max1"]
Sg(w, ps) == [rpc |-> "SuggestTrials", s |-> "s1", w |-> w, n |-> 1, env |-> [raise |-> FALSE, ps |-> ps, md |-> NM]]
SgM(w) == [rpc |-> "SuggestTrials", s |-> "s1", w |-> w, n |-> 1, env |-> [raise |-> FALSE, ps |-> <<"p1">>, md |-> [cc \in Cells |-> "v2"]]]
SgR(w) == [rpc |-> "SuggestTrials", s |-> "s1", w |-> w, n |-> 1, env |-> [raise |-> TRUE, ps |-> <<>>, md |-> NM]]
Sg2(w) == [rpc |-> "SuggestTrials", s |-> "s1", w |-> w, n |-> 2, env |-> [raise |-> FALSE, ps |-> <<"p1", "p2", "p1">>, md |-> NM]]
RQ == [rpc |-> "CreateTrial", s |-> "s1", p |-> "p2", c |-> "None"]
AD == [rpc |-> "CreateTrial", s |-> "s1", p |-> "p2", c |-> "m1"]
Cp(f) == [rpc |-> "CompleteTrial", s |-> "s1", t |-> 1, f |-> f, inf |-> FALSE, reason |-> ""]
Ms(m) == [rpc |-> "AddMeasurement", s |-> "s1", t |-> 1, m |-> m]
ST == [rpc |-> "StopTrial", s |-> "s1", t |-> 1]
DT == [rpc |-> "DeleteTrial", s |-> "s1", t |-> 1]
DS == [rpc |-> "DeleteStudy", s |-> "s1"]
SS(x) == [rpc |-> "SetStudyState", s |-> "s1", x |-> x]
MdS(v) == [rpc |-> "UpdateMetadata", s |-> "s1", d |-> [study |-> [cc \in Cells |-> v], t |-> 0, t2 |-> 0, trial |-> NM]]
MdT(v) == [rpc |-> "UpdateMetadata", s |-> "s1", d |-> [study |-> NM, t |-> 1, t2 |-> 0, trial |-> [cc \in Cells |-> v]]]
ES(stop) == [rpc |-> "CheckEarlyStopping", s |-> "s1", t |-> 1, env |-> [raise |-> FALSE, stop |-> stop]]
ESR == [rpc |-> "CheckEarlyStopping", s |-> "s1", t |-> 1, env |-> [raise |-> TRUE, stop |-> FALSE]]

P0 == <<CS>>
PPool == <<CS, RQ>>
PAct == <<CS, Sg("w1", <<"p1">>)>>
PActPool == <<CS, Sg("w1", <<"p1">>), RQ>>

\* concurrent calls by prefix: every unordered pair (incl. a call with itself) of the list is a scenario
CallsOn(prefix) ==
  IF prefix = <<>> THEN <<CS, [CS EXCEPT !.cfg = "min1"]>>
  ELSE IF prefix = P0 THEN <<Sg("w1", <<"p1">>), Sg("w2", <<"p2">>), Sg2("w1"), SgM("w1"), SgR("w2"), RQ, AD, SS("INACTIVE"), SS("COMPLETED"), DS, MdS("v1"), MdS("v2")>>
  ELSE IF prefix = PPool THEN <<Sg("w1", <<"p1">>), Sg("w2", <<"p2">>), DT, MdT("v1"), RQ, SS("INACTIVE"), DS>>
  ELSE IF prefix = PAct THEN <<Sg("w2", <<"p2">>), Sg("w1", <<"p2">>), Cp("m1"), Cp("m2"), Cp("None"), Ms("m1"), Ms("m2"), ST, DT, MdT("v1"), MdT("v2"), SS("INACTIVE"), DS, ES(TRUE), ES(FALSE), ESR, RQ>>
  ELSE <<Sg("w2", <<"p2">>), Cp("m1"), DT, MdT("v1")>>

Pairs(prefix, name) ==
  LET cs == CallsOn(prefix) IN
  {[name |-> name, prefix |-> prefix, calls |-> [p \in Procs |-> IF p = "A" THEN cs[i] ELSE cs[j]]] : i \in DOMAIN cs, j \in DOMAIN cs}
MCScenarios2 == {sc \in Pairs(<<>>, "empty") \cup Pairs(P0, "study") \cup Pairs(PPool, "pool") \cup Pairs(PAct, "active") \cup Pairs(PActPool, "active_pool") : TRUE}
\* three processes: a sample of triples on the richest prefix
Triple(a, b, c3) == [name |-> "triple", prefix |-> PAct, calls |-> [p \in Procs |-> IF p = "A" THEN a ELSE IF p = "B" THEN b ELSE c3]]
MCScenarios3 == {Triple(Sg("w2", <<"p2">>), RQ, Cp("m1")), Triple(Ms("m1"), Ms("m2"), Cp("None")), Triple(Sg("w2", <<"p2">>), MdT("v1"), DT),
                 Triple(SS("INACTIVE"), Ms("m1"), MdS("v1")), Triple(ES(TRUE), Cp("m1"), Sg("w2", <<"p2">>)), Triple(DS, Sg("w2", <<"p2">>), RQ)}
====
