---------------------------- MODULE Wire ----------------------------
(***************************************************************************)
(* C09: what must survive the wire format.  The module is a VALUE MODEL:   *)
(* it enumerates the objects whose conversion to protocol buffers and back *)
(* is judged (falsy values - 0, 0.0, "", FALSE, empty list - are           *)
(* first-class members of every universe, because truthiness tests are the *)
(* typical way a converter loses them), and it judges the observations     *)
(* recorded from the real converters: the projection of                    *)
(* from_proto(to_proto(x)) must equal x on every modelled field, and the   *)
(* second serialisation must be byte-identical to the first.               *)
(* Fields documented as not transmitted (metric std, checkpoint path,      *)
(* related links, stopping-reason text) are not part of the value model.   *)
(* Numbers: rationals <<num, den>>; times: microseconds as small integers. *)
(***************************************************************************)
EXTENDS Integers, Sequences, FiniteSets, TLC, Json, IOUtils
CONSTANTS Mode       \* "param" | "metric" | "measurement" | "trial" | "delta" | "config" | "sreq" | "sdec" | "ereq" | "edec" | "judge"

\* ------------------------------------------------------------ parameters
ParamCases ==
  {c \in [kind : {"D", "I", "S", "C"}, scale : {"none", "LINEAR", "LOG", "REVERSE_LOG"}, dflt : {"unset", "falsy", "truthy"},
          ext : {"INTERNAL", "BOOLEAN", "INTEGER", "FLOAT"}, depth : 1..5] :      \* depth 4: a child active under TWO parent values; 5: the same child NAME under two parent values with different domains
     /\ (c.kind = "C" => c.scale = "none")
     /\ (c.scale \in {"LOG", "REVERSE_LOG"} => c.dflt # "falsy")       \* log scaling needs positive bounds: 0 is not in the domain
     /\ (c.kind = "D" => c.depth = 1)                                   \* continuous parameters have no children
     /\ (c.ext = "BOOLEAN" => c.kind = "C")
     /\ (c.ext = "INTEGER" => c.kind \in {"S", "I"})
     /\ (c.ext = "FLOAT" => c.kind \in {"S", "D"})}

\* ---------------------------------------------------------------- metrics
MetricCases ==
  {c \in [goal : {"MAXIMIZE", "MINIMIZE"}, safety : {"none", "zero", "pos", "neg"}, frac : {"none", "zero", "half"}] :
     /\ (c.safety = "none" => c.frac = "none")}

\* ----------------------------------------------------------- measurements
Elapsed == {<<0, 1>>, <<3, 2>>, <<1, 1000000>>, <<5, 1>>, <<7, 4>>}
MetricVals == {"absent", "zero", "neg", "inf", "tiny"}        \* per metric name
MeasurementCases == [steps : {0, 3}, elapsed : Elapsed, a : MetricVals, b : {"absent", "zero", "neg"}]

\* ----------------------------------------------------------------- trials
ParamVals == {"absent", "int0", "float0", "float15", "str_empty", "str_False", "str_a"}
TrialCases ==
  {c \in [status : {"REQUESTED", "ACTIVE", "STOPPING", "SUCCEEDED", "INFEASIBLE"}, reason : {"", "r"},
          p : ParamVals, q : {"absent", "int0", "str_empty"}, nmeas : 0..2, final : {"none", "m"},
          worker : {"none", "w"}, ctime : {"none", "us"}, dtime : {"none", "us"},
          meta : {"none", "str", "empty_str", "ns", "ns_empty_first", "ns_colon_chain"}] :
          \* ns_empty_first: namespace ("", "tuner"); ns_colon_chain: ("gs://b", "c:d", "e") - colons inside non-last components
     /\ (c.status # "INFEASIBLE" => c.reason = "")
     /\ (c.status \in {"SUCCEEDED", "INFEASIBLE"} <=> c.dtime = "us")       \* completed trials carry a completion time
     /\ (c.status = "SUCCEEDED" => c.final = "m")
     /\ (c.status \in {"REQUESTED"} => c.worker = "none" /\ c.nmeas = 0 /\ c.final = "none")
     /\ (c.status \in {"ACTIVE", "STOPPING"} => c.final = "none")}

\* ------------------------------------------------------------------ deltas
CellVals == {"absent", "v", "empty", "proto"}
DeltaCases == [study_root : CellVals, study_ns : CellVals, trial1_root : CellVals, trial2_ns : {"absent", "v", "empty"}]

\* -------------------------------------------------------- study configs
\* a StudyConfig carrying metadata, possibly received from the wire and then EDITED before it is sent again
ConfigCases == [algo : {"RANDOM_SEARCH", "NSGA2"}, noise : {"unset", "LOW", "HIGH"}, root : {"absent", "v", "empty"}, ns : {"absent", "v"},
                edit : {"none", "delete_root", "delete_ns", "overwrite_root", "add_ns"}]
AfterEdit(c) == CASE c.edit = "delete_root" -> [c EXCEPT !.root = "absent"]
                  [] c.edit = "delete_ns" -> [c EXCEPT !.ns = "absent"]
                  [] c.edit = "overwrite_root" -> [c EXCEPT !.root = "v"]
                  [] c.edit = "add_ns" -> [c EXCEPT !.ns = "v"]
                  [] OTHER -> c

\* ------------------------------------------- algorithm requests / decisions (the Pythia wire)
\* An Optional string / measurement that is None and one that is empty are the same value ("unset"): a proto3 scalar has no
\* third state.  The set of trial ids of an early-stopping request is different: None is documented as "all trials".
Unset(x) == IF x \in {"none", "empty"} THEN "unset" ELSE x
SuggestRequestCases == [count : {1, 3}, ckpt : {"none", "empty", "dir"}, guid : {"", "g"}, maxid : {0, 7},
                        space : {"flat", "conditional"}, pmeta : {"absent", "v", "empty"}]
SuggestDecisionCases == [nsug : 0..2, p : {"absent", "int0", "float0", "float15", "str_empty", "str_a"}, q : {"absent", "str_False"},
                         smeta : {"absent", "v", "empty", "proto", "ns"}, dstudy : {"absent", "v", "empty", "proto"}, dtrial : {"absent", "v"}]
EarlyStopRequestCases == [ids : {"none", "one", "two"}, ckpt : {"none", "empty", "dir"}, guid : {"", "g"}, maxid : {0, 7}]
EarlyStopDecisionsCases == {c \in [n : 0..2, stop : BOOLEAN, pfm : {"none", "empty", "metric0", "metric"}, dstudy : {"absent", "v", "empty"},
                                   dtrial : {"absent", "v"}] : c.n = 0 => (c.stop /\ c.pfm = "none")}
ExpectReq(c) == [c EXCEPT !.ckpt = Unset(@)]
ExpectDec(c) == [c EXCEPT !.pfm = Unset(@)]

Expect(c) == CASE Mode = "config" -> AfterEdit(c)
               [] Mode \in {"sreq", "ereq"} -> ExpectReq(c)
               [] Mode = "edec" -> ExpectDec(c)
               [] OTHER -> c

\* ================================================================= driver
Obs == IF Mode = "judge" THEN JsonDeserialize(IOEnv.TRACE_FILE) ELSE <<>>
VARIABLES case, i
Init == CASE Mode = "param" -> case \in ParamCases /\ i = 0
          [] Mode = "metric" -> case \in MetricCases /\ i = 0
          [] Mode = "measurement" -> case \in MeasurementCases /\ i = 0
          [] Mode = "trial" -> case \in TrialCases /\ i = 0
          [] Mode = "delta" -> case \in DeltaCases /\ i = 0
          [] Mode = "config" -> case \in ConfigCases /\ i = 0
          [] Mode = "sreq" -> case \in SuggestRequestCases /\ i = 0
          [] Mode = "sdec" -> case \in SuggestDecisionCases /\ i = 0
          [] Mode = "ereq" -> case \in EarlyStopRequestCases /\ i = 0
          [] Mode = "edec" -> case \in EarlyStopDecisionsCases /\ i = 0
          [] Mode = "judge" -> i \in 1..Len(Obs) /\ case = Obs[i].case
Spec == Init /\ [][UNCHANGED <<case, i>>]_<<case, i>>
Dump == PrintT(ToJson([case |-> case, expect |-> Expect(case)]))

\* verdict on one observation [case, back, idem, refused]:
\*   back = projection of from_proto(to_proto(x)) in the vocabulary of the case
RoundTrip(o) == o.back = o.expect
Idempotent(o) == o.idem
Verdict(o) == IF o.refused THEN "refused"
              ELSE IF ~RoundTrip(o) THEN "roundtrip"
              ELSE IF ~Idempotent(o) THEN "not_idempotent"
              ELSE "ok"
Judge == PrintT(<<"WV", i, Verdict(Obs[i])>>)
=============================================================================
