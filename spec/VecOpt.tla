---------------------------- MODULE VecOpt ----------------------------
(***************************************************************************)
(* C19: the vectorised acquisition optimiser as a state machine            *)
(*    best := TopK(best \cup batch)   for every evaluated batch            *)
(* over abstract candidates with integer scores.  Mode "model": TLC checks *)
(* on the model, for every sequence of batches over a small score range,   *)
(* that the result is a top-count of everything evaluated.  Mode "judge":  *)
(* observations of the real optimiser run on piecewise-constant score      *)
(* functions (so that candidates are discrete cells and "the score the     *)
(* function gives at that candidate" is a table lookup TLC can do itself). *)
(***************************************************************************)
EXTENDS Num, Integers, Sequences, FiniteSets, TLC, Json, IOUtils
CONSTANTS Mode, MaxBatches, BatchSize, Count, MaxScore

\* ------------------------------------------------------------- model
NegInf == -1000
RECURSIVE TopK(_, _)
\* the k largest elements of a bag given as a sequence, as a descending sequence
MaxOfSeq(q) == CHOOSE i \in DOMAIN q : \A j \in DOMAIN q : q[j] <= q[i]
RemoveAt(q, i) == [j \in 1..(Len(q) - 1) |-> IF j < i THEN q[j] ELSE q[j + 1]]
TopK(q, k) == IF k = 0 \/ q = <<>> THEN <<>> ELSE LET i == MaxOfSeq(q) IN <<q[i]>> \o TopK(RemoveAt(q, i), k - 1)
VARIABLES best, seen, nb
Init == IF Mode = "model" THEN best = [i \in 1..Count |-> NegInf] /\ seen = <<>> /\ nb = 0
        ELSE best = <<>> /\ seen = <<>> /\ nb = 0
Step == /\ Mode = "model" /\ nb < MaxBatches
        /\ \E batch \in [1..BatchSize -> 0..MaxScore] :
             /\ best' = TopK(batch \o best, Count)
             /\ seen' = seen \o batch
        /\ nb' = nb + 1
Spec == Init /\ [][Step]_<<best, seen, nb>>
\* the incremental merge never loses a better candidate
ResultIsTopOfEvaluated == Mode # "model" \/ nb = 0 \/ best = TopK(seen \o [i \in 1..Count |-> NegInf], Count)

\* ------------------------------------------------------------- judge
Obs == IF Mode = "judge" THEN JsonDeserialize(IOEnv.TRACE_FILE) ELSE <<>>
Zero == Obs[1].zero
One == Obs[1].one
\* result row: [cont: keys, cat: ints, pad_ok, cell: index into table (1-based), reward: int]
InBounds(o, r) == /\ \A j \in DOMAIN r.cont : FBetween(Zero, r.cont[j], One)
                  /\ \A j \in DOMAIN r.cat : r.cat[j] >= 0 /\ r.cat[j] < o.ncats[j]
Verdict(o) ==
  IF o.refused THEN "refused"
  ELSE IF Len(o.result) # o.count THEN "wrong_count"
  ELSE IF \E i \in DOMAIN o.result : ~InBounds(o, o.result[i]) THEN "out_of_bounds"
  ELSE IF \E i \in DOMAIN o.result : ~o.result[i].pad_ok THEN "padding_leaked"
  ELSE IF \E i \in DOMAIN o.result : o.result[i].reward # o.table[o.result[i].cell] THEN "reward_is_not_the_score_at_the_candidate"
  ELSE IF TopK([i \in DOMAIN o.result |-> o.result[i].reward], o.count) # TopK(o.evaluated \o [i \in 1..o.count |-> NegInf], o.count) THEN "not_the_best_evaluated"
  ELSE IF o.has_prior /\ TopK([i \in DOMAIN o.result |-> o.result[i].reward], 1)[1] < o.prior_best THEN "worse_than_prior"
  ELSE IF ~o.same_seed_same_result THEN "not_reproducible"
  ELSE "ok"
JudgeAll == \A i \in DOMAIN Obs : PrintT(<<"VV", i, Verdict(Obs[i])>>)
JInit == best = <<>> /\ seen = <<>> /\ nb = 0 /\ JudgeAll
JSpec == JInit /\ [][FALSE]_<<best, seen, nb>>
=============================================================================
