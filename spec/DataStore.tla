---------------------------- MODULE DataStore ----------------------------
(***************************************************************************)
(* The contract of vizier/_src/service/datastore.py (abstract DataStore)   *)
(* as a state machine: one action per abstract method, one branch per      *)
(* documented error.  Both implementations (NestedDictRAMDataStore,        *)
(* SQLDataStore on memory and on a file) are replayed against it, so the   *)
(* equivalence C07 asks for "behind the service" is decided one layer      *)
(* lower as conformance of every backend to ONE model.                     *)
(*                                                                         *)
(* Caller discipline (what the servicer can issue; the docstrings leave    *)
(* the rest open and the two backends legitimately differ there):          *)
(*   - suggestion operations of a client are numbered 1, 2, 3, ...         *)
(*     without gaps (the servicer uses max_suggestion_operation_number+1); *)
(*   - update_*_operation names an operation that get_* just returned, or  *)
(*     one under a study / client that has nothing at all.                 *)
(* Resource hierarchy: owner > study > {trial, client > suggestion op,     *)
(* early-stopping op}.  An owner exists from its first study on and is     *)
(* never removed; children are stored only under an existing study and go  *)
(* away with it.                                                           *)
(***************************************************************************)
EXTENDS Naturals, Sequences, FiniteSets, TLC, Json

CONSTANTS Studies,    \* subset of {"a1", "a2", "b1"}: a1, a2 belong to owner "oa", b1 to owner "ob"
          Owners,     \* owners that list_studies is asked about
          Clients, MaxId, Cells, Vals,
          Bodies,     \* opaque payload tokens of studies / trials / operations
          MaxOps,     \* model bound on operations per client
          MaxDepth,
          Kinds

None == "None"
Absent == [absent |-> TRUE]
Ids == 1..MaxId
OwnerOf(s) == IF s = "b1" THEN "ob" ELSE "oa"
NoMeta == [c \in Cells |-> None]

InitDs == [owners |-> {},
           study |-> [s \in Studies |-> Absent],
           trial |-> [s \in Studies |-> [t \in Ids |-> Absent]],
           sop   |-> [s \in Studies |-> [w \in Clients |-> <<>>]],
           es    |-> [s \in Studies |-> [t \in Ids |-> Absent]]]

Has(ds, s) == ds.study[s] # Absent
HasT(ds, s, t) == Has(ds, s) /\ ds.trial[s][t] # Absent
Ok(ds, v) == [ds |-> ds, resp |-> [err |-> None, val |-> v]]
Err(ds, e) == [ds |-> ds, resp |-> [err |-> e, val |-> None]]
Rec(b) == [body |-> b, meta |-> NoMeta]
MaxOf(S) == IF S = {} THEN 0 ELSE CHOOSE m \in S : \A x \in S : x <= m
Merge(old, upd) == [c \in Cells |-> IF upd[c] # None THEN upd[c] ELSE old[c]]

Apply(ds, c) ==
  CASE c.rpc = "create_study" ->
         IF Has(ds, c.s) THEN Err(ds, "AlreadyExists")
         ELSE Ok([ds EXCEPT !.study[c.s] = Rec(c.b), !.owners = @ \cup {OwnerOf(c.s)}], "ok")
    [] c.rpc = "load_study" -> IF Has(ds, c.s) THEN Ok(ds, ds.study[c.s]) ELSE Err(ds, "NotFound")
    [] c.rpc = "update_study" ->          \* replaces the whole record, metadata included
         IF Has(ds, c.s) THEN Ok([ds EXCEPT !.study[c.s] = [body |-> c.b, meta |-> c.m]], "ok") ELSE Err(ds, "NotFound")
    [] c.rpc = "delete_study" ->
         IF ~Has(ds, c.s) THEN Err(ds, "NotFound")
         ELSE Ok([ds EXCEPT !.study[c.s] = Absent, !.trial[c.s] = [t \in Ids |-> Absent],
                            !.sop[c.s] = [w \in Clients |-> <<>>], !.es[c.s] = [t \in Ids |-> Absent]], "ok")
    [] c.rpc = "list_studies" ->
         IF c.o \notin ds.owners THEN Err(ds, "NotFound")
         ELSE Ok(ds, [s \in Studies |-> IF OwnerOf(s) = c.o THEN ds.study[s] ELSE Absent])
    [] c.rpc = "create_trial" ->
         IF ~Has(ds, c.s) THEN Err(ds, "NotFound")
         ELSE IF HasT(ds, c.s, c.t) THEN Err(ds, "AlreadyExists")
         ELSE Ok([ds EXCEPT !.trial[c.s][c.t] = Rec(c.b)], "ok")
    [] c.rpc = "get_trial" -> IF HasT(ds, c.s, c.t) THEN Ok(ds, ds.trial[c.s][c.t]) ELSE Err(ds, "NotFound")
    [] c.rpc = "update_trial" ->
         IF HasT(ds, c.s, c.t) THEN Ok([ds EXCEPT !.trial[c.s][c.t] = [body |-> c.b, meta |-> c.m]], "ok") ELSE Err(ds, "NotFound")
    [] c.rpc = "list_trials" -> IF Has(ds, c.s) THEN Ok(ds, ds.trial[c.s]) ELSE Err(ds, "NotFound")
    [] c.rpc = "delete_trial" ->
         IF HasT(ds, c.s, c.t) THEN Ok([ds EXCEPT !.trial[c.s][c.t] = Absent], "ok") ELSE Err(ds, "NotFound")
    [] c.rpc = "max_trial_id" ->
         IF Has(ds, c.s) THEN Ok(ds, MaxOf({t \in Ids : HasT(ds, c.s, t)})) ELSE Err(ds, "NotFound")
    [] c.rpc = "create_sop" ->
         IF ~Has(ds, c.s) THEN Err(ds, "NotFound")
         ELSE IF c.i <= Len(ds.sop[c.s][c.w]) THEN Err(ds, "AlreadyExists")
         ELSE Ok([ds EXCEPT !.sop[c.s][c.w] = Append(@, c.b)], "ok")
    [] c.rpc = "get_sop" ->
         IF Has(ds, c.s) /\ c.i <= Len(ds.sop[c.s][c.w]) THEN Ok(ds, ds.sop[c.s][c.w][c.i]) ELSE Err(ds, "NotFound")
    [] c.rpc = "update_sop" ->
         IF Has(ds, c.s) /\ c.i <= Len(ds.sop[c.s][c.w]) THEN Ok([ds EXCEPT !.sop[c.s][c.w][c.i] = c.b], "ok") ELSE Err(ds, "NotFound")
    [] c.rpc = "list_sop" ->              \* a client exists from its first operation on
         IF Has(ds, c.s) /\ ds.sop[c.s][c.w] # <<>>
         THEN Ok(ds, IF c.f = "all" THEN ds.sop[c.s][c.w] ELSE SelectSeq(ds.sop[c.s][c.w], LAMBDA b : b = c.f))
         ELSE Err(ds, "NotFound")
    [] c.rpc = "max_sop" ->
         IF Has(ds, c.s) /\ ds.sop[c.s][c.w] # <<>> THEN Ok(ds, Len(ds.sop[c.s][c.w])) ELSE Err(ds, "NotFound")
    [] c.rpc = "create_es" ->
         IF ~Has(ds, c.s) THEN Err(ds, "NotFound")
         ELSE IF ds.es[c.s][c.t] # Absent THEN Err(ds, "AlreadyExists")
         ELSE Ok([ds EXCEPT !.es[c.s][c.t] = [body |-> c.b]], "ok")
    [] c.rpc = "get_es" -> IF Has(ds, c.s) /\ ds.es[c.s][c.t] # Absent THEN Ok(ds, ds.es[c.s][c.t]) ELSE Err(ds, "NotFound")
    [] c.rpc = "update_es" ->
         IF Has(ds, c.s) /\ ds.es[c.s][c.t] # Absent THEN Ok([ds EXCEPT !.es[c.s][c.t] = [body |-> c.b]], "ok") ELSE Err(ds, "NotFound")
    [] c.rpc = "update_metadata" ->       \* all or nothing; c.tm : Ids -> metadata update (NoMeta = trial not named)
         IF ~Has(ds, c.s) THEN Err(ds, "NotFound")
         ELSE IF c.bad THEN Err(ds, "Invalid")       \* one more update names a malformed trial id ("0")
         ELSE IF \E t \in Ids : c.tm[t] # NoMeta /\ ~HasT(ds, c.s, t) THEN Err(ds, "NotFound")
         ELSE Ok([ds EXCEPT !.study[c.s].meta = Merge(@, c.sm),
                            !.trial[c.s] = [t \in Ids |-> IF c.tm[t] = NoMeta THEN @[t]
                                                          ELSE [@[t] EXCEPT !.meta = Merge(@, c.tm[t])]]], "ok")

\* hist (the calls so far) and path (response and state after each call) are history variables hidden by VIEW
VARIABLES ds, resp, hist, path
vars == <<ds, resp, hist, path>>
\* durable: what a NEW connection to the same database file reads equals what the serving connection reads, i.e. no
\* method returns with a write still pending on the shared connection (a later rollback on behalf of another call would
\* discard it, a crash would lose it).  The model has no pending state at all, so the flag is constantly TRUE.
Shown(d) == [owners |-> [o \in Owners |-> o \in d.owners], study |-> d.study, trial |-> d.trial, sop |-> d.sop, es |-> d.es, durable |-> TRUE]
Init == ds = InitDs /\ resp = [err |-> None, val |-> None] /\ hist = <<>> /\ path = <<>>
Do(call) == LET r == Apply(ds, call) IN /\ ds' = r.ds /\ resp' = r.resp /\ hist' = Append(hist, call)
                                        /\ path' = Append(path, [resp |-> r.resp, st |-> Shown(r.ds)])
En(k) == k \in Kinds /\ Len(hist) < MaxDepth

OneCell(c, v) == [x \in Cells |-> IF x = c THEN v ELSE None]
Metas == {NoMeta} \cup {OneCell(c, v) : c \in Cells, v \in Vals}
OpNums(s, w) == 1..(IF Len(ds.sop[s][w]) < MaxOps THEN Len(ds.sop[s][w]) + 1 ELSE MaxOps)
\* operation numbers an update may name (caller discipline): an existing one, or 1 where there is none
UpdNums(s, w) == IF ds.sop[s][w] = <<>> THEN {1} ELSE 1..Len(ds.sop[s][w])

ACreateStudy == En("create_study") /\ \E s \in Studies, b \in Bodies : Do([rpc |-> "create_study", s |-> s, b |-> b])
ALoadStudy   == En("load_study") /\ \E s \in Studies : Do([rpc |-> "load_study", s |-> s])
AUpdateStudy == En("update_study") /\ \E s \in Studies, b \in Bodies, m \in Metas : Do([rpc |-> "update_study", s |-> s, b |-> b, m |-> m])
ADeleteStudy == En("delete_study") /\ \E s \in Studies : Do([rpc |-> "delete_study", s |-> s])
AListStudies == En("list_studies") /\ \E o \in Owners : Do([rpc |-> "list_studies", o |-> o])
ACreateTrial == En("create_trial") /\ \E s \in Studies, t \in Ids, b \in Bodies : Do([rpc |-> "create_trial", s |-> s, t |-> t, b |-> b])
AGetTrial    == En("get_trial") /\ \E s \in Studies, t \in Ids : Do([rpc |-> "get_trial", s |-> s, t |-> t])
AUpdateTrial == En("update_trial") /\ \E s \in Studies, t \in Ids, b \in Bodies, m \in Metas :
                  Do([rpc |-> "update_trial", s |-> s, t |-> t, b |-> b, m |-> m])
AListTrials  == En("list_trials") /\ \E s \in Studies : Do([rpc |-> "list_trials", s |-> s])
ADeleteTrial == En("delete_trial") /\ \E s \in Studies, t \in Ids : Do([rpc |-> "delete_trial", s |-> s, t |-> t])
AMaxTrialId  == En("max_trial_id") /\ \E s \in Studies : Do([rpc |-> "max_trial_id", s |-> s])
ACreateSop   == En("create_sop") /\ \E s \in Studies, w \in Clients, b \in Bodies : \E i \in OpNums(s, w) :
                  Do([rpc |-> "create_sop", s |-> s, w |-> w, i |-> i, b |-> b])
AGetSop      == En("get_sop") /\ \E s \in Studies, w \in Clients, i \in 1..MaxOps : Do([rpc |-> "get_sop", s |-> s, w |-> w, i |-> i])
AUpdateSop   == En("update_sop") /\ \E s \in Studies, w \in Clients, b \in Bodies : \E i \in UpdNums(s, w) :
                  Do([rpc |-> "update_sop", s |-> s, w |-> w, i |-> i, b |-> b])
AListSop     == En("list_sop") /\ \E s \in Studies, w \in Clients, f \in {"all"} \cup Bodies : Do([rpc |-> "list_sop", s |-> s, w |-> w, f |-> f])
AMaxSop      == En("max_sop") /\ \E s \in Studies, w \in Clients : Do([rpc |-> "max_sop", s |-> s, w |-> w])
ACreateEs    == En("create_es") /\ \E s \in Studies, t \in Ids, b \in Bodies : Do([rpc |-> "create_es", s |-> s, t |-> t, b |-> b])
AGetEs       == En("get_es") /\ \E s \in Studies, t \in Ids : Do([rpc |-> "get_es", s |-> s, t |-> t])
AUpdateEs    == En("update_es") /\ \E s \in Studies, t \in Ids, b \in Bodies :
                  /\ (Has(ds, s) => ds.es[s][t] # Absent)
                  /\ Do([rpc |-> "update_es", s |-> s, t |-> t, b |-> b])
\* bad: the call also names a malformed trial id; which error wins when a well-formed id is missing too is left open
AUpdateMetadata == En("update_metadata") /\ \E s \in Studies, sm \in Metas, tm \in [Ids -> Metas], bad \in BOOLEAN :
                  /\ (sm # NoMeta \/ \E t \in Ids : tm[t] # NoMeta)
                  /\ (bad => \A t \in Ids : tm[t] # NoMeta => HasT(ds, s, t))
                  /\ Do([rpc |-> "update_metadata", s |-> s, sm |-> sm, tm |-> tm, bad |-> bad])

Next == \/ ACreateStudy \/ ALoadStudy \/ AUpdateStudy \/ ADeleteStudy \/ AListStudies \/ ACreateTrial \/ AGetTrial
        \/ AUpdateTrial \/ AListTrials \/ ADeleteTrial \/ AMaxTrialId \/ ACreateSop \/ AGetSop \/ AUpdateSop
        \/ AListSop \/ AMaxSop \/ ACreateEs \/ AGetEs \/ AUpdateEs \/ AUpdateMetadata
Spec == Init /\ [][Next]_vars

\* exhaustive configs: every generated successor; simulation: a sample of the complete behaviours, with every step's outcome
Dump == PrintT(ToJson([hist |-> hist, st |-> Shown(ds), resp |-> resp]))
DumpEnd == Len(hist) < MaxDepth \/ RandomElement(1..40) # 1 \/ PrintT(ToJson([hist |-> hist, path |-> path]))
View == ds

\* ------------------------------------------------------------ properties of the contract
Last == hist'[Len(hist')]
Reads == {"load_study", "list_studies", "get_trial", "list_trials", "max_trial_id", "get_sop", "list_sop", "max_sop", "get_es"}
\* children exist only under an existing study
Hierarchy == \A s \in Studies : ~Has(ds, s) =>
                /\ \A t \in Ids : ds.trial[s][t] = Absent /\ ds.es[s][t] = Absent
                /\ \A w \in Clients : ds.sop[s][w] = <<>>
OwnersCoverStudies == \A s \in Studies : Has(ds, s) => OwnerOf(s) \in ds.owners
ErrorsPure == [][resp'.err # None => ds' = ds]_vars
ReadsPure == [][Last.rpc \in Reads => ds' = ds]_vars
OwnersGrow == [][ds.owners \subseteq ds'.owners]_vars
\* a call touches only the study it names
Isolation == [][\A s \in Studies : (Last.rpc # "list_studies" /\ s # Last.s) =>
                 /\ ds'.study[s] = ds.study[s] /\ ds'.trial[s] = ds.trial[s] /\ ds'.sop[s] = ds.sop[s] /\ ds'.es[s] = ds.es[s]]_vars
\* metadata is last-writer-wins per cell and all-or-nothing per call (C10 at the datastore)
MetaLWW == [][(Last.rpc = "update_metadata" /\ resp'.err = None) =>
                /\ \A c \in Cells : ds'.study[Last.s].meta[c] = IF Last.sm[c] # None THEN Last.sm[c] ELSE ds.study[Last.s].meta[c]
                /\ ds'.study[Last.s].body = ds.study[Last.s].body
                /\ \A t \in Ids : ds.trial[Last.s][t] # Absent =>
                     /\ ds'.trial[Last.s][t].body = ds.trial[Last.s][t].body
                     /\ \A c \in Cells : ds'.trial[Last.s][t].meta[c] =
                          IF Last.tm[t][c] # None THEN Last.tm[t][c] ELSE ds.trial[Last.s][t].meta[c]]_vars
\* a study created again under an old name starts empty
FreshAfterRecreate == [][(Last.rpc = "create_study" /\ resp'.err = None) =>
                           /\ \A t \in Ids : ds'.trial[Last.s][t] = Absent /\ ds'.es[Last.s][t] = Absent
                           /\ \A w \in Clients : ds'.sop[Last.s][w] = <<>>]_vars
=============================================================================
