---------------------------- MODULE VizierLin ----------------------------
(***************************************************************************)
(* Linearizability trace specification (C04): the binding between the      *)
(* concurrent executions of the real servicer and the sequential reference *)
(* model.  A trace is                                                      *)
(*    invoke(th, call)* ... return(th, resp)* ... final(post)              *)
(* for a sequential prefix (thread "P") followed by concurrently invoked   *)
(* calls.  The spec keeps Spec A's state plus, per thread, the pending     *)
(* call; Linearize(t) is a silent step that applies the pending call of t  *)
(* atomically with VizierAtomic.Apply.  A trace is accepted iff some order *)
(* of the Linearize steps consistent with real time explains every         *)
(* response and the final stored state, up to one renaming (ren) of the    *)
(* trial ids, chosen in the initial state.  Acceptance = the final event   *)
(* is consumed.                                                            *)
(***************************************************************************)
EXTENDS VizierAtomic, Json, IOUtils

Traces == JsonDeserialize(IOEnv.TRACE_FILE)
N == Len(Traces)
Threads == {"P", "A", "B", "C"}

VARIABLES tid, l, st, pend, ren
vars == <<tid, l, st, pend, ren>>

Idle == [status |-> "idle"]
Perms == {f \in [Ids -> Ids] : \A a, b \in Ids : a # b => f[a] # f[b]}

Init == tid \in 1..N /\ l = 1 /\ st = InitSt /\ pend = [t \in Threads |-> Idle] /\ ren \in Perms

Ev == Traces[tid][l]
More == l <= Len(Traces[tid])

Invoke == /\ More /\ Ev.ev = "invoke" /\ pend[Ev.th].status = "idle"
          /\ pend' = [pend EXCEPT ![Ev.th] = [status |-> "invoked", call |-> Ev.call]]
          /\ l' = l + 1 /\ UNCHANGED <<tid, st, ren>>

\* the call takes effect atomically, with any of the choices C02 leaves open (VizierAtomic.Variants)
Linearize(t) == /\ pend[t].status = "invoked"
                /\ \E v \in Variants(st, pend[t].call) :
                     LET r == Apply(st, v) IN
                     /\ st' = r.st
                     /\ pend' = [pend EXCEPT ![t] = [status |-> "linearized", call |-> pend[t].call, resp |-> r.resp]]
                /\ UNCHANGED <<tid, l, ren>>

\* observed ids -> model ids
RenSeq(q) == SeqOf({ren[q[i]] : i \in DOMAIN q})
\* What C04 compares per call: the success or error class, and the trials handed out by suggest / add-trial calls
\* (up to the renaming).  The content of other responses (e.g. the study returned by SetStudyState) is not part of
\* the property; the final stored state is compared in Final.
RespOk(c, model, obs) ==
  /\ model.err = obs.err
  /\ IF model.err # None THEN TRUE
     ELSE CASE c.rpc = "SuggestTrials" -> /\ model.val.op.done = obs.val.op.done /\ model.val.op.err = obs.val.op.err
                                          /\ model.val.op.trials = RenSeq(obs.val.op.trials)
            [] c.rpc = "CreateTrial"   -> model.val.id = ren[obs.val.id]
            [] OTHER -> TRUE

Return == /\ More /\ Ev.ev = "return" /\ pend[Ev.th].status = "linearized"
          /\ RespOk(pend[Ev.th].call, pend[Ev.th].resp, Ev.resp)
          /\ pend' = [pend EXCEPT ![Ev.th] = Idle]
          /\ l' = l + 1 /\ UNCHANGED <<tid, st, ren>>

\* the observed final state, with observed ids mapped to model ids
RenTrials(tr) == [t \in Ids |-> tr[CHOOSE u \in Ids : ren[u] = t]]
RenOps(ops) == [w \in DOMAIN ops |-> [i \in DOMAIN ops[w] |-> [ops[w][i] EXCEPT !.trials = RenSeq(@)]]]
RenState(p) == [owner |-> p.owner, study |-> p.study,
                trial |-> [s \in DOMAIN p.trial |-> RenTrials(p.trial[s])],
                ops   |-> [s \in DOMAIN p.ops |-> RenOps(p.ops[s])],
                es    |-> [s \in DOMAIN p.es |-> RenTrials(p.es[s])]]
\* early-stopping verdicts are advisory: compare which operations exist and their status, not the answer
MaskEs(a) == [a EXCEPT !.es = [s \in DOMAIN a.es |-> [t \in DOMAIN a.es[s] |->
                 IF a.es[s][t] = Absent THEN Absent ELSE [status |-> a.es[s][t].status, stop |-> FALSE]]]]

Final == /\ More /\ Ev.ev = "final" /\ \A t \in Threads : pend[t].status = "idle"
         /\ MaskEs(RenState(Ev.post)) = MaskEs(st)
         /\ l' = l + 1 /\ UNCHANGED <<tid, st, pend, ren>>

Next == Invoke \/ Return \/ Final \/ \E t \in Threads : Linearize(t)
Spec == Init /\ [][Next]_vars
Pos == PrintT(<<"POS", tid, l>>)
=============================================================================
