--------------------------- MODULE ResourceNames ---------------------------
(* The names of the service's five resource kinds, as the grammar the service parses (vizier/_src/service/resources.py).

   Why this belongs to C04: the servicer's locks are keyed by the RAW strings of the request ("owners/o", the study name in
   `parent`), while the datastores find a resource through the PARSED components.  Mutual exclusion per resource therefore
   needs every resource to have exactly one accepted spelling - a second spelling of a study is a second lock for it.

   A name is a sequence of segments (joined by "/"; an empty segment is a doubled or trailing slash).  A kind's shape is
   a sequence of literals, free components (F: any non-empty segment) and numbers (N: a canonical non-negative numeral).
   The model walks from the well-formed names by single edits (insert / delete / replace a segment) up to MaxEdits, and
   says for every reached sequence what each kind's parser must answer: the components, or a refusal (ValueError).
   drivers/c04_names.py replays every (sequence, kind) into the real from_name and renders accepted ones back (.name). *)
EXTENDS Naturals, Sequences, FiniteSets, TLC, Json

CONSTANTS MaxEdits

Lits == {"owners", "studies", "trials", "operations", "suggestion", "earlystopping"}
Ids == {"a", "B-1"}                 \* free components (a literal word is also a legal id)
Nums == {"0", "1", "12"}             \* canonical numerals
Junk == {"", "-1", "x"}              \* empty segment, a negative number, a non-number where a number is needed
Alphabet == Lits \cup Ids \cup Nums \cup Junk

Kinds == {"owner", "study", "trial", "esop", "sop"}
Shape(k) == CASE k = "owner" -> <<"owners", "F">>
              [] k = "study" -> <<"owners", "F", "studies", "F">>
              [] k = "trial" -> <<"owners", "F", "studies", "F", "trials", "N">>
              [] k = "esop"  -> <<"owners", "F", "operations", "earlystopping", "F", "N">>
              [] k = "sop"   -> <<"owners", "F", "operations", "suggestion", "F", "F", "N">>

Fits(x, slot) == CASE slot = "F" -> x # ""
                   [] slot = "N" -> x \in Nums
                   [] OTHER -> x = slot
Accepts(k, seq) == Len(seq) = Len(Shape(k)) /\ \A i \in 1..Len(seq) : Fits(seq[i], Shape(k)[i])
Fields(k, seq) == [i \in {j \in 1..Len(seq) : Shape(k)[j] \in {"F", "N"}} |-> seq[i]]
FieldIdx(k) == SelectSeq([i \in 1..Len(Shape(k)) |-> i], LAMBDA i : Shape(k)[i] \in {"F", "N"})
FieldSeq(k, seq) == [n \in 1..Len(FieldIdx(k)) |-> seq[FieldIdx(k)[n]]]
Parse(k, seq) == IF Accepts(k, seq) THEN [ok |-> TRUE, fields |-> FieldSeq(k, seq)] ELSE [ok |-> FALSE, fields |-> <<>>]

Slot(k, i) == CASE Shape(k)[i] = "F" -> Ids [] Shape(k)[i] = "N" -> Nums [] OTHER -> {Shape(k)[i]}
RECURSIVE Build(_, _)
Build(k, n) == IF n = 0 THEN {<<>>} ELSE {Append(s, x) : s \in Build(k, n - 1), x \in Slot(k, n)}
WellFormed(k) == Build(k, Len(Shape(k)))

VARIABLES seq, edits
vars == <<seq, edits>>

Init == edits = 0 /\ \E k \in Kinds : seq \in WellFormed(k)

Insert(i, x) == seq' = SubSeq(seq, 1, i - 1) \o <<x>> \o SubSeq(seq, i, Len(seq))
Delete(i) == seq' = SubSeq(seq, 1, i - 1) \o SubSeq(seq, i + 1, Len(seq))
Replace(i, x) == seq[i] # x /\ seq' = [seq EXCEPT ![i] = x]

Next == /\ edits < MaxEdits
        /\ edits' = edits + 1
        /\ \/ \E i \in 1..Len(seq) + 1, x \in Alphabet : Len(seq) < 8 /\ Insert(i, x)
           \/ \E i \in 1..Len(seq) : Len(seq) > 1 /\ Delete(i)
           \/ \E i \in 1..Len(seq), x \in Alphabet : Replace(i, x)
Spec == Init /\ [][Next]_vars

Dump == PrintT(ToJson([seq |-> seq, parse |-> [k \in Kinds |-> Parse(k, seq)]]))

-----------------------------------------------------------------------------
\* at most one kind reads a given name (no name is both a study and something else)
KindsDisjoint == \A k1, k2 \in Kinds : (Accepts(k1, seq) /\ Accepts(k2, seq)) => k1 = k2
\* an accepted name is the rendering of its own components: one spelling per resource
Render(k, f) == [i \in 1..Len(Shape(k)) |-> IF Shape(k)[i] \in {"F", "N"} THEN f[i] ELSE Shape(k)[i]]
OneSpelling == \A k \in Kinds : Accepts(k, seq) => Render(k, Fields(k, seq)) = seq
\* an empty segment (doubled or trailing slash) is never part of an accepted name
NoEmptySegment == \A k \in Kinds : Accepts(k, seq) => \A i \in 1..Len(seq) : seq[i] # ""
\* a prefix of an accepted name that is itself accepted is the enclosing resource (study of a trial, owner of a study)
Enclosing == (Accepts("trial", seq) => Accepts("study", SubSeq(seq, 1, 4)) /\ Accepts("owner", SubSeq(seq, 1, 2)))
             /\ (Accepts("study", seq) => Accepts("owner", SubSeq(seq, 1, 2)))
=============================================================================
