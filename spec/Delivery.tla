---------------------------- MODULE Delivery ----------------------------
(***************************************************************************)
(* C12: what a hosted algorithm is given.                                  *)
(*                                                                         *)
(* The service state is Spec A's (VizierAtomic.Apply); on top of it the    *)
(* model keeps, per stored trial, whether THIS INCARNATION of the trial    *)
(* has already been handed to the algorithm (dl).  Ids are reused after    *)
(* the largest id is deleted, so "a completed trial" is an incarnation,    *)
(* not an id: dl is reset when a trial is deleted or created.              *)
(*                                                                         *)
(* Hosting modes (constant Mode):                                          *)
(*   "stateful" - the policy persists which trials it has incorporated     *)
(*                (PartiallySerializableDesignerPolicy rebuilt per request *)
(*                from study metadata; InRamDesignerPolicy kept alive):    *)
(*                every update = all ACTIVE trials + completed trials not  *)
(*                given before;                                            *)
(*   "fresh"    - DesignerPolicy: a new designer per request gets the      *)
(*                complete current set.                                    *)
(* A SuggestTrials call consults the algorithm only when the worker's own  *)
(* ACTIVE trials and the REQUESTED pool do not cover the request.          *)
(***************************************************************************)
EXTENDS VizierAtomic, Json

CONSTANTS Mode, MaxCount, MaxDepth, Acts

S == CHOOSE s \in Studies : TRUE      \* the one study of this model
NoUpd == [consulted |-> FALSE, completed |-> {}, active |-> {}, stale |-> {}]

\* ever[t]: some incarnation of id t has been delivered.  A ghost that changes no expected value; it refines the
\* VIEW so that states the implementation may distinguish (its persisted id cache) are explored separately.
\* reused[t]: the CURRENT incarnation of id t was created after an earlier incarnation of id t had been delivered
\* (trial-id reuse): used only to tell the recorded id-reuse defect apart from any other missed delivery.
VARIABLES st, dl, ever, reused, upd, hist
vars == <<st, dl, ever, reused, upd, hist>>

Start == Apply(InitSt, [rpc |-> "CreateStudy", s |-> S, cfg |-> "max1"]).st
Init == st = Start /\ dl = [t \in Ids |-> FALSE] /\ ever = [t \in Ids |-> FALSE] /\ reused = [t \in Ids |-> FALSE] /\ upd = NoUpd /\ hist = <<>>

CompletedIds(a) == {t \in IdsOf(a, S) : Completed(a.trial[S][t])}
ActiveIds(a) == {t \in IdsOf(a, S) : a.trial[S][t].state = "ACTIVE"}

\* dl after a call: a trial that disappeared or appeared starts undelivered
Reuse(a, b) == [t \in Ids |-> IF a.trial[S][t] = Absent /\ b.trial[S][t] # Absent THEN ever[t] ELSE reused[t]]
Carry(a, b, d) == [t \in Ids |-> IF a.trial[S][t] # Absent /\ b.trial[S][t] # Absent THEN d[t] ELSE FALSE]

Plain(c) == LET r == Apply(st, c) IN
            /\ st' = r.st /\ dl' = Carry(st, r.st, dl) /\ ever' = ever /\ reused' = Reuse(st, r.st) /\ upd' = NoUpd /\ hist' = Append(hist, c)

Suggest(w, n) ==
  LET own  == {t \in IdsOf(st, S) : st.trial[S][t].state = "ACTIVE" /\ st.trial[S][t].client = w}
      pool == {t \in IdsOf(st, S) : st.trial[S][t].state = "REQUESTED"}
      need == n - Cardinality(own) - Cardinality(pool)
      consulted == StudyGuard(st, S) = None /\ need > 0
      k == IF need > 0 THEN need ELSE 0
      env == [raise |-> FALSE, ps |-> [i \in 1..k |-> "p1"], md |-> NoMeta]   \* the recording designer delivers exactly what is asked
      c == [rpc |-> "SuggestTrials", s |-> S, w |-> w, n |-> n, env |-> env]
      r == Apply(st, c)
      \* what the algorithm sees: the pool has already been assigned when it is consulted
      mid == [st EXCEPT !.trial[S] = [t \in Ids |-> IF t \in pool THEN [st.trial[S][t] EXCEPT !.state = "ACTIVE", !.client = w]
                                                     ELSE st.trial[S][t]]]
      comp == IF Mode = "fresh" THEN CompletedIds(mid) ELSE {t \in CompletedIds(mid) : ~dl[t]}
  IN /\ MaxTrialId(st, S) + k <= MaxId
     \* which queued trials are taken when the pool is larger than needed is left to the implementation (VizierAtomic,
     \* Choices); what is delivered does not depend on it, so the model only takes steps where nothing is left to choose
     /\ (Cardinality(own) >= n \/ Cardinality(pool) <= n - Cardinality(own))
     /\ st' = r.st
     \* stale: ids to be delivered now whose PREVIOUS incarnation was delivered (ghost, for diagnosing id-reuse defects only)
     /\ upd' = IF consulted THEN [consulted |-> TRUE, completed |-> comp, active |-> ActiveIds(mid), stale |-> {t \in comp : reused[t]}] ELSE NoUpd
     /\ dl' = LET d2 == IF consulted THEN [t \in Ids |-> dl[t] \/ t \in comp] ELSE dl IN Carry(st, r.st, d2)
     /\ ever' = IF consulted THEN [t \in Ids |-> ever[t] \/ t \in comp] ELSE ever
     /\ reused' = Reuse(st, r.st)
     /\ hist' = Append(hist, c)

En(a) == a \in Acts /\ Len(hist) < MaxDepth
ASuggest == En("suggest") /\ \E w \in Clients, n \in 1..MaxCount : Suggest(w, n)
\* an infeasible trial may be completed without any measurement and without a reason: it is completed all the same
AComplete == En("complete") /\ \E t \in Ids, inf \in BOOLEAN, f \in {"m1", None} :
               /\ (f = None => inf)
               /\ Plain([rpc |-> "CompleteTrial", s |-> S, t |-> t, f |-> f, inf |-> inf, reason |-> ""])
AAdd == En("add") /\ MaxTrialId(st, S) < MaxId /\ Plain([rpc |-> "CreateTrial", s |-> S, p |-> "p1", c |-> "m1"])
ARequest == En("request") /\ MaxTrialId(st, S) < MaxId /\ Plain([rpc |-> "CreateTrial", s |-> S, p |-> "p1", c |-> None])
ADelete == En("delete") /\ \E t \in Ids : Plain([rpc |-> "DeleteTrial", s |-> S, t |-> t])
AStop == En("stop") /\ \E t \in Ids : Plain([rpc |-> "StopTrial", s |-> S, t |-> t])
\* a server restart: nothing changes in the model (the driver builds a new servicer on the same database)
ARestart == En("restart") /\ st' = st /\ dl' = dl /\ ever' = ever /\ reused' = reused /\ upd' = NoUpd /\ hist' = Append(hist, [rpc |-> "Restart"])

\* the designer's persisted state becomes undecodable (e.g. a new release changed its format): the policy must start
\* over with a fresh designer AND an empty cache, so everything completed is delivered again (third clause of C12)
ABump == En("bump") /\ st' = st /\ dl' = [t \in Ids |-> FALSE] /\ ever' = ever /\ reused' = reused /\ upd' = NoUpd /\ hist' = Append(hist, [rpc |-> "Bump"])

Next == ABump \/ ASuggest \/ AComplete \/ AAdd \/ ARequest \/ ADelete \/ AStop \/ ARestart
Spec == Init /\ [][Next]_vars

\* operations (which only grow) and metadata are irrelevant to delivery: keep them out of the fingerprint
View == <<st.trial[S], dl, ever, reused>>
Dump == PrintT(ToJson([hist |-> hist, stale |-> SeqOf(upd.stale),
                       upd |-> [consulted |-> upd.consulted, completed |-> SeqOf(upd.completed), active |-> SeqOf(upd.active)],
                       trial |-> st.trial[S]]))

\* ---- C12 on the model
\* every update carries exactly the ACTIVE trials and, in stateful mode, only undelivered completed incarnations
UpdateShape == upd.consulted =>
   /\ \A t \in upd.completed : st.trial[S][t] # Absent => Completed(st.trial[S][t])
   /\ \A t \in upd.active : st.trial[S][t] # Absent => st.trial[S][t].state \in {"ACTIVE", "STOPPING", "SUCCEEDED", "INFEASIBLE"}
\* exactly once: a completed incarnation is delivered at the first consultation after it completed and never again
ExactlyOnce == [][upd'.consulted =>
                    \A t \in Ids : /\ (t \in upd'.completed /\ Mode = "stateful") => ~dl[t]
                                   /\ (st.trial[S][t] # Absent /\ Completed(st.trial[S][t]) /\ ~dl[t]) => t \in upd'.completed]_vars
NothingMissedForever == [][upd'.consulted => \A t \in Ids :
                             (st'.trial[S][t] # Absent /\ Completed(st'.trial[S][t]) /\ st.trial[S][t] # Absent /\ Completed(st.trial[S][t]))
                                => dl'[t]]_vars
=============================================================================
