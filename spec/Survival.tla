------------------------------ MODULE Survival ------------------------------
(* The survival step of the evolutionary designer (NSGA2Survival.select, vizier/_src/algorithms/evolution/nsga2.py), the
   one place where C11's dominance relation decides what an algorithm REMEMBERS rather than what a client is shown.

   A population is a sequence of genes [y : objective vector (maximised), v : number of violated safety constraints,
   age].  select(target):
     0. genes that have reached the eviction limit are dropped;
     1. (only when there are safety metrics) genes are taken in ascending order of v, class by class, while a whole class
        still fits; the first class that does not fit is the border, later classes are dropped;
     2. inside the border the same is done with the dominated-count (by how many genes OF THE BORDER a gene is dominated);
     3. the remaining places are filled from the second border by crowding distance - which the model leaves open: any
        subset of the right size is allowed (the distances are float32 ratios with argsort tie-breaks);
     4. survivors age by one; nothing else about a gene changes, no gene survives twice.
   TLC evaluates the definition for every population of the small universe and prints (alive, must, border, need); the
   driver (drivers/c11_survival.py) gives the same population to the real select() and checks
   result = must + (need genes of border), ages + 1, rows untouched. *)
EXTENDS Naturals, Sequences, FiniteSets, TLC, Json

CONSTANTS G,          \* objective values 0..G, two objectives
          NMax,       \* population size 1..NMax
          Targets,    \* target sizes
          Viols,      \* violation counts in use ({0} = no safety metric)
          Ages,       \* ages in use
          Limits,     \* eviction limits (99 = none)
          NSafe, NUnsafe   \* 0, 0: every population up to NMax; otherwise exactly NSafe genes without and NUnsafe genes with a
                           \* violated constraint (age 0): the layouts in which a cut falls INSIDE a violation class below others

Points == (0..G) \X (0..G)
Genes == [y : Points, v : Viols, age : Ages]
Dominates(p, q) == p[1] >= q[1] /\ p[2] >= q[2] /\ (p[1] > q[1] \/ p[2] > q[2])

\* classes of an integer key taken while they fit: <<top, border>> over the index set S
Cut(S, key(_), room) ==
  IF Cardinality(S) <= room THEN <<S, {}>>
  ELSE LET Fits(k) == Cardinality({i \in S : key(i) <= k}) <= room
           ks == {key(i) : i \in S}
           cutoff == CHOOSE k \in ks : ~Fits(k) /\ \A k2 \in ks : k2 < k => Fits(k2)
       IN <<{i \in S : key(i) < cutoff}, {i \in S : key(i) = cutoff}>>

Outcome(pop, target, limit) ==
  LET alive == {i \in DOMAIN pop : pop[i].age < limit}
      V(i) == pop[i].v
      s1 == IF Viols = {0} THEN <<{}, alive>> ELSE Cut(alive, V, target)
      b1 == s1[2]
      Count(i) == Cardinality({j \in b1 : Dominates(pop[j].y, pop[i].y)})
      s2 == Cut(b1, Count, target - Cardinality(s1[1]))
      must == s1[1] \cup s2[1]
  IN [alive |-> alive, must |-> must, border |-> s2[2],
      need |-> IF Cardinality(alive) <= target THEN 0 ELSE target - Cardinality(must)]

VARIABLES pop, target, limit
vars == <<pop, target, limit>>
Init == /\ IF NSafe + NUnsafe = 0 THEN \E n \in 1..NMax : pop \in [1..n -> Genes]
           ELSE \E ys \in [1..NSafe + NUnsafe -> Points] :
                  pop = [i \in 1..NSafe + NUnsafe |-> [y |-> ys[i], v |-> IF i <= NSafe THEN 0 ELSE 1, age |-> 0]]
        /\ target \in Targets /\ limit \in Limits
Next == UNCHANGED vars
Spec == Init /\ [][Next]_vars

O == Outcome(pop, target, limit)
Dump == PrintT(ToJson([pop |-> pop, target |-> target, limit |-> limit, alive |-> O.alive, must |-> O.must, border |-> O.border, need |-> O.need]))

-----------------------------------------------------------------------------
SizeIsExact == Cardinality(O.must) + O.need = (IF Cardinality(O.alive) <= target THEN Cardinality(O.alive) ELSE target)
              /\ O.need <= Cardinality(O.border) /\ O.must \cap O.border = {}
\* survival respects the order (violations, dominated-count): a gene that is certainly kept is never worse than one that
\* is certainly dropped
Dropped == O.alive \ (O.must \cup O.border)
RespectsOrder == \A a \in O.must \cup O.border, b \in Dropped : pop[a].v <= pop[b].v
\* C11's relation where it matters: among genes with equally many violated constraints, a gene nobody dominates is never
\* dropped while a dominated one of that class is certainly kept
NonDominatedFirst ==
  \A b \in Dropped : \A a \in O.must :
     (pop[a].v = pop[b].v /\ ~\E j \in O.alive : pop[j].v = pop[b].v /\ Dominates(pop[j].y, pop[b].y))
        => ~\E j \in O.alive : pop[j].v = pop[a].v /\ Dominates(pop[j].y, pop[a].y)
NothingToDoIsNoOp == Cardinality(O.alive) <= target => (O.must = O.alive /\ O.need = 0)
=============================================================================
