---------------------------- MODULE VizierService ----------------------------
(***************************************************************************)
(* Spec A: the sequential reference model as a state machine over          *)
(* VizierAtomic.Apply.  One action per RPC kind; the environment (what the *)
(* algorithm delivers / whether it raises / its early-stopping verdict)    *)
(* is chosen nondeterministically inside the call record.                  *)
(*                                                                         *)
(* hist is a history variable hidden from the fingerprint by VIEW, so TLC  *)
(* keeps one history per distinct abstract state; the CONSTRAINT Dump      *)
(* prints every generated successor (before de-duplication), i.e. every    *)
(* transition of the reachable graph, as a call sequence the replay driver *)
(* executes on the real servicer.                                          *)
(***************************************************************************)
EXTENDS VizierAtomic, Json

CONSTANTS Kinds,      \* set of RPC kinds enabled in Next (biases a config to a property)
          Params,     \* opaque parameter tokens (strings)
          Meas,       \* measurement tokens usable in calls
          Vals,       \* metadata values (strings)
          MaxCount,   \* largest suggestion_count
          MaxDeliver, \* longest algorithm delivery
          MaxDepth,   \* history bound for the exhaustive configs
          Cfgs,       \* metric configurations used by CreateStudy
          AlgoMeta,   \* BOOLEAN: the algorithm may write study metadata during SuggestTrials
          EsAlso      \* BOOLEAN: the early-stopping algorithm may decide about other trials / not about the requested one

VARIABLES st, resp, hist
vars == <<st, resp, hist>>

Init == st = InitSt /\ resp = [err |-> None, val |-> None] /\ hist = <<>>

Do(call) == LET r == Apply(st, call) IN st' = r.st /\ resp' = r.resp /\ hist' = Append(hist, call)

RECURSIVE SeqsUpTo(_, _)
SeqsUpTo(S, n) == IF n = 0 THEN {<<>>} ELSE SeqsUpTo(S, n - 1) \cup {Append(q, x) : q \in SeqsUpTo(S, n - 1), x \in S}

OneCell(c, v) == [x \in Cells |-> IF x = c THEN v ELSE None]
\* "inc": a stateful algorithm writes the successor of the value the service handed to it (VizierAtomic.EffMd)
AlgoMds == IF AlgoMeta THEN {NoMeta} \cup {OneCell(c, v) : c \in Cells, v \in Vals \cup {"inc"}} ELSE {NoMeta}
SuggestEnvs == [raise : {FALSE}, ps : SeqsUpTo(Params, MaxDeliver), md : AlgoMds]
          \cup [raise : {TRUE}, ps : {<<>>}, md : {NoMeta}]
StopEnvs == [raise : {FALSE}, stop : BOOLEAN] \cup [raise : {TRUE}, stop : {FALSE}]
       \cup (IF EsAlso THEN [raise : {FALSE}, stop : BOOLEAN, self : BOOLEAN, also : {SeqOf(S) : S \in SUBSET Ids}] ELSE {})
FinalOpts == Meas \cup {None}
Reasons == {"", "r1"}
Deltas == {[study |-> OneCell(c, v), t |-> 0, t2 |-> 0, trial |-> NoMeta] : c \in Cells, v \in Vals}
     \cup {[study |-> NoMeta, t |-> t, t2 |-> 0, trial |-> OneCell(c, v)] : c \in Cells, v \in Vals, t \in Ids}
     \cup {[study |-> OneCell(c, v), t |-> t, t2 |-> t2, trial |-> OneCell(c2, v)] :
              c \in Cells, c2 \in Cells, v \in Vals, t \in Ids, t2 \in {0, -1} \cup Ids}

On(k) == k \in Kinds

\* The history bound is an enabling condition (not a CONSTRAINT) so that every generated
\* successor is within the bound and gets printed by Dump.  One named action per RPC kind so
\* that TLC's -coverage reports each separately (vacuity gate).
En(k) == On(k) /\ Len(hist) < MaxDepth
ACreateStudy == En("CreateStudy") /\ \E s \in Studies, cfg \in Cfgs : Do([rpc |-> "CreateStudy", s |-> s, cfg |-> cfg])
AGetStudy == En("GetStudy") /\ \E s \in Studies : Do([rpc |-> "GetStudy", s |-> s])
AListStudies == En("ListStudies") /\ Do([rpc |-> "ListStudies"])
ADeleteStudy == En("DeleteStudy") /\ \E s \in Studies : Do([rpc |-> "DeleteStudy", s |-> s])
ASetStudyState == En("SetStudyState") /\ \E s \in Studies, x \in {"ACTIVE", "INACTIVE", "COMPLETED"} :
        Do([rpc |-> "SetStudyState", s |-> s, x |-> x])
ACreateTrial == En("CreateTrial") /\ \E s \in Studies, p \in Params, c \in FinalOpts :
        /\ MaxTrialId(st, s) < MaxId
        /\ Do([rpc |-> "CreateTrial", s |-> s, p |-> p, c |-> c])
AGetTrial == En("GetTrial") /\ \E s \in Studies, t \in Ids : Do([rpc |-> "GetTrial", s |-> s, t |-> t])
AListTrials == En("ListTrials") /\ \E s \in Studies : Do([rpc |-> "ListTrials", s |-> s])
AAddMeasurement == En("AddMeasurement") /\ \E s \in Studies, t \in Ids, m \in Meas :
        Do([rpc |-> "AddMeasurement", s |-> s, t |-> t, m |-> m])
ACompleteTrial == En("CompleteTrial") /\ \E s \in Studies, t \in Ids, f \in FinalOpts, inf \in BOOLEAN, r \in Reasons :
        /\ (~inf => r = "")
        /\ Do([rpc |-> "CompleteTrial", s |-> s, t |-> t, f |-> f, inf |-> inf, reason |-> r])
AStopTrial == En("StopTrial") /\ \E s \in Studies, t \in Ids : Do([rpc |-> "StopTrial", s |-> s, t |-> t])
ADeleteTrial == En("DeleteTrial") /\ \E s \in Studies, t \in Ids : Do([rpc |-> "DeleteTrial", s |-> s, t |-> t])
ASuggestTrials == En("SuggestTrials") /\ \E s \in Studies, w \in Clients, n \in 1..MaxCount, env \in SuggestEnvs :
        /\ SuggestWithinBound(st, s, env)
        /\ Do([rpc |-> "SuggestTrials", s |-> s, w |-> w, n |-> n, env |-> env])
AGetOperation == En("GetOperation") /\ \E s \in Studies, w \in Clients, i \in 1..2 :
        Do([rpc |-> "GetOperation", s |-> s, w |-> w, i |-> i])
ACheckEarlyStopping == En("CheckEarlyStopping") /\ \E s \in Studies, t \in Ids, env \in StopEnvs :
        /\ t \notin EsAlsoIds(env)
        /\ Do([rpc |-> "CheckEarlyStopping", s |-> s, t |-> t, env |-> env])
\* which error wins when a malformed id comes together with a missing trial is left open: t2 = -1 only with t present
AUpdateMetadata == En("UpdateMetadata") /\ \E s \in Studies, d \in Deltas :
        /\ (d.t2 = -1 => StudyPresent(st, s) /\ Present(st, s, d.t))
        /\ Do([rpc |-> "UpdateMetadata", s |-> s, d |-> d])
AListOptimalTrials == En("ListOptimalTrials") /\ \E s \in Studies : Do([rpc |-> "ListOptimalTrials", s |-> s])

Next == \/ ACreateStudy \/ AGetStudy \/ AListStudies \/ ADeleteStudy \/ ASetStudyState \/ ACreateTrial \/ AGetTrial
        \/ AListTrials \/ AAddMeasurement \/ ACompleteTrial \/ AStopTrial \/ ADeleteTrial \/ ASuggestTrials
        \/ AGetOperation \/ ACheckEarlyStopping \/ AUpdateMetadata \/ AListOptimalTrials

Spec == Init /\ [][Next]_vars

Dump == PrintT(ToJson([hist |-> hist, st |-> st, resp |-> resp]))
View == st

\* ------------------------------------------------------------ properties
Last == hist'[Len(hist')]
C01_Transitions     == [][StepTransitions(st, st', Last)]_vars
C01_ParamsFrozen    == [][StepParamsFrozen(st, st', Last)]_vars
C01_CompletedFrozen == [][StepCompletedFrozen(st, st', Last)]_vars
C01_ErrorsPure      == [][StepErrorsPure(st, st', Last, resp')]_vars
C01_ImmutableStudy  == [][StepImmutableStudy(st, st', Last)]_vars
C01_OnlyNamedTrial  == [][StepOnlyNamedTrial(st, st', Last)]_vars

C02_OneOwner        == [][StepOneOwner(st, st', Last)]_vars
C02_FreshIds        == [][StepFreshIds(st, st', Last)]_vars
C02_Suggest         == [][StepSuggest(st, st', Last, resp')]_vars
C02_ActiveHasOwner  == ActiveHasOwner(st)
C02_RequestedUnowned == RequestedUnowned(st)

C06_NoUnfinishedOp  == NoUnfinishedOp(st)
C06_NoActiveEs      == NoActiveEs(st)
C06_Reported        == [][StepReported(st, st', Last, resp')]_vars
\* after a failed suggest the same client's next suggest is a NEW operation (it reaches the algorithm again)
C06_Reaches == [][(Last.rpc = "SuggestTrials" /\ resp'.err = None) =>
                    resp'.val.num = Len(st.ops[Last.s][Last.w]) + 1]_vars

C10_Isolation       == [][StepMetaIsolation(st, st', Last)]_vars
C10_LWW             == [][StepMetaLWW(st, st', Last, resp')]_vars

C11_Optimal         == [][StepOptimal(st, st', Last, resp')]_vars
=============================================================================
