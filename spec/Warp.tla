---------------------------- MODULE Warp ----------------------------
(***************************************************************************)
(* C18: output warping.  A label array is abstracted to its WEAK ORDER     *)
(* WITH MISSING ENTRIES: a function 1..n -> 0..n where 0 marks a missing   *)
(* (infeasible / NaN) entry and 1..k are the dense ranks of the observed   *)
(* values.  TLC enumerates all of them for n <= MaxN (mode "enumerate");   *)
(* the driver turns each into concrete floats from a palette, runs the     *)
(* real warpers, and TLC judges the observed outputs on exact order keys   *)
(* (mode "judge"): same shape, all finite, input untouched, infeasible not *)
(* above the worst feasible, weak order preserved (default pipeline), no   *)
(* reversal (every component), unwarp(warp(x)) back within tolerance.      *)
(***************************************************************************)
EXTENDS Num, FiniteSets, TLC, Json, IOUtils
CONSTANTS Mode, MaxN

\* dense: the used ranks are exactly 1..k; at least one observed entry
Dense(f, n) == LET used == {f[i] : i \in 1..n} \ {0} IN used # {} /\ used = 1..Cardinality(used)
Orders(n) == {f \in [1..n -> 0..n] : Dense(f, n)}

VARIABLES w
Init == IF Mode = "enumerate" THEN \E n \in 1..MaxN : w \in Orders(n) ELSE w = <<>>
Spec == Init /\ [][UNCHANGED w]_w
Dump == Mode # "enumerate" \/ PrintT(ToJson([ranks |-> w]))

Obs == IF Mode = "judge" THEN JsonDeserialize(IOEnv.TRACE_FILE) ELSE <<>>
\* one observation: [ranks, inp: keys, out: keys, untouched, shape_ok, finite: seq of BOOLEAN, back_ok, pipeline, strict]
Feasible(o) == {i \in DOMAIN o.ranks : o.ranks[i] # 0}
Missing(o) == {i \in DOMAIN o.ranks : o.ranks[i] = 0}
SameWeakOrder(o) == \A i, j \in Feasible(o) :
   /\ (FLt(o.inp[i], o.inp[j]) => FLt(o.out[i], o.out[j]))
   /\ (FEq(o.inp[i], o.inp[j]) => FEq(o.out[i], o.out[j]))
\* components may legitimately turn entries into NaN (DetectOutliers marks outliers for the infeasible-label handling):
\* order clauses are judged on the entries that stay finite
Finite(o) == {i \in Feasible(o) : o.finite[i]}
NoReversal(o) == \A i, j \in Finite(o) : FLt(o.inp[i], o.inp[j]) => FLeq(o.out[i], o.out[j])
InfeasibleLow(o) == \A i \in Missing(o), j \in Feasible(o) : FLeq(o.out[i], o.out[j])
Verdict(o) ==
  IF o.refused THEN "refused"
  ELSE IF ~o.shape_ok THEN "shape"
  ELSE IF o.is_pipeline /\ \E i \in DOMAIN o.finite : ~o.finite[i] THEN "not_finite"
  ELSE IF ~o.untouched THEN "input_modified"
  ELSE IF o.maps_infeasible /\ ~InfeasibleLow(o) THEN "infeasible_above_worst_feasible"
  ELSE IF ~NoReversal(o) THEN "order_reversed"
  ELSE IF o.strict /\ ~SameWeakOrder(o) THEN "ranking_not_preserved"
  ELSE IF ~o.back_ok THEN "unwarp_mismatch"
  ELSE "ok"
JudgeAll == \A i \in DOMAIN Obs : PrintT(<<"WPV", i, Verdict(Obs[i])>>)
JInit == w = <<>> /\ JudgeAll
JSpec == JInit /\ [][FALSE]_w
=============================================================================
