---------------------------- MODULE SearchSpace ----------------------------
(***************************************************************************)
(* Search spaces (C16, C17; InDomain is also the judge of C03/C15).        *)
(*                                                                         *)
(* Numbers are integers in HALF units (h = 2 * value) so that 0.5 and 2.5  *)
(* are representable; a typed Python value is the homogeneous record       *)
(*   [py \in {"int","float","str","bool"}, h, sp \in {"fin","inf","ninf",  *)
(*    "nan"}, s]                                                           *)
(* because the properties are precisely about int/float/str/bool           *)
(* confusions.  Four enumerations, selected by Mode:                       *)
(*   "definitions" - every argument combination of ParameterConfig.factory *)
(*                   over the small universes: valid? and, if valid, the   *)
(*                   normalised config (type, bounds, sorted feasible      *)
(*                   values, converted default);                           *)
(*   "membership"  - every flat space of <= 2 catalog parameters x every   *)
(*                   assignment over the typed value universe: contained?; *)
(*   "traversal"   - every conditional tree of the catalog x dfs/bfs x     *)
(*                   every choose/skip sequence: the parameters yielded;   *)
(*   "present"     - every conditional tree x every stored trial:          *)
(*                   the values a client reads, in the declared types.     *)
(***************************************************************************)
EXTENDS Integers, Sequences, FiniteSets, TLC, Json

CONSTANTS Mode

\* ------------------------------------------------------------ typed values
IntV(n) == [py |-> "int", h |-> 2 * n, sp |-> "fin", s |-> ""]
Flt(h) == [py |-> "float", h |-> h, sp |-> "fin", s |-> ""]        \* Flt(5) = 2.5
Spc(x) == [py |-> "float", h |-> 0, sp |-> x, s |-> ""]
Str(x) == [py |-> "str", h |-> 0, sp |-> "fin", s |-> x]
Boo(b) == [py |-> "bool", h |-> IF b THEN 2 ELSE 0, sp |-> "fin", s |-> IF b THEN "True" ELSE "False"]
NoVal == [py |-> "none", h |-> 0, sp |-> "fin", s |-> ""]

IsNum(v) == v.py \in {"int", "float"}
Finite(v) == v.sp = "fin"
Integral(v) == v.h % 2 = 0
\* Python == on two values of these universes
PyEq(u, v) == \/ (IsNum(u) /\ IsNum(v) /\ u.sp = v.sp /\ u.sp # "nan" /\ u.h = v.h)
              \/ (u.py = "str" /\ v.py = "str" /\ u.s = v.s)
\* numeric <= on finite values
Leq(u, v) == u.h <= v.h

\* ========================================================== definitions ==
BoundVals == {IntV(-1), IntV(0), IntV(2), Flt(0), Flt(5), Spc("inf"), Spc("nan")}
FeasVals == {IntV(0), IntV(1), Flt(1), Flt(2), Str("a"), Str("b"), Spc("inf")}
DefaultVals == {NoVal, IntV(1), Flt(2), Flt(1), Flt(5), Str("a"), IntV(7)}
RECURSIVE SeqsUpTo(_, _)
SeqsUpTo(S, n) == IF n = 0 THEN {<<>>} ELSE SeqsUpTo(S, n - 1) \cup {Append(q, x) : q \in SeqsUpTo(S, n - 1), x \in S}

DefArgs ==
  [name : {"", "x"}, hasBounds : {TRUE}, lo : BoundVals, hi : BoundVals, fv : {<<>>}, dflt : DefaultVals]
  \cup [name : {"", "x"}, hasBounds : {FALSE}, lo : {NoVal}, hi : {NoVal}, fv : SeqsUpTo(FeasVals, 3) \ {<<>>}, dflt : {NoVal, IntV(1), Flt(1), Str("a")}]
  \cup [name : {"x"}, hasBounds : {TRUE}, lo : {IntV(0)}, hi : {IntV(2)}, fv : {<<IntV(1)>>, <<Str("a")>>}, dflt : {NoVal}]   \* both given

NoDup(fv) == \A i, j \in DOMAIN fv : i < j => ~PyEq(fv[i], fv[j])
AllNum(fv) == \A i \in DOMAIN fv : IsNum(fv[i])
AllStr(fv) == \A i \in DOMAIN fv : fv[i].py = "str"
AllFinite(fv) == \A i \in DOMAIN fv : Finite(fv[i])

InferredType(a) ==
  IF Len(a.fv) > 0 THEN (IF AllNum(a.fv) THEN "DISCRETE" ELSE "CATEGORICAL")
  ELSE IF a.lo.py = "int" THEN "INTEGER" ELSE "DOUBLE"

DefaultOk(t, d) ==
  \/ d = NoVal
  \/ (t \in {"DOUBLE", "DISCRETE"} /\ IsNum(d))
  \/ (t = "INTEGER" /\ IsNum(d) /\ (d.py = "int" \/ Integral(d)))
  \/ (t = "CATEGORICAL" /\ d.py = "str")

ValidDefinition(a) ==
  /\ a.name # ""
  /\ ~(a.hasBounds /\ Len(a.fv) > 0)
  /\ IF Len(a.fv) > 0
       THEN /\ NoDup(a.fv)
            /\ (AllNum(a.fv) \/ AllStr(a.fv))
            /\ (AllNum(a.fv) => AllFinite(a.fv))
       ELSE /\ a.lo.py = a.hi.py
            /\ Finite(a.lo) /\ Finite(a.hi)
            /\ Leq(a.lo, a.hi)
  /\ DefaultOk(InferredType(a), a.dflt)

\* sorted, as the normalised config stores them: numbers by value, strings lexicographically ("a" < "b")
RECURSIVE SortH(_)
SortH(S) == IF S = {} THEN <<>> ELSE LET m == CHOOSE x \in S : \A y \in S : x <= y IN <<m>> \o SortH(S \ {m})
StrRank(x) == CASE x = "False" -> 0 [] x = "True" -> 1 [] x = "a" -> 2 [] x = "b" -> 3 [] x = "c" -> 4 [] OTHER -> 9
RECURSIVE SortS(_)
SortS(S) == IF S = {} THEN <<>> ELSE LET m == CHOOSE x \in S : \A y \in S : StrRank(x) <= StrRank(y) IN <<m>> \o SortS(S \ {m})

Normalised(a) ==
  LET t == InferredType(a) IN
  [type |-> t,
   lo |-> IF t = "CATEGORICAL" THEN 0 ELSE IF Len(a.fv) > 0 THEN SortH({a.fv[i].h : i \in DOMAIN a.fv})[1] ELSE a.lo.h,
   hi |-> IF t = "CATEGORICAL" THEN 0 ELSE IF Len(a.fv) > 0 THEN SortH({a.fv[i].h : i \in DOMAIN a.fv})[Len(a.fv)] ELSE a.hi.h,
   boundsPy |-> IF t = "INTEGER" THEN "int" ELSE IF t = "DOUBLE" THEN "float" ELSE "any",
   feasH |-> IF t = "DISCRETE" THEN SortH({a.fv[i].h : i \in DOMAIN a.fv}) ELSE <<>>,
   feasS |-> IF t = "CATEGORICAL" THEN SortS({a.fv[i].s : i \in DOMAIN a.fv}) ELSE <<>>,
   dflt |-> IF a.dflt = NoVal THEN NoVal
            ELSE IF t \in {"DOUBLE", "DISCRETE"} THEN Flt(a.dflt.h)
            ELSE IF t = "INTEGER" THEN [py |-> "int", h |-> a.dflt.h, sp |-> "fin", s |-> ""]
            ELSE a.dflt]

\* ============================================================ the catalog ==
\* Parameter kinds with fixed domains.  ext = declared external type.
Kinds == {"D", "I", "S", "Si", "Sn", "C", "B"}
KType(k) == CASE k \in {"D", "Dp"} -> "DOUBLE" [] k \in {"I", "Ip"} -> "INTEGER" [] k \in {"S", "Si", "Sn"} -> "DISCRETE" [] OTHER -> "CATEGORICAL"
KLo(k) == CASE k = "D" -> 0 [] k = "I" -> -2 [] OTHER -> 0      \* half units: D = [0.0, 2.5], I = [-1, 2]
KHi(k) == CASE k = "D" -> 5 [] k = "I" -> 4 [] OTHER -> 0
KFeasH(k) == CASE k = "S" -> {1, 2, 4} [] k = "Si" -> {2, 4, 6} [] k = "Sn" -> {-6, -2, 4} [] OTHER -> {}
                                   \* S = {0.5, 1, 2}; Si = {1, 2, 3}; Sn = {-3, -1, 2}: integer-valued with negative points
KFeasS(k) == CASE k = "C" -> {"a", "b"} [] k = "B" -> {"False", "True"} [] OTHER -> {}
KExt(k) == CASE k = "B" -> "BOOLEAN" [] k \in {"Si", "Sn"} -> "INTEGER" [] k = "S" -> "FLOAT" [] OTHER -> "INTERNAL"

\* membership of one typed value in one catalog parameter.  "U" = unspecified by the documentation
\* (Python bool offered to a numeric or categorical parameter: a TODO in the source).
InDomain(k, v) ==
  IF v.py = "bool" THEN "U"
  ELSE IF KType(k) = "DOUBLE" THEN (IF IsNum(v) /\ Finite(v) /\ KLo(k) <= v.h /\ v.h <= KHi(k) THEN "T" ELSE "F")
  ELSE IF KType(k) = "INTEGER" THEN (IF IsNum(v) /\ Finite(v) /\ Integral(v) /\ KLo(k) <= v.h /\ v.h <= KHi(k) THEN "T" ELSE "F")
  ELSE IF KType(k) = "DISCRETE" THEN (IF IsNum(v) /\ Finite(v) /\ v.h \in KFeasH(k) THEN "T" ELSE "F")
  ELSE (IF v.py = "str" /\ v.s \in KFeasS(k) THEN "T" ELSE "F")

\* =========================================================== membership ==
MemberVals == {IntV(2), Flt(4), Flt(5), Flt(1), IntV(-1), IntV(3), IntV(7), Str("a"), Str("True"), Str("z"), Boo(TRUE), Spc("inf"), Spc("nan")}
Names == {"x", "y"}
\* a flat space: function from a non-empty subset of Names to Kinds; an assignment: function from a subset of
\* {"x","y","zz"} to MemberVals
FlatSpaces == UNION {[N -> Kinds] : N \in (SUBSET Names) \ {{}}}
AsgNames == {"x", "y", "zz"}
Assignments(sp) == UNION {[N -> MemberVals] : N \in {DOMAIN sp, DOMAIN sp \cup {"zz"}} \cup {DOMAIN sp \ {n} : n \in DOMAIN sp}}
Contains(sp, asg) ==
  IF DOMAIN asg # DOMAIN sp THEN "F"
  ELSE IF \E n \in DOMAIN sp : InDomain(sp[n], asg[n]) = "F" THEN "F"
  ELSE IF \E n \in DOMAIN sp : InDomain(sp[n], asg[n]) = "U" THEN "U"
  ELSE "T"

\* ====================================================== conditional trees ==
\* A tree is a sequence of nodes [name, kind, parent (0 = root), pv (set of parent values as strings)].
\* Parent values are written as strings: categorical value itself, or the half-unit integer as a string for numbers.
HStr(h) == CASE h = -6 -> "-6" [] h = -2 -> "-2" [] h = 0 -> "0" [] h = 1 -> "1" [] h = 2 -> "2" [] h = 4 -> "4" [] h = 6 -> "6" [] OTHER -> "?"
KValues(k) == IF KType(k) = "CATEGORICAL" THEN KFeasS(k)
              ELSE IF KType(k) = "DISCRETE" THEN {HStr(h) : h \in KFeasH(k)}
              ELSE IF KType(k) = "INTEGER" THEN {HStr(h) : h \in {-2, 0, 2, 4}}
              ELSE {"0", "2", "4"}      \* DOUBLE: only used as chosen values, never as parent values

N(name, kind, parent, pv) == [name |-> name, kind |-> kind, parent |-> parent, pv |-> pv]
Trees == {
  <<N("m", "C", 0, {}), N("lr", "D", 1, {"a"}), N("k", "I", 1, {"b"})>>,                               \* one level, two branches
  <<N("m", "C", 0, {}), N("o", "C", 1, {"a", "b"}), N("beta", "D", 2, {"a"}), N("z", "B", 0, {})>>,    \* grandchild, multi-valued parent set
  <<N("n", "Si", 0, {}), N("u", "S", 1, {"2", "4"}), N("w", "B", 2, {"1"}), N("q", "C", 1, {"6"})>>,   \* numeric parents, depth 3
  <<N("b", "B", 0, {}), N("c", "C", 1, {"True"}), N("d", "I", 2, {"b"}), N("e", "D", 0, {})>>,         \* boolean parent
  <<N("x0", "D", 0, {}), N("x1", "D", 0, {}), N("x2", "D", 0, {}), N("y", "C", 0, {})>>,              \* flat, indexed names x[0..2]
  <<N("i", "I", 0, {}), N("ci", "D", 1, {"0", "2"}), N("z2", "C", 0, {})>>,                            \* INTEGER parent, two parent values
  <<N("g", "Sn", 0, {}), N("gc", "B", 1, {"-6", "4"}), N("g2", "Sn", 0, {})>>                          \* integer-valued discrete with negative points
}
\* chosen: function node index -> value string or "" (no value)
Active(t, chosen, i) ==
  LET RECURSIVE Act(_)
      Act(j) == IF t[j].parent = 0 THEN TRUE
                ELSE Act(t[j].parent) /\ chosen[t[j].parent] # "" /\ chosen[t[j].parent] \in t[j].pv
  IN Act(i)

\* ------------------------------------------------------------ traversal
\* SequentialParameterBuilder: pending is a sequence of node indices; at each step the head is yielded and the driver
\* either chooses a value for it or skips it.
Children(t, i, v) == LET S == {j \in DOMAIN t : t[j].parent = i /\ v \in t[j].pv} IN SortH(S)
TraverseStep(t, order, pending, dec) ==     \* dec = "" for skip, else the chosen value
  LET i == Head(pending) rest == Tail(pending) IN
  IF dec = "" THEN rest
  ELSE IF order = "dfs" THEN Children(t, i, dec) \o rest ELSE rest \o Children(t, i, dec)

\* ------------------------------------------------------------ presentation
\* Stored trial: function from a set of node indices to value strings.  What a client reads:
\* every stored parameter must be active, otherwise the trial is reported as an error ("ERR").
PresentValue(k, v) ==       \* typed value presented for kind k and stored value string v
  CASE KExt(k) = "BOOLEAN" -> Boo(v = "True")
    [] KExt(k) = "INTEGER" -> [py |-> "int", h |-> (CASE v = "2" -> 2 [] v = "4" -> 4 [] v = "6" -> 6 [] v = "-6" -> -6 [] v = "-2" -> -2 [] OTHER -> 0), sp |-> "fin", s |-> ""]
    [] KExt(k) = "FLOAT"   -> Flt(CASE v = "1" -> 1 [] v = "2" -> 2 [] v = "4" -> 4 [] OTHER -> 0)
    [] KType(k) = "CATEGORICAL" -> Str(v)
    [] KType(k) = "DOUBLE" -> Flt(CASE v = "0" -> 0 [] v = "2" -> 2 [] v = "4" -> 4 [] OTHER -> 0)
    [] OTHER -> [py |-> "num", h |-> (CASE v = "-2" -> -2 [] v = "0" -> 0 [] v = "2" -> 2 [] v = "4" -> 4 [] OTHER -> 0), sp |-> "fin", s |-> ""]
          \* INTEGER parameter with INTERNAL external type: value only, Python type unspecified ("num")

StoredTrials(t) == UNION {[S -> {"a", "b", "True", "False", "0", "1", "2", "4", "6", "-2", "-6"}] : S \in SUBSET (DOMAIN t)}
WellTyped(t, tr) == \A i \in DOMAIN tr : tr[i] \in KValues(t[i].kind)
Presentable(t, tr) == \A i \in DOMAIN tr : Active(t, [j \in DOMAIN t |-> IF j \in DOMAIN tr THEN tr[j] ELSE ""], i)

\* ============================================================== builders ==
\* Two-step builder programs: add a first parameter to the root, then either add a second root parameter or add a
\* child under a value of the first.  Valid unless: duplicate name in one subspace, child under a continuous
\* parameter, child under a value outside the parent's domain.
BuilderPrograms ==
  {[first |-> [kind |-> k1, name |-> "x"], second |-> [where |-> "root", pval |-> "", kind |-> k2, name |-> n2]] :
      k1 \in Kinds, k2 \in Kinds, n2 \in {"x", "y"}}
  \cup {[first |-> [kind |-> k1, name |-> "x"], second |-> [where |-> "child", pval |-> pv, kind |-> k2, name |-> n2]] :
      k1 \in Kinds \cup {"Dp", "Ip"}, k2 \in {"D", "C"}, n2 \in {"x", "y"}, pv \in {"a", "True", "2", "4", "1", "z", "7"}}
\* Dp, Ip: single-point ranges [1.0, 1.0] and [1, 1] (builder programs only): one feasible value does not make a continuous
\* parameter a legal parent, and does not stop an integer one from being one.
PvalInDomain(k, pv) == IF k \in {"Dp", "Ip"} THEN pv = "2" ELSE IF k = "I" THEN pv \in {"-2", "0", "2", "4"} ELSE IF k = "D" THEN pv \in {"0", "1", "2", "4"} ELSE pv \in KValues(k)
ValidProgram(p) ==
  IF p.second.where = "root" THEN p.second.name # p.first.name
  ELSE KType(p.first.kind) # "DOUBLE" /\ PvalInDomain(p.first.kind, p.second.pval)

\* ================================================================ driver ==
VARIABLES case, pending, yielded, chosen
vars == <<case, pending, yielded, chosen>>

Decisions(t, i) == {""} \cup KValues(t[i].kind)

Init ==
  /\ pending = <<>> /\ yielded = <<>> /\ chosen = <<>>
  /\ CASE Mode = "definitions" -> case \in DefArgs
       [] Mode = "membership" -> \E sp \in FlatSpaces : \E asg \in Assignments(sp) : case = [sp |-> sp, asg |-> asg]
       [] Mode = "builders" -> case \in BuilderPrograms
       [] Mode = "indexed" -> case \in [n : {1, 2, 3, 10, 11, 12, 13}]
       [] Mode = "present" -> \E t \in Trees : \E tr \in StoredTrials(t) : WellTyped(t, tr) /\ case = [tree |-> t, trial |-> tr]
       [] Mode = "traversal" -> \E t \in Trees, o \in {"dfs", "bfs"} : case = [tree |-> t, order |-> o]

TravInit == Mode = "traversal" /\ yielded = <<>> /\ pending = <<>> /\ chosen = <<>>
Begin == /\ TravInit
         /\ pending' = SortH({j \in DOMAIN case.tree : case.tree[j].parent = 0})
         /\ chosen' = [j \in DOMAIN case.tree |-> ""]
         /\ yielded' = <<0>>       \* marker: started
         /\ UNCHANGED case
Decide == /\ Mode = "traversal" /\ yielded # <<>> /\ pending # <<>>
          /\ \E dec \in Decisions(case.tree, Head(pending)) :
               /\ pending' = TraverseStep(case.tree, case.order, pending, dec)
               /\ yielded' = Append(yielded, Head(pending))
               /\ chosen' = [chosen EXCEPT ![Head(pending)] = dec]
          /\ UNCHANGED case
Next == Begin \/ Decide
Spec == Init /\ [][Next]_vars

\* On the model: the parameters yielded so far are exactly the active ones under the values chosen so far
\* (a skipped parameter hides its subtree), each at most once.
YieldedSet == {yielded[i] : i \in 2..Len(yielded)}
TraversalExact ==
  (Mode = "traversal" /\ yielded # <<>> /\ pending = <<>>) =>
     /\ YieldedSet = {j \in DOMAIN case.tree : Active(case.tree, chosen, j)}
     /\ Cardinality(YieldedSet) = Len(yielded) - 1
TraversalSound ==
  (Mode = "traversal" /\ yielded # <<>>) => \A j \in YieldedSet : Active(case.tree, chosen, j)

DumpDef == PrintT(ToJson([args |-> case, valid |-> ValidDefinition(case),
                          norm |-> IF ValidDefinition(case) THEN Normalised(case) ELSE [type |-> "INVALID"]]))
DumpMem == PrintT(ToJson([sp |-> case.sp, asg |-> case.asg, contains |-> Contains(case.sp, case.asg)]))
DumpTrav == IF pending = <<>> /\ yielded # <<>>
              THEN PrintT(ToJson([tree |-> case.tree, order |-> case.order, yielded |-> Tail(yielded), chosen |-> chosen]))
              ELSE TRUE
DumpPresent ==
  LET t == case.tree tr == case.trial IN
  PrintT(ToJson([tree |-> t, trial |-> [i \in DOMAIN t |-> IF i \in DOMAIN tr THEN tr[i] ELSE ""],
                 ok |-> Presentable(t, tr),
                 values |-> [i \in DOMAIN t |-> IF i \in DOMAIN tr THEN PresentValue(t[i].kind, tr[i]) ELSE NoVal]]))
DumpBuild == PrintT(ToJson([prog |-> case, valid |-> ValidProgram(case)]))
\* n parameters x[0] .. x[n-1] (DOUBLE in [0, 20]) holding the values 0.0, 1.0, ...: presented as ONE list in index order
DumpIndexed == PrintT(ToJson([n |-> case.n, values |-> [i \in 1..case.n |-> Flt(2 * (i - 1))]]))
Dump == CASE Mode = "indexed" -> DumpIndexed [] Mode = "builders" -> DumpBuild [] Mode = "definitions" -> DumpDef [] Mode = "membership" -> DumpMem [] Mode = "traversal" -> DumpTrav [] OTHER -> DumpPresent
=============================================================================
