---------------------------- MODULE Converter ----------------------------
(***************************************************************************)
(* C15: numeric encoding of trials.  TLC enumerates converter              *)
(* configurations (parameter shape x scale x one-hot x OOV padding x       *)
(* continuify threshold x dtype) and COMPUTES what is discrete about the   *)
(* encoding: whether the parameter is continuified, the number of feature  *)
(* columns, and which column is hot for each feasible point.  The          *)
(* continuous clauses (round trip, unit interval, orientation, decoding of *)
(* arbitrary arrays into the space, label sign round trip) are judged on   *)
(* observations of the real converters, on exact order keys (Num.tla).     *)
(***************************************************************************)
EXTENDS Num, FiniteSets, TLC, Json, IOUtils
CONSTANTS Mode

\* shapes: name, type, number of feasible values (0 = continuous), class.  Named shapes are fixed parameters; the shape
\* "D_class" stands for a CLASS of continuous parameters (magnitude x sign x width x scale type) whose concrete bounds the
\* driver draws (seeded) inside the class; "I_class" / "S_class" likewise for integer offsets and discrete value spreads.
NoCls == [mag |-> "na", sign |-> "na", width |-> "na", st |-> "na"]
Named(n, t, m) == [name |-> n, type |-> t, m |-> m, cls |-> NoCls]
DClasses == {c \in [mag : {"unit", "big", "huge", "tiny"}, sign : {"pos", "neg", "cross"}, width : {"wide", "narrow"},
                     st : {"LINEAR", "LOG", "REVERSE_LOG"}] : c.st # "LINEAR" => c.sign = "pos"}
IClasses == [mag : {"unit", "big"}, sign : {"pos", "neg", "cross"}, width : {"wide"}, st : {"LINEAR", "LOG"}]
Shapes == { Named("D_unit", "DOUBLE", 0), Named("D_neg", "DOUBLE", 0), Named("D_log", "DOUBLE", 0), Named("D_revlog", "DOUBLE", 0),
            Named("D_single", "DOUBLE", 0), Named("D_shift1", "DOUBLE", 0), Named("D_sym1", "DOUBLE", 0),
            \* bounds that are not float32 numbers (float32(hi) > hi, float32(lo) < lo): decoding in float32 must still land inside
            Named("D_f32hi", "DOUBLE", 0), Named("D_f32lo", "DOUBLE", 0),
            Named("I_small", "INTEGER", 6), Named("I_wide", "INTEGER", 41),
            Named("S_three", "DISCRETE", 3), Named("S_twelve", "DISCRETE", 12),
            Named("S_decimal", "DISCRETE", 4),      \* 0.1, 0.2, 0.3, 0.7: not float32 numbers (a float32 code path must still return THEM)
            Named("C_three", "CATEGORICAL", 3), Named("C_single", "CATEGORICAL", 1), Named("B", "CATEGORICAL", 2) }
          \cup {[name |-> "D_class", type |-> "DOUBLE", m |-> 0, cls |-> c] : c \in DClasses}
          \cup {[name |-> "I_class", type |-> "INTEGER", m |-> 6, cls |-> c] : c \in {k \in IClasses : k.st = "LINEAR" \/ k.sign = "pos"}}
          \cup {[name |-> "S_class", type |-> "DISCRETE", m |-> 4, cls |-> c] : c \in {k \in IClasses : k.st = "LINEAR"}}
Thresholds == {0, 10, 1000}
\* float32 cannot resolve the logarithms of a range of relative width 3e-7: narrow log-scaled classes are float64 only
Cases == {c \in [shape : Shapes, scale : BOOLEAN, onehot : BOOLEAN, pad : BOOLEAN, thr : Thresholds, dtype : {"float32", "float64"}] :
            (c.shape.cls.width = "narrow" /\ c.shape.cls.st # "LINEAR") => c.dtype = "float64"}

Numeric(s) == s.type \in {"INTEGER", "DISCRETE"}
Continuified(c) == Numeric(c.shape) /\ c.shape.m > c.thr
ContinuousCol(c) == c.shape.type = "DOUBLE" \/ Continuified(c)
NCols(c) == IF ContinuousCol(c) THEN 1
            ELSE IF c.onehot THEN c.shape.m + (IF c.pad THEN 1 ELSE 0)
            ELSE 1
Expected(c) == [continuified |-> Continuified(c), continuous |-> ContinuousCol(c), ncols |-> NCols(c), m |-> c.shape.m]

Obs == IF Mode = "judge" THEN JsonDeserialize(IOEnv.TRACE_FILE) ELSE <<>>
VARIABLES case
Init == IF Mode = "enumerate" THEN case \in Cases ELSE case = "judge"
Spec == Init /\ [][UNCHANGED case]_case
Dump == Mode # "enumerate" \/ PrintT(ToJson([case |-> case, expected |-> Expected(case)]))

\* ---- judge.  One observation per case:
\*  ncols; rows: per feasible / probe point i: [feat: seq of keys, hot: index or 0, back_ok: BOOLEAN, in01: keys]
Zero == Obs[1].zero
One == Obs[1].one
\* o.lo01 / o.hi01: the unit interval widened by a few units of rounding of the dtype (the reverse-log scaler computes
\* log(lo + hi - x), which is off by one rounding at the end points)
InDomain(p, v) ==
  CASE p.type = "DOUBLE"      -> v.kind = "num" /\ FBetween(p.lo, v.key, p.hi)
    [] p.type = "INTEGER"     -> v.kind = "num" /\ FBetween(p.lo, v.key, p.hi) /\ FEq(v.key, v.fl)
    [] p.type = "DISCRETE"    -> v.kind = "num" /\ \E i \in DOMAIN p.feas : FEq(p.feas[i], v.key)
    [] p.type = "CATEGORICAL" -> v.kind = "str" /\ \E i \in DOMAIN p.cats : p.cats[i] = v.s
    [] OTHER -> FALSE
ExactlyOneHot(f) == /\ Cardinality({j \in DOMAIN f : FEq(f[j], One)}) = 1
                    /\ \A j \in DOMAIN f : FEq(f[j], One) \/ FEq(f[j], Zero)
HotIndex(f) == CHOOSE j \in DOMAIN f : FEq(f[j], One)
Verdict(o) ==
  LET e == o.expected c == o.case IN
  IF o.refused THEN "refused"
  ELSE IF o.ncols # e.ncols THEN "column_count"
  ELSE IF \E i \in DOMAIN o.rows : ~o.rows[i].back_ok THEN "round_trip"
  ELSE IF ~e.continuous /\ c.onehot /\ \E i \in DOMAIN o.rows : ~ExactlyOneHot(o.rows[i].feat) THEN "not_one_hot"
  ELSE IF ~e.continuous /\ c.onehot /\ \E i \in DOMAIN o.rows : HotIndex(o.rows[i].feat) # o.rows[i].index + 1 THEN "wrong_hot_column"
  ELSE IF e.continuous /\ c.scale /\ \E i \in DOMAIN o.rows : ~FBetween(o.lo01, o.rows[i].feat[1], o.hi01) THEN "outside_unit_interval"
  ELSE IF e.continuous /\ c.scale /\ \E i \in DOMAIN o.rows : (i > 1 /\ FLt(o.rows[i].feat[1], o.rows[i - 1].feat[1])) THEN "orientation"
  ELSE IF e.continuous /\ c.scale /\ Len(o.rows) > 1 /\ ~(o.rows[1].near0 /\ o.rows[Len(o.rows)].near1) THEN "endpoints"
  ELSE IF \E i \in DOMAIN o.decoded : ~(o.decoded[i].present /\ InDomain(o.param, o.decoded[i].v)) THEN "decode_outside_space"
  ELSE "ok"
JudgeAll == \A i \in DOMAIN Obs : PrintT(<<"CV", i, Verdict(Obs[i])>>)
JInit == case = "judge" /\ JudgeAll
JSpec == JInit /\ [][FALSE]_case
=============================================================================
