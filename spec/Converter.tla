---------------------------- MODULE Converter ----------------------------
(***************************************************************************)
(* C15: numeric encoding of trials.  TLC enumerates converter              *)
(* configurations (parameter shape x scale x one-hot x OOV padding x       *)
(* continuify threshold x dtype) and COMPUTES what is discrete about the   *)
(* encoding: whether the parameter is continuified, the number of feature  *)
(* columns, and which column is hot for each feasible point.  The          *)
(* continuous clauses (round trip, unit interval, orientation, decoding of *)
(* arbitrary arrays into the space, label sign round trip) are judged on   *)
(* observations of the real converters, on exact order keys (Num.tla).     *)
(***************************************************************************)
EXTENDS Num, FiniteSets, TLC, Json, IOUtils
CONSTANTS Mode

\* shapes: name, type, number of feasible values (0 = continuous)
Shapes == { [name |-> "D_unit", type |-> "DOUBLE", m |-> 0], [name |-> "D_neg", type |-> "DOUBLE", m |-> 0],
            [name |-> "D_log", type |-> "DOUBLE", m |-> 0], [name |-> "D_revlog", type |-> "DOUBLE", m |-> 0],
            [name |-> "D_single", type |-> "DOUBLE", m |-> 0], [name |-> "D_shift1", type |-> "DOUBLE", m |-> 0], [name |-> "D_sym1", type |-> "DOUBLE", m |-> 0],
            \* bounds that are not float32 numbers (float32(hi) > hi, float32(lo) < lo): decoding in float32 must still land inside
            [name |-> "D_f32hi", type |-> "DOUBLE", m |-> 0], [name |-> "D_f32lo", type |-> "DOUBLE", m |-> 0],
            [name |-> "I_small", type |-> "INTEGER", m |-> 6], [name |-> "I_wide", type |-> "INTEGER", m |-> 41],
            [name |-> "S_three", type |-> "DISCRETE", m |-> 3], [name |-> "S_twelve", type |-> "DISCRETE", m |-> 12],
            [name |-> "C_three", type |-> "CATEGORICAL", m |-> 3], [name |-> "C_single", type |-> "CATEGORICAL", m |-> 1],
            [name |-> "B", type |-> "CATEGORICAL", m |-> 2] }
Thresholds == {0, 10, 1000}
Cases == [shape : Shapes, scale : BOOLEAN, onehot : BOOLEAN, pad : BOOLEAN, thr : Thresholds, dtype : {"float32", "float64"}]

Numeric(s) == s.type \in {"INTEGER", "DISCRETE"}
Continuified(c) == Numeric(c.shape) /\ c.shape.m > c.thr
ContinuousCol(c) == c.shape.type = "DOUBLE" \/ Continuified(c)
NCols(c) == IF ContinuousCol(c) THEN 1
            ELSE IF c.onehot THEN c.shape.m + (IF c.pad THEN 1 ELSE 0)
            ELSE 1
Expected(c) == [continuified |-> Continuified(c), continuous |-> ContinuousCol(c), ncols |-> NCols(c), m |-> c.shape.m]

Obs == IF Mode = "judge" THEN JsonDeserialize(IOEnv.TRACE_FILE) ELSE <<>>
VARIABLES case
Init == IF Mode = "enumerate" THEN case \in Cases ELSE case = "judge"
Spec == Init /\ [][UNCHANGED case]_case
Dump == Mode # "enumerate" \/ PrintT(ToJson([case |-> case, expected |-> Expected(case)]))

\* ---- judge.  One observation per case:
\*  ncols; rows: per feasible / probe point i: [feat: seq of keys, hot: index or 0, back_ok: BOOLEAN, in01: keys]
Zero == Obs[1].zero
One == Obs[1].one
InDomain(p, v) ==
  CASE p.type = "DOUBLE"      -> v.kind = "num" /\ FBetween(p.lo, v.key, p.hi)
    [] p.type = "INTEGER"     -> v.kind = "num" /\ FBetween(p.lo, v.key, p.hi) /\ FEq(v.key, v.fl)
    [] p.type = "DISCRETE"    -> v.kind = "num" /\ \E i \in DOMAIN p.feas : FEq(p.feas[i], v.key)
    [] p.type = "CATEGORICAL" -> v.kind = "str" /\ \E i \in DOMAIN p.cats : p.cats[i] = v.s
    [] OTHER -> FALSE
ExactlyOneHot(f) == /\ Cardinality({j \in DOMAIN f : FEq(f[j], One)}) = 1
                    /\ \A j \in DOMAIN f : FEq(f[j], One) \/ FEq(f[j], Zero)
HotIndex(f) == CHOOSE j \in DOMAIN f : FEq(f[j], One)
Verdict(o) ==
  LET e == o.expected c == o.case IN
  IF o.refused THEN "refused"
  ELSE IF o.ncols # e.ncols THEN "column_count"
  ELSE IF \E i \in DOMAIN o.rows : ~o.rows[i].back_ok THEN "round_trip"
  ELSE IF ~e.continuous /\ c.onehot /\ \E i \in DOMAIN o.rows : ~ExactlyOneHot(o.rows[i].feat) THEN "not_one_hot"
  ELSE IF ~e.continuous /\ c.onehot /\ \E i \in DOMAIN o.rows : HotIndex(o.rows[i].feat) # o.rows[i].index + 1 THEN "wrong_hot_column"
  ELSE IF e.continuous /\ c.scale /\ \E i \in DOMAIN o.rows : ~FBetween(Zero, o.rows[i].feat[1], One) THEN "outside_unit_interval"
  ELSE IF e.continuous /\ c.scale /\ \E i \in DOMAIN o.rows : (i > 1 /\ FLt(o.rows[i].feat[1], o.rows[i - 1].feat[1])) THEN "orientation"
  ELSE IF e.continuous /\ c.scale /\ Len(o.rows) > 1 /\ ~(o.rows[1].near0 /\ o.rows[Len(o.rows)].near1) THEN "endpoints"
  ELSE IF \E i \in DOMAIN o.decoded : ~(o.decoded[i].present /\ InDomain(o.param, o.decoded[i].v)) THEN "decode_outside_space"
  ELSE "ok"
JudgeAll == \A i \in DOMAIN Obs : PrintT(<<"CV", i, Verdict(Obs[i])>>)
JInit == case = "judge" /\ JudgeAll
JSpec == JInit /\ [][FALSE]_case
=============================================================================
