---------------------------- MODULE TrialView ----------------------------
(* What an algorithm (through a policy supporter) and a client (through Study.trials) see of a study's trials.

   The store is the study's trial table at the level of the stored record: a trial id maps to one of the five stored
   states, or is absent (never created, or deleted: ids have gaps).  Readers do not see stored states but the four
   statuses of the Python trial object; SUCCEEDED and INFEASIBLE are both COMPLETED.  A view is the set of trials that
   pass a filter of four optional clauses - an id set, a lower and an upper id bound, a status set - which are ANDed:
   an absent clause lets everything through, a present but empty id or status set lets nothing through.

   Four pieces of code implement that one function and C12's delivery rule is built on it (the trial loader asks for
   "COMPLETED with id in ..." and "ACTIVE"):
     vz.TrialFilter.__call__                          vizier/_src/pyvizier/shared/trial.py
     ServicePolicySupporter.GetTrials                 vizier/_src/service/service_policy_supporter.py
     InRamPolicySupporter.GetTrials                   vizier/_src/pythia/local_policy_supporters.py
     clients.Study.trials(filter)                     vizier/_src/service/clients.py

   The store evolves by the service's own steps (create with the next id, the lifecycle steps of C01, delete), and a
   query is a step that changes nothing; every (reachable store, filter) pair is one transition, printed by Dump and
   replayed into the four implementations by drivers/c12_view.py. *)
EXTENDS Naturals, FiniteSets, Sequences, TLC, Json

CONSTANTS N,            \* ids 1..N
          StatusSets,   \* the status clauses explored (each a set of statuses); the absent clause is added
          MaxDepth

Absent == "Absent"
No == <<>>                 \* an absent clause; a present one is <<value>> (TLC cannot compare a set or a number with a string)
Has(c) == Len(c) = 1
Opt(S) == {No} \cup {<<x>> : x \in S}
Stored == {"REQUESTED", "ACTIVE", "STOPPING", "SUCCEEDED", "INFEASIBLE"}
Statuses == {"REQUESTED", "ACTIVE", "STOPPING", "COMPLETED"}
Ids == 1..N

StatusOf(x) == IF x \in {"SUCCEEDED", "INFEASIBLE"} THEN "COMPLETED" ELSE x

VARIABLES store, next, q, ans, last     \* last: was the step into this state a query?
vars == <<store, next, q, ans, last>>

NoQuery == [ids |-> No, min |-> No, max |-> No, status |-> No]
Filters == [ids : Opt(SUBSET Ids), min : Opt(0..N + 1), max : Opt(0..N + 1), status : Opt(StatusSets)]

Passes(s, i, f) ==
  /\ s[i] # Absent
  /\ Has(f.ids) => i \in f.ids[1]
  /\ Has(f.min) => i >= f.min[1]
  /\ Has(f.max) => i <= f.max[1]
  /\ Has(f.status) => StatusOf(s[i]) \in f.status[1]

View(s, f) == {i \in Ids : Passes(s, i, f)}

Init == store = [i \in Ids |-> Absent] /\ next = 1 /\ q = NoQuery /\ ans = {} /\ last = "init"

\* the service's steps, as far as a reader can tell them apart
Create(x) == next <= N /\ x \in {"REQUESTED", "ACTIVE", "SUCCEEDED", "INFEASIBLE"}
             /\ store' = [store EXCEPT ![next] = x] /\ next' = next + 1 /\ last' = "step" /\ UNCHANGED <<q, ans>>
Step(i) == /\ store[i] \in {"REQUESTED", "ACTIVE", "STOPPING"}
           /\ \E x \in Stored :
                /\ \/ store[i] = "REQUESTED" /\ x = "ACTIVE"
                   \/ store[i] = "ACTIVE" /\ x \in {"STOPPING", "SUCCEEDED", "INFEASIBLE"}
                   \/ store[i] = "STOPPING" /\ x \in {"SUCCEEDED", "INFEASIBLE"}
                /\ store' = [store EXCEPT ![i] = x]
           /\ last' = "step" /\ UNCHANGED <<next, q, ans>>
Delete(i) == store[i] # Absent /\ store' = [store EXCEPT ![i] = Absent] /\ last' = "step" /\ UNCHANGED <<next, q, ans>>
Query(f) == q' = f /\ ans' = View(store, f) /\ last' = "query" /\ UNCHANGED <<store, next>>

Next == \/ \E x \in Stored : Create(x)
        \/ \E i \in Ids : Step(i) \/ Delete(i)
        \/ \E f \in Filters : Query(f)
Spec == Init /\ [][Next]_vars

StoreView == <<store, next>>
Bound == TLCGet("level") <= MaxDepth
Dump == last = "query" => PrintT(ToJson([store |-> store, q |-> q, ans |-> ans]))

-----------------------------------------------------------------------------
\* what users of the view rely on.  The answer variables are hidden by the VIEW (a query leads back to the same store), so
\* what must hold of an answer is stated on the query step, which TLC checks for every generated transition.
SoundOf(s, f, a) == \A i \in a : s[i] # Absent /\ (Has(f.status) => StatusOf(s[i]) \in f.status[1])
                        /\ (Has(f.ids) => i \in f.ids[1]) /\ (Has(f.min) => i >= f.min[1]) /\ (Has(f.max) => i <= f.max[1])
CompleteOf(s, f, a) == \A i \in Ids : Passes(s, i, f) => i \in a
ConjunctiveOf(s, f, a) == a = View(s, [NoQuery EXCEPT !.ids = f.ids]) \cap View(s, [NoQuery EXCEPT !.min = f.min])
                                \cap View(s, [NoQuery EXCEPT !.max = f.max]) \cap View(s, [NoQuery EXCEPT !.status = f.status])
IsQuery == last' = "query"
Sound == [][IsQuery => SoundOf(store', q', ans')]_vars
Complete == [][IsQuery => CompleteOf(store', q', ans')]_vars
Conjunctive == [][IsQuery => ConjunctiveOf(store', q', ans')]_vars
NoClauseIsEverything == [][(IsQuery /\ q' = NoQuery) => ans' = {i \in Ids : store[i] # Absent}]_vars
EmptyClauseIsNothing == [][(IsQuery /\ (q'.ids = <<{}>> \/ q'.status = <<{}>>)) => ans' = {}]_vars
\* the two questions of the delivery rule partition what an algorithm is told about: ACTIVE and COMPLETED views never overlap
StatusViewsDisjoint == \A a, b \in Statuses : a # b =>
                         View(store, [NoQuery EXCEPT !.status = <<{a}>>]) \cap View(store, [NoQuery EXCEPT !.status = <<{b}>>]) = {}
StatusViewsCover == UNION {View(store, [NoQuery EXCEPT !.status = <<{a}>>]) : a \in Statuses} = View(store, NoQuery)
QueriesArePure == [][last' = "query" => store' = store /\ next' = next]_vars
\* ids are never reused by this table's own steps (the service's max+1 rule is Delivery.tla's business)
IdsGrow == [][next' >= next]_vars
=============================================================================
