---------------------------- MODULE Namespace ----------------------------
(***************************************************************************)
(* Metadata namespaces (C10): a namespace is a tuple of components, a      *)
(* component a string; strings are sequences of one-character strings so   *)
(* that TLC can look inside them.                                          *)
(*                                                                         *)
(* Two things live here:                                                   *)
(*  - the CONTRACT the documentation states: Decode(Encode(ns)) = ns for   *)
(*    every namespace, hence Encode injective;                             *)
(*  - a TRANSCRIPTION of vizier/_src/pyvizier/shared/common.py             *)
(*    (Namespace.encode, _parse), model-checked against the contract and   *)
(*    bound to the code: the real encode/decode results are fed back as    *)
(*    observations and must equal the transcription's, character by        *)
(*    character.                                                           *)
(***************************************************************************)
EXTENDS Naturals, Sequences, FiniteSets, TLC, Json, IOUtils
CONSTANTS MaxComp, MaxLen, Mode     \* Mode = "enumerate" | "judge"
Alphabet == {"a", ":", "\\", "e"}    \* "e" is mapped to a non-ASCII letter by the driver
Colon == ":"
Bslash == "\\"
RECURSIVE SeqsUpTo(_, _)
SeqsUpTo(S, n) == IF n = 0 THEN {<<>>} ELSE SeqsUpTo(S, n - 1) \cup {Append(q, x) : q \in SeqsUpTo(S, n - 1), x \in S}
Comps == SeqsUpTo(Alphabet, MaxLen)
Namespaces == SeqsUpTo(Comps, MaxComp)

\* ---- transcription of Namespace.encode: ':' + c.translate({':': '\:'}) per component
RECURSIVE Esc(_)
Esc(c) == IF c = <<>> THEN <<>> ELSE (IF Head(c) = Colon THEN <<Bslash, Colon>> ELSE <<Head(c)>>) \o Esc(Tail(c))
RECURSIVE Encode(_)
Encode(ns) == IF ns = <<>> THEN <<>> ELSE <<Colon>> \o Esc(Head(ns)) \o Encode(Tail(ns))

\* ---- transcription of _parse
RECURSIVE Split(_, _)
Split(s, acc) == IF s = <<>> THEN <<acc>>
                 ELSE IF Head(s) = Colon THEN <<acc>> \o Split(Tail(s), <<>>)
                 ELSE Split(Tail(s), Append(acc, Head(s)))
EndsBs(f) == f # <<>> /\ f[Len(f)] = Bslash
Chop(f) == SubSeq(f, 1, Len(f) - 1)
RECURSIVE Walk(_, _, _)
Walk(frags, out, join) ==
  IF frags = <<>> THEN out
  ELSE LET f == Head(frags) rest == Tail(frags) IN
       IF join /\ EndsBs(f) THEN Walk(rest, [out EXCEPT ![Len(out)] = @ \o <<Colon>> \o Chop(f)], TRUE)
       ELSE IF join THEN Walk(rest, [out EXCEPT ![Len(out)] = @ \o <<Colon>> \o f], FALSE)
       ELSE IF EndsBs(f) THEN Walk(rest, Append(out, Chop(f)), TRUE)
       ELSE Walk(rest, Append(out, f), FALSE)
Decode(s) == IF s = <<>> THEN <<>>
             ELSE LET t == IF Head(s) = Colon THEN Tail(s) ELSE s IN Walk(Split(t, <<>>), <<>>, FALSE)

\* ---- phase 1: enumerate every namespace with what the transcription predicts
\* ---- phase 2: judge the observations recorded from the real code
Obs == IF Mode = "judge" THEN JsonDeserialize(IOEnv.TRACE_FILE) ELSE <<>>

VARIABLES ns, i
Init == IF Mode = "enumerate" THEN ns \in Namespaces /\ i = 0
        ELSE i \in 1..Len(Obs) /\ ns = Obs[i].ns
Spec == Init /\ [][UNCHANGED <<ns, i>>]_<<ns, i>>

ModelRoundTrip == Decode(Encode(ns)) = ns
Enumerate == PrintT(ToJson([ns |-> ns, enc |-> Encode(ns), dec |-> Decode(Encode(ns)), ok |-> ModelRoundTrip]))

\* verdict on one observation o = [ns, enc, dec] (enc/dec produced by the real code)
Verdict(o) ==
  IF o.enc # Encode(o.ns) THEN "conformance_encode"          \* the code no longer encodes as transcribed
  ELSE IF o.dec # Decode(o.enc) THEN "conformance_decode"    \* the code no longer parses as transcribed
  ELSE IF o.dec # o.ns THEN "roundtrip"                      \* C10: decode(encode(ns)) = ns
  ELSE IF \E j \in 1..Len(Obs) : Obs[j].ns # o.ns /\ Obs[j].enc = o.enc THEN "collision"   \* C10: never collide
  ELSE "ok"
Judge == PrintT(<<"NSV", i, Verdict(Obs[i])>>)
=============================================================================
