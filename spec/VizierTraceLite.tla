---------------------------- MODULE VizierTraceLite ----------------------------
(***************************************************************************)
(* Trace specification for executions the machinery did not drive: the     *)
(* repository's own service tests, recorded by lib/rectrace_plugin.py      *)
(* (every top-level RPC of every servicer, with the whole stored state     *)
(* before and after).  The tests use real algorithms, arbitrary search     *)
(* spaces and also write to the datastore directly between calls, so the   *)
(* events are judged one by one - pre-state, call, response, post-state -  *)
(* against the per-property STEP PREDICATES of VizierAtomic (the same      *)
(* operators Spec A checks as action properties), not against Apply: what  *)
(* the algorithm delivered is read off the states (number of trials        *)
(* created), parameters / measurements / metadata values are interned      *)
(* tokens.  Clauses that need the scripted environment (C06) or metric     *)
(* values (C11) are not judged here.                                       *)
(***************************************************************************)
EXTENDS VizierAtomic, Json, IOUtils

Events == JsonDeserialize(IOEnv.TRACE_FILE)
VARIABLES i, verdict
vars == <<i, verdict>>

Judge(e) ==
  LET a == e.pre
      b == e.post
      c == e.call
      o == e.resp
  IN IF ~StepTransitions(a, b, c) THEN "C01_Transitions"
     ELSE IF ~StepParamsFrozen(a, b, c) THEN "C01_ParamsFrozen"
     ELSE IF ~StepCompletedFrozen(a, b, c) THEN "C01_CompletedFrozen"
     ELSE IF ~StepErrorsPure(a, b, c, o) THEN "C01_ErrorsPure"
     ELSE IF ~StepImmutableStudy(a, b, c) THEN "C01_ImmutableStudy"
     ELSE IF ~StepOnlyNamedTrial(a, b, c) THEN "C01_OnlyNamedTrial"
     ELSE IF ~StepOneOwner(a, b, c) THEN "C02_OneOwner"
     ELSE IF ~StepFreshIds(a, b, c) THEN "C02_FreshIds"
     ELSE IF e.judge_suggest /\ ~StepSuggest(a, b, c, o) THEN "C02_Suggest"
     ELSE IF ~(ActiveHasOwner(a) => ActiveHasOwner(b)) THEN "C02_ActiveHasOwner"
     ELSE IF ~(RequestedUnowned(a) => RequestedUnowned(b)) THEN "C02_RequestedUnowned"
     ELSE IF ~StepMetaIsolation(a, b, c) THEN "C10_Isolation"
     ELSE "ok"

Init == i \in 1..Len(Events) /\ verdict = Judge(Events[i])
Spec == Init /\ [][UNCHANGED vars]_vars
Pos == PrintT(<<"LV", i, verdict>>)
=============================================================================
