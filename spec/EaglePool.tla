---------------------------- MODULE EaglePool ----------------------------
(***************************************************************************)
(* C19, "never worse than the prior points it was seeded with": the eagle  *)
(* strategy keeps only a fixed number K of prior points in its pool        *)
(* (VectorizedEagleStrategy._populate_pool_with_prior_trials).  The pool   *)
(* starts with the K most recent priors; every older prior, most recent    *)
(* first, replaces the chosen prior nearest to it when its reward is       *)
(* strictly larger.  This module is that procedure as a state machine, one *)
(* step per considered prior, over priors on a line (positions 1..P,       *)
(* rewards 0..R).  TLC checks on every prior sequence that the best prior  *)
(* reward survives in the pool and that a slot's reward never decreases,   *)
(* and prints the final pool of every sequence; the driver gives the same  *)
(* priors to the real method and compares the pool slot by slot.           *)
(*                                                                         *)
(* pri is in the order the method processes them (index 1 = most recent).  *)
(***************************************************************************)
EXTENDS Integers, Sequences, FiniteSets, TLC, Json
CONSTANTS K, NMin, NMax, P, R

VARIABLES pri, chosen, i
vars == <<pri, chosen, i>>
Prior == [pos : 1..P, rew : 0..R]

Init == /\ \E n \in NMin..NMax : pri \in [1..n -> Prior]
        /\ chosen = [s \in 1..K |-> IF s <= Len(pri) THEN s ELSE 0]      \* 0: the slot is filled with a random point
        /\ i = K + 1
D(a, b) == (pri[a].pos - pri[b].pos) * (pri[a].pos - pri[b].pos)
\* jnp.argmin: the first slot at minimal distance
Nearest(j) == CHOOSE s \in 1..K : \A u \in 1..K : D(j, chosen[s]) < D(j, chosen[u]) \/ (D(j, chosen[s]) = D(j, chosen[u]) /\ s <= u)
Consider == /\ i <= Len(pri)
            /\ LET s == Nearest(i) IN
                 chosen' = IF pri[chosen[s]].rew < pri[i].rew THEN [chosen EXCEPT ![s] = i] ELSE chosen
            /\ i' = i + 1 /\ UNCHANGED pri
Spec == Init /\ [][Consider]_vars
Done == i > Len(pri)

MaxRew == CHOOSE m \in 0..R : (\E j \in DOMAIN pri : pri[j].rew = m) /\ \A j \in DOMAIN pri : pri[j].rew <= m
BestPriorSurvives == Done => \E s \in 1..K : chosen[s] # 0 /\ pri[chosen[s]].rew = MaxRew
SlotRewardsNeverDecrease == [][\A s \in 1..K : chosen[s] # 0 => pri[chosen'[s]].rew >= pri[chosen[s]].rew]_vars
NoDuplicateSlots == \A s, u \in 1..K : (s # u /\ chosen[s] # 0) => chosen[s] # chosen[u]
Dump == ~Done \/ PrintT(ToJson([pri |-> pri, chosen |-> chosen]))
=============================================================================
