---------------------------- MODULE VizierCrash ----------------------------
(***************************************************************************)
(* Spec C (C05): the SQL-backed service under process death.               *)
(*                                                                         *)
(* A call is executed by the servicer as a sequence of DataStore calls,    *)
(* each of which commits once.  Chain(a, c) is the sequence of disk states *)
(* after each committing datastore call of RPC c started in state a        *)
(* (written from vizier_service.py in source order).  A crash at ANY       *)
(* instant leaves the disk in a (or in) one of Chain(a, c): a crash        *)
(* between a statement and its commit is rolled back by SQLite to the      *)
(* previous element.  Single-resource calls have a chain of length <= 1,   *)
(* i.e. they are atomic.                                                   *)
(*                                                                         *)
(* The scenarios (acknowledged prefix, interrupted call) are the           *)
(* transitions of Spec A: this module extends VizierService and prints,    *)
(* for every transition, the chain and, for every state of the chain, what *)
(* the restarted service must answer to the recovery probes.               *)
(***************************************************************************)
EXTENDS VizierService, IOUtils

RECURSIVE Fold(_, _)
Fold(a, h) == IF h = <<>> THEN a ELSE Fold(Apply(a, Head(h)).st, Tail(h))
PreState == Fold(InitSt, SubSeq(hist, 1, Len(hist) - 1))
LastCall == hist[Len(hist)]

\* ---- chains
FreshChain(a, s, w, n, env) ==
  LET ops == a.ops[s][w] IN
  LET own  == {t \in IdsOf(a, s) : a.trial[s][t].state = "ACTIVE" /\ a.trial[s][t].client = w}
      pool == {t \in IdsOf(a, s) : a.trial[s][t].state = "REQUESTED"}
      k0 == Len(ops) + 1
      WithOp(b, op) == [b EXCEPT !.ops[s][w] = IF Len(@) < k0 THEN Append(@, op) ELSE [@ EXCEPT ![k0] = op]]
      undone == [done |-> FALSE, err |-> FALSE, trials |-> <<>>]
      s1 == WithOp(a, undone)
      final == Apply(a, [rpc |-> "SuggestTrials", s |-> s, w |-> w, n |-> n, env |-> env]).st
  IN IF Cardinality(own) >= n THEN <<s1, final>>
     ELSE
     LET needPool == n - Cardinality(own)
         poolSeq == SeqOf(pool)
         takeN == IF needPool < Len(poolSeq) THEN needPool ELSE Len(poolSeq)
         \* the code pops from the end: assignment order is descending id
         Assigned(j) == {poolSeq[i] : i \in (Len(poolSeq) - j + 1)..Len(poolSeq)}
         AfterPool(j) == [s1 EXCEPT !.trial[s] = [t \in Ids |-> IF t \in Assigned(j)
                                                      THEN [a.trial[s][t] EXCEPT !.state = "ACTIVE", !.client = w]
                                                      ELSE a.trial[s][t]]]
         poolSteps == [j \in 1..takeN |-> AfterPool(j)]
         need == n - Cardinality(own) - takeN
     IN IF need = 0 \/ env.raise THEN <<s1>> \o poolSteps \o <<final>>
        ELSE
        LET sp == AfterPool(takeN)
            sm == [sp EXCEPT !.study[s].meta = Merge(@, EffMd(@, env.md))]          \* update_metadata commits even when empty
            base == MaxTrialId(sm, s)
            kk == Len(env.ps)
            \* final without the operation being done: trials base+1..base+j exist as in final
            Partial(j) == [sm EXCEPT !.trial[s] = [t \in Ids |-> IF t \in (base + 1)..(base + j) THEN final.trial[s][t] ELSE sm.trial[s][t]]]
            newSteps == [j \in 1..kk |-> Partial(j)]
        IN <<s1>> \o poolSteps \o <<sm>> \o newSteps \o <<final>>

\* abandoned operations of this client are closed first, one commit each, in list order
SuggestChain(a, s, w, n, env) ==
  IF StudyGuard(a, s) # None THEN <<>>
  ELSE
  LET ops == a.ops[s][w]
      unf == SeqOf({i \in DOMAIN ops : ~ops[i].done})
      CloseUpTo(j) == [a EXCEPT !.ops[s][w] = [i \in DOMAIN @ |-> IF \E q \in 1..j : unf[q] = i THEN [@[i] EXCEPT !.done = TRUE, !.err = TRUE] ELSE @[i]]]
  IN [j \in 1..Len(unf) |-> CloseUpTo(j)] \o FreshChain(CloseUpTo(Len(unf)), s, w, n, env)

\* the check reaches the algorithm (it is neither refused nor answered from a stored operation); a recycled operation
\* passes through ACTIVE even when the new verdict equals the old one
EsReaches(a, s, t) ==
  /\ StudyGuard(a, s) = None /\ Present(a, s, t) /\ a.trial[s][t].state \in Mutable
  /\ ~(a.es[s][t] # Absent /\ (a.es[s][t].status = "ACTIVE" \/ (a.es[s][t].status = "DONE" /\ Recycle = "never")))
EsChain(a, s, t, env) ==
  LET r == Apply(a, [rpc |-> "CheckEarlyStopping", s |-> s, t |-> t, env |-> env]) IN
  IF ~EsReaches(a, s, t) THEN <<>>
  ELSE LET active == [a EXCEPT !.es[s][t] = [status |-> "ACTIVE", stop |-> FALSE]] IN
       IF env.raise THEN <<active, r.st>> ELSE <<active, active, r.st>>      \* create/recycle; update_metadata; update op

Chain(a, c) ==
  IF c.rpc = "SuggestTrials" THEN SuggestChain(a, c.s, c.w, c.n, c.env)
  ELSE IF c.rpc = "CheckEarlyStopping" THEN EsChain(a, c.s, c.t, c.env)
  ELSE LET b == Apply(a, c).st IN IF b = a THEN <<>> ELSE <<b>>

\* ---- recovery probes on a post-crash state: a worker suggests one trial and completes it
Probe(b, s, w) ==
  LET c1 == [rpc |-> "SuggestTrials", s |-> s, w |-> w, n |-> 1, env |-> [raise |-> FALSE, ps |-> <<"p1">>, md |-> NoMeta]]
      r1 == Apply(b, c1)
  IN IF r1.resp.err # None THEN [suggest |-> r1.resp, complete |-> [err |-> "skipped", val |-> None], usable |-> FALSE]
     ELSE IF ~r1.resp.val.op.done \/ r1.resp.val.op.trials = <<>> THEN [suggest |-> r1.resp, complete |-> [err |-> "skipped", val |-> None], usable |-> FALSE]
     ELSE LET t == r1.resp.val.op.trials[1]
              r2 == Apply(r1.st, [rpc |-> "CompleteTrial", s |-> s, t |-> t, f |-> "m1", inf |-> FALSE, reason |-> ""])
          IN [suggest |-> r1.resp, complete |-> r2.resp, usable |-> r2.resp.err = None]

\* every post-crash state of every scenario
PostCrash == <<PreState>> \o Chain(PreState, LastCall)
StudyOf == IF "s" \in DOMAIN LastCall THEN LastCall.s ELSE CHOOSE s \in Studies : TRUE
Room(b, s) == MaxTrialId(b, s) < MaxId

DumpCrash ==
  hist = <<>> \/
  PrintT(ToJson([hist |-> hist, chain |-> PostCrash,
                 probes |-> [i \in DOMAIN PostCrash |->
                               [w \in Clients |-> IF StudyPresent(PostCrash[i], StudyOf) /\ ~Immutable(PostCrash[i], StudyOf) /\ Room(PostCrash[i], StudyOf)
                                                    THEN Probe(PostCrash[i], StudyOf, w)
                                                    ELSE [suggest |-> [err |-> "n/a", val |-> None], complete |-> [err |-> "n/a", val |-> None], usable |-> TRUE]]]]))

\* ---- C05 on the model
\* single-resource calls are atomic: at most one durable step
SingleResourceAtomic == hist # <<>> => (LastCall.rpc \notin {"SuggestTrials", "CheckEarlyStopping"} => Len(Chain(PreState, LastCall)) <= 1)
\* the last element of a non-empty chain is the acknowledged state (durability of the acknowledged call)
ChainEndsInAck == hist # <<>> => (Chain(PreState, LastCall) # <<>> => Chain(PreState, LastCall)[Len(Chain(PreState, LastCall))] = st)
\* every post-crash state is well-formed: legal trial states, owners as required
WellFormedState(b) == ActiveHasOwner(b) /\ RequestedUnowned(b)
PostCrashWellFormed == hist # <<>> => \A i \in DOMAIN PostCrash : WellFormedState(PostCrash[i])
\* clients can continue after any crash (this is the clause the unchanged code does not satisfy inside SuggestTrials)
PostCrashUsable == hist # <<>> => \A i \in DOMAIN PostCrash : \A w \in Clients :
    (StudyPresent(PostCrash[i], StudyOf) /\ ~Immutable(PostCrash[i], StudyOf) /\ Room(PostCrash[i], StudyOf)) => Probe(PostCrash[i], StudyOf, w).usable

\* ---- crash images of SuggestTrials that are not an element of the chain above.
\* The chain is the order in which TODAY's code commits; C05 does not fix that order for a call that touches several
\* resources: it asks that what was acknowledged before is intact, every trial is in a legal state, ids are unique and
\* increasing, and clients can continue.  PartialSuggest(a, c, g): g is SOME partial application of the call c to a.
PartialSuggest(a, c, g) ==
  LET s == c.s  w == c.w  env == c.env
      q == SuggestParts(a, s, w, c.n, env)
      old == IdsOf(a, s)
      new == IdsOf(g, s) \ old
      turned == {t \in old : g.trial[s][t] # a.trial[s][t]}
      opsA == a.ops[s][w]
      opsG == g.ops[s][w]
      Closed(o) == IF o.done THEN o ELSE [o EXCEPT !.done = TRUE, !.err = TRUE]
  IN /\ g.owner = a.owner
     /\ \A s2 \in Studies \ {s} : g.study[s2] = a.study[s2] /\ g.trial[s2] = a.trial[s2] /\ g.ops[s2] = a.ops[s2] /\ g.es[s2] = a.es[s2]
     /\ g.study[s] # Absent /\ g.study[s].state = a.study[s].state /\ g.study[s].cfg = a.study[s].cfg
     /\ \A x \in Cells : g.study[s].meta[x] \in {a.study[s].meta[x], Merge(a.study[s].meta, EffMd(a.study[s].meta, env.md))[x]}
     /\ g.es[s] = a.es[s]
     /\ old \subseteq IdsOf(g, s)
     /\ \A t \in turned : a.trial[s][t].state = "REQUESTED" /\ g.trial[s][t] = [a.trial[s][t] EXCEPT !.state = "ACTIVE", !.client = w]
     /\ Cardinality(turned) <= q.takeN
     /\ \A t \in new : /\ \A u \in old : u < t
                        /\ \E j \in DOMAIN env.ps : g.trial[s][t] \in {NewTrial("ACTIVE", w, env.ps[j], None), NewTrial("REQUESTED", None, env.ps[j], None)}
     /\ Cardinality(new) <= Len(env.ps)
     /\ (new # {} => ~env.raise)
     /\ \A w2 \in Clients \ {w} : g.ops[s][w2] = a.ops[s][w2]
     /\ Len(opsG) \in {Len(opsA), Len(opsA) + 1}
     /\ \A i \in DOMAIN opsA : opsG[i] \in {opsA[i], Closed(opsA[i])}
     /\ ActiveHasOwner(g) /\ RequestedUnowned(g)

CrashObs == JsonDeserialize(IOEnv.TRACE_FILE)
PartialVerdict(o) == IF o.call.rpc = "SuggestTrials" /\ StudyGuard(o.pre, o.call.s) = None /\ PartialSuggest(o.pre, o.call, o.got) THEN "partial_ok" ELSE "torn"
JudgeCrash == \A i \in DOMAIN CrashObs : PrintT(<<"PV", i, PartialVerdict(CrashObs[i])>>)
JInit == st = InitSt /\ resp = [err |-> None, val |-> None] /\ hist = <<>> /\ JudgeCrash
JSpec == JInit /\ [][FALSE]_vars
=============================================================================
