---------------------------- MODULE VizierJudge ----------------------------
(***************************************************************************)
(* Judge of single observed steps [pre, call, resp, post] of the real      *)
(* servicer whose outcome differs from the one TLC printed for the model's *)
(* default choice (replay direction, spec -> code).  C02 leaves open which *)
(* queued trials are taken, which own trials are returned and how the      *)
(* algorithm's suggestions are paired with the new ids (VizierAtomic,      *)
(* Choices): the step is accepted iff SOME variant of the call explains    *)
(* the observed response and post-state exactly.                           *)
(***************************************************************************)
EXTENDS VizierAtomic, Json, IOUtils

Events == JsonDeserialize(IOEnv.TRACE_FILE)
VARIABLES i, verdict
vars == <<i, verdict>>

AsSet(q) == {q[k] : k \in DOMAIN q}
RespMatches(c, model, obs) ==
  /\ model.err = obs.err
  /\ IF model.err # None THEN TRUE
     ELSE IF c.rpc \in {"ListStudies", "ListOptimalTrials"} THEN model.val = AsSet(obs.val)
     ELSE model.val = obs.val

Verdict(e) ==
  LET a == e.pre
      c == e.call
  IN IF \E v \in Variants(a, c) : RespMatches(c, Apply(a, v).resp, e.resp) /\ Apply(a, v).st = e.post THEN "ok"
     ELSE IF \E v \in Variants(a, c) : RespMatches(c, Apply(a, v).resp, e.resp) THEN "A_state"
     ELSE "A_resp"

Init == i \in 1..Len(Events) /\ verdict = Verdict(Events[i])
Spec == Init /\ [][UNCHANGED vars]_vars
Pos == PrintT(<<"JV", i, verdict>>)
=============================================================================
