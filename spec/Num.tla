---------------------------- MODULE Num ----------------------------
(* Observed floating-point numbers as exact order keys (lib/fkey.py): a key is                    *)
(* [nan |-> BOOLEAN, k |-> <<hi, mid, lo>>]; lexicographic order of k = numeric order of doubles. *)
EXTENDS Naturals, Sequences
KLt(a, b) == \/ a[1] < b[1]
             \/ a[1] = b[1] /\ a[2] < b[2]
             \/ a[1] = b[1] /\ a[2] = b[2] /\ a[3] < b[3]
FLt(x, y) == ~x.nan /\ ~y.nan /\ KLt(x.k, y.k)
FEq(x, y) == ~x.nan /\ ~y.nan /\ x.k = y.k
FLeq(x, y) == FLt(x, y) \/ FEq(x, y)
FBetween(lo, x, hi) == FLeq(lo, x) /\ FLeq(x, hi)
IsNaN(x) == x.nan
\* +-inf have the extreme exponent: hi limb 0 (for -inf pattern ~0x7FF0.. -> small) -- finiteness is passed by the driver
=============================================================================
